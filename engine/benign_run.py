#!/usr/bin/env python3
"""benign_run.py [--skip-tests] [name-substring]: apply each behaviour-preserving variant in seeded/benign/*.diff to a scratch
copy of /repo, confirm it builds and passes the pinned tests, and run every check: all must stay silent (exit 0)."""
import glob, json, os, shutil, subprocess, sys, tempfile
VERIF = os.path.dirname(os.path.dirname(os.path.abspath(__file__)))
man = json.load(open(os.path.join(VERIF, "MANIFEST.json")))
allp = [c["property_id"] for c in man["checks"]]
args = [a for a in sys.argv[1:] if not a.startswith("--")]
if "--props" in sys.argv:
    # (development aid: only these checks; the recorded battery runs all of them)
    _i = sys.argv.index("--props")
    allp = sys.argv[_i + 1].split(",")
    args = [a for a in args if a != sys.argv[_i + 1]]
import concurrent.futures as cf
jobs = 4
if "-j" in sys.argv:
    jobs = int(sys.argv[sys.argv.index("-j") + 1])
    args = [a for a in args if a not in (str(jobs), "-j")]
evd_root = tempfile.mkdtemp(prefix="benign-ev-")


def one(patch):
    work = tempfile.mkdtemp(prefix="benign-")
    evd = tempfile.mkdtemp(prefix="ev-", dir=evd_root)
    try:
        subprocess.check_call(["rsync", "-a", "--exclude", "target", "--exclude", ".git", "/repo/", work + "/"])
        r = subprocess.run(["patch", "-p1", "-s", "-d", work, "-i", patch], capture_output=True, text=True)
        if r.returncode != 0:
            return patch, "DOES NOT APPLY %s" % r.stdout[:200], True
        if "--skip-tests" not in sys.argv:
            env = dict(os.environ, CARGO_TARGET_DIR=os.path.join(work, "target"))
            r = subprocess.run(["cargo", "test", "--workspace", "--no-fail-fast", "--offline"], cwd=work, env=env, capture_output=True, text=True)
            lines = [l for l in (r.stdout + r.stderr).splitlines() if l.startswith("test result")]
            ok = r.returncode == 0 and all(" 0 failed" in l for l in lines) and len(lines) >= 4
            shutil.rmtree(os.path.join(work, "target"), ignore_errors=True)
            if not ok:
                return patch, "TESTS FAIL (not a benign variant)", True
        env = dict(os.environ, VERIF_REPO=work, VERIF_EVIDENCE_DIR=evd)
        alarms, und = [], 0
        for p in allp:
            r = subprocess.run([os.path.join(VERIF, "check"), p], env=env, cwd=VERIF, capture_output=True, text=True)
            und += sum(1 for l in r.stdout.splitlines() if l.startswith("UNDECIDED"))
            if r.returncode != 0:
                alarms.append((p, [l.strip()[:200] for l in r.stdout.splitlines() if l.startswith("  ") and "/" in l][:4]))
        return patch, ("silent (undecided rows: %d)" % und) if not alarms else "FALSE ALARMS %s" % alarms, bool(alarms)
    finally:
        shutil.rmtree(work, ignore_errors=True)


patches = [p for p in sorted(glob.glob(os.path.join(VERIF, "seeded", "benign", "*.diff"))) if not args or any(a in p for a in args)]
bad = 0
with cf.ThreadPoolExecutor(max_workers=jobs) as ex:
    for patch, msg, isbad in ex.map(one, patches):
        print("%s: %s" % (os.path.basename(patch), msg), flush=True)
        bad += isbad
shutil.rmtree(evd_root, ignore_errors=True)
sys.exit(1 if bad else 0)
