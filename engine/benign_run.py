#!/usr/bin/env python3
"""benign_run.py [--skip-tests] [name-substring]: apply each behaviour-preserving variant in seeded/benign/*.diff to a scratch
copy of /repo, confirm it builds and passes the pinned tests, and run every check: all must stay silent (exit 0)."""
import glob, json, os, shutil, subprocess, sys, tempfile
VERIF = os.path.dirname(os.path.dirname(os.path.abspath(__file__)))
man = json.load(open(os.path.join(VERIF, "MANIFEST.json")))
allp = [c["property_id"] for c in man["checks"]]
args = [a for a in sys.argv[1:] if not a.startswith("--")]
bad = 0
evd = tempfile.mkdtemp(prefix="benign-ev-")
try:
    for patch in sorted(glob.glob(os.path.join(VERIF, "seeded", "benign", "*.diff"))):
        if args and not any(a in patch for a in args):
            continue
        work = tempfile.mkdtemp(prefix="benign-")
        try:
            subprocess.check_call(["rsync", "-a", "--exclude", "target", "--exclude", ".git", "/repo/", work + "/"])
            r = subprocess.run(["patch", "-p1", "-s", "-d", work, "-i", patch], capture_output=True, text=True)
            if r.returncode != 0:
                print("%s: DOES NOT APPLY %s" % (os.path.basename(patch), r.stdout[:200])); bad += 1; continue
            if "--skip-tests" not in sys.argv:
                env = dict(os.environ, CARGO_TARGET_DIR=os.path.join(work, "target"))
                r = subprocess.run(["cargo", "test", "--workspace", "--no-fail-fast", "--offline"], cwd=work, env=env, capture_output=True, text=True)
                lines = [l for l in (r.stdout + r.stderr).splitlines() if l.startswith("test result")]
                ok = r.returncode == 0 and all(" 0 failed" in l for l in lines) and len(lines) >= 4
                shutil.rmtree(os.path.join(work, "target"), ignore_errors=True)
                if not ok:
                    print("%s: TESTS FAIL (not a benign variant)" % os.path.basename(patch)); bad += 1; continue
            env = dict(os.environ, VERIF_REPO=work, VERIF_EVIDENCE_DIR=evd)
            alarms = []
            for p in allp:
                r = subprocess.run([os.path.join(VERIF, "check"), p], env=env, cwd=VERIF, capture_output=True, text=True)
                if r.returncode != 0:
                    alarms.append((p, [l.strip()[:200] for l in r.stdout.splitlines() if l.startswith("  ") and "/" in l][:4]))
            print("%s: %s" % (os.path.basename(patch), "silent" if not alarms else "FALSE ALARMS %s" % alarms))
            bad += bool(alarms)
        finally:
            shutil.rmtree(work, ignore_errors=True)
finally:
    shutil.rmtree(evd, ignore_errors=True)
sys.exit(1 if bad else 0)
