#!/usr/bin/env python3
"""coverage_loss.py [-j N] [name-substring...]: for every behaviour-preserving variant in seeded/benign/, run every check on the patched
tree and compare the number of decided instances and of undecided rows with the unchanged tree: where a refactoring makes a check lose
more than a fifth of its instances (an anchor it depended on is gone) the check is blind there — those are the places to make robust."""
import glob, json, os, re, shutil, subprocess, sys, tempfile, concurrent.futures as cf
VERIF = os.path.dirname(os.path.dirname(os.path.abspath(__file__)))
man = json.load(open(os.path.join(VERIF, "MANIFEST.json")))
allp = [c["property_id"] for c in man["checks"]]
args = [a for a in sys.argv[1:] if not a.startswith("-")]
jobs = 8
if "-j" in sys.argv:
    jobs = int(sys.argv[sys.argv.index("-j") + 1])
    args = [a for a in args if a != str(jobs)]


def counts(repo):
    out = {}
    evd = tempfile.mkdtemp(prefix="cl-ev-")
    env = dict(os.environ, VERIF_REPO=repo, VERIF_EVIDENCE_DIR=evd)
    for p in allp:
        r = subprocess.run([os.path.join(VERIF, "check"), p], env=env, cwd=VERIF, capture_output=True, text=True)
        m = re.search(r"instances=(\d+) distinct=(\d+) known=(\d+) undecided=(\d+)", r.stdout)
        out[p] = (int(m.group(1)), int(m.group(4)), r.returncode) if m else (0, 0, r.returncode)
    shutil.rmtree(evd, ignore_errors=True)
    return out


def one(patch):
    work = tempfile.mkdtemp(prefix="cl-")
    try:
        subprocess.check_call(["rsync", "-a", "--exclude", "target", "--exclude", ".git", "/repo/", work + "/"])
        r = subprocess.run(["patch", "-p1", "-s", "-d", work, "-i", patch], capture_output=True, text=True)
        if r.returncode != 0:
            return patch, None
        return patch, counts(work)
    finally:
        shutil.rmtree(work, ignore_errors=True)


base = counts("/repo")
patches = [p for p in sorted(glob.glob(os.path.join(VERIF, "seeded", "benign", "*.diff"))) if not args or any(a in p for a in args)]
with cf.ThreadPoolExecutor(max_workers=jobs) as ex:
    for patch, c in ex.map(one, patches):
        n = os.path.basename(patch)[:-5]
        if c is None:
            print("%s: does not apply" % n, flush=True)
            continue
        loss = ["%s %d->%d (undecided %d)" % (p, base[p][0], c[p][0], c[p][1]) for p in allp if c[p][0] < 0.8 * base[p][0] or c[p][1] >= 5]
        print("%s: %s" % (n, "; ".join(loss) if loss else "ok"), flush=True)
