// Engine A — facts driver.
//
// A rustc_private driver used as RUSTC_WORKSPACE_WRAPPER under
// `cargo +nightly check`.  For the crate(s) named `ruschm` it serialises, as one JSON
// file per crate (one write per process): every MIR body in a small normal form with
// *resolved* callees, the local ADTs with their variants, globals (statics,
// thread-locals), and source spans with macro-expansion information.
//
// Output directory: $FACTS_OUT (must exist).  File: <crate>-<lib|bin>.json
#![feature(rustc_private)]

extern crate rustc_abi;
extern crate rustc_driver;
extern crate rustc_hir;
extern crate rustc_interface;
extern crate rustc_middle;
extern crate rustc_session;
extern crate rustc_span;

use rustc_driver::Callbacks;
use rustc_hir::def::DefKind;
use rustc_hir::def_id::{DefId, LOCAL_CRATE};
use rustc_interface::interface::Compiler;
use rustc_middle::mir::{self, *};
use rustc_middle::ty::{self, Ty, TyCtxt};
use rustc_span::Span;
use std::fmt::Write as _;

// ---------------------------------------------------------------- tiny JSON writer
fn jstr(s: &str) -> String {
    let mut o = String::with_capacity(s.len() + 2);
    o.push('"');
    for c in s.chars() {
        match c {
            '"' => o.push_str("\\\""),
            '\\' => o.push_str("\\\\"),
            '\n' => o.push_str("\\n"),
            '\r' => o.push_str("\\r"),
            '\t' => o.push_str("\\t"),
            c if (c as u32) < 0x20 => {
                let _ = write!(o, "\\u{:04x}", c as u32);
            }
            c => o.push(c),
        }
    }
    o.push('"');
    o
}
fn jlist(items: Vec<String>) -> String {
    format!("[{}]", items.join(","))
}
fn jobj(items: Vec<(&str, String)>) -> String {
    let v: Vec<String> = items
        .into_iter()
        .map(|(k, v)| format!("{}:{}", jstr(k), v))
        .collect();
    format!("{{{}}}", v.join(","))
}
fn jopt(o: Option<String>) -> String {
    o.unwrap_or_else(|| "null".to_string())
}

// ---------------------------------------------------------------- helpers
struct Cx<'tcx> {
    tcx: TyCtxt<'tcx>,
}

impl<'tcx> Cx<'tcx> {
    fn path(&self, did: DefId) -> String {
        // generic-free path: crate::mod::Type::method / crate::mod::{impl#n}::method
        self.tcx.def_path_str(did)
    }
    fn raw_path(&self, did: DefId) -> String {
        let krate = self.tcx.crate_name(did.krate).to_string();
        format!("{}{}", krate, self.tcx.def_path(did).to_string_no_crate_verbose())
    }
    fn span(&self, sp: Span) -> String {
        let sm = self.tcx.sess.source_map();
        let from_exp = sp.from_expansion();
        // the outermost macro that produced this span
        let mut macros_plain: Vec<String> = Vec::new();
        if from_exp {
            for e in sp.macro_backtrace() {
                macros_plain.push(e.kind.descr());
            }
        }
        let root = sp.source_callsite();
        let lo = sm.lookup_char_pos(root.lo());
        let file = match &lo.file.name {
            rustc_span::FileName::Real(r) => match r.local_path() {
                Some(p) => p.to_string_lossy().to_string(),
                None => format!("{:?}", lo.file.name),
            },
            other => format!("{:?}", other),
        };
        let mut t = format!("{}:{}:{}", file, lo.line, lo.col.0 + 1);
        if from_exp {
            t.push_str("|");
            t.push_str(&macros_plain.join("|"));
        }
        jstr(&t)
    }
    fn ty(&self, t: Ty<'tcx>) -> String {
        jstr(&format!("{}", t))
    }

    fn place(&self, body: &Body<'tcx>, p: &Place<'tcx>) -> String {
        let mut projs = Vec::new();
        let mut cur_ty = mir::PlaceTy::from_ty(body.local_decls[p.local].ty);
        for elem in p.projection.iter() {
            let j = match elem {
                ProjectionElem::Deref => jobj(vec![("k", jstr("deref"))]),
                ProjectionElem::Field(f, fty) => {
                    // field name where available
                    let mut name = None;
                    if let ty::Adt(adt, _) = cur_ty.ty.kind() {
                        let vidx = cur_ty.variant_index.unwrap_or(rustc_abi::FIRST_VARIANT);
                        if adt.is_enum() || adt.is_struct() || adt.is_union() {
                            if let Some(v) = adt.variants().get(vidx) {
                                if let Some(fd) = v.fields.get(f) {
                                    name = Some(fd.name.to_string());
                                }
                            }
                        }
                    }
                    jobj(vec![
                        ("k", jstr("field")),
                        ("i", f.index().to_string()),
                        ("name", jopt(name.map(|n| jstr(&n)))),
                        ("ty", self.ty(fty)),
                    ])
                }
                ProjectionElem::Downcast(name, vidx) => jobj(vec![
                    ("k", jstr("downcast")),
                    (
                        "variant",
                        jopt(name.map(|n| jstr(&n.to_string()))),
                    ),
                    ("i", vidx.index().to_string()),
                ]),
                ProjectionElem::Index(l) => jobj(vec![
                    ("k", jstr("index")),
                    ("local", l.index().to_string()),
                ]),
                ProjectionElem::ConstantIndex {
                    offset,
                    min_length,
                    from_end,
                } => jobj(vec![
                    ("k", jstr("const_index")),
                    ("offset", offset.to_string()),
                    ("min_length", min_length.to_string()),
                    ("from_end", from_end.to_string()),
                ]),
                ProjectionElem::Subslice { from, to, from_end } => jobj(vec![
                    ("k", jstr("subslice")),
                    ("from", from.to_string()),
                    ("to", to.to_string()),
                    ("from_end", from_end.to_string()),
                ]),
                ProjectionElem::OpaqueCast(t) => {
                    jobj(vec![("k", jstr("opaque_cast")), ("ty", self.ty(t))])
                }
                ProjectionElem::UnwrapUnsafeBinder(t) => {
                    jobj(vec![("k", jstr("unwrap_binder")), ("ty", self.ty(t))])
                }
            };
            projs.push(j);
            cur_ty = cur_ty.projection_ty(self.tcx, elem);
        }
        jobj(vec![
            ("local", p.local.index().to_string()),
            ("proj", jlist(projs)),
        ])
    }

    fn fn_ref(&self, caller: DefId, fty: Ty<'tcx>) -> Option<String> {
        match fty.kind() {
            ty::FnDef(cd, args) => {
                let declared = self.path(*cd);
                let raw = self.raw_path(*cd);
                let mut resolved = None;
                let mut resolved_raw = None;
                let typing_env = ty::TypingEnv::post_analysis(self.tcx, caller);
                if let Ok(Some(inst)) = ty::Instance::try_resolve(self.tcx, typing_env, *cd, args) {
                    let rd = inst.def_id();
                    resolved = Some(self.path(rd));
                    resolved_raw = Some(self.raw_path(rd));
                }
                let gargs: Vec<String> = args.iter().map(|a| jstr(&format!("{}", a))).collect();
                // self type of the call (first generic arg for trait methods)
                Some(jobj(vec![
                    ("def", jstr(&declared)),
                    ("raw", jstr(&raw)),
                    ("resolved", jopt(resolved.map(|s| jstr(&s)))),
                    ("resolved_raw", jopt(resolved_raw.map(|s| jstr(&s)))),
                    ("generics", jlist(gargs)),
                    ("local", (cd.krate == LOCAL_CRATE).to_string()),
                ]))
            }
            ty::Closure(cd, _) => Some(jobj(vec![
                ("def", jstr(&self.path(*cd))),
                ("raw", jstr(&self.raw_path(*cd))),
                ("resolved", jstr(&self.path(*cd))),
                ("resolved_raw", jstr(&self.raw_path(*cd))),
                ("generics", jlist(vec![])),
                ("local", (cd.krate == LOCAL_CRATE).to_string()),
                ("closure", "true".to_string()),
            ])),
            _ => None,
        }
    }

    fn constant(&self, caller: DefId, c: &ConstOperand<'tcx>) -> String {
        let ty = c.const_.ty();
        let mut items = vec![("ty", self.ty(ty))];
        if let Some(f) = self.fn_ref(caller, ty) {
            items.push(("fn", f));
        }
        // scalar values
        let typing_env = ty::TypingEnv::post_analysis(self.tcx, caller);
        let mut val: Option<String> = None;
        match ty.kind() {
            ty::Bool | ty::Char | ty::Int(_) | ty::Uint(_) => {
                if let Some(si) = c.const_.try_eval_scalar_int(self.tcx, typing_env) {
                    let size = si.size();
                    match ty.kind() {
                        ty::Bool => {
                            val = Some((si.to_bits(size) != 0).to_string());
                        }
                        ty::Char => {
                            let bits = si.to_bits(size) as u32;
                            if let Some(ch) = char::from_u32(bits) {
                                val = Some(jstr(&ch.to_string()));
                            }
                        }
                        ty::Int(_) => {
                            val = Some(si.to_int(size).to_string());
                        }
                        ty::Uint(_) => {
                            val = Some(si.to_bits(size).to_string());
                        }
                        _ => {}
                    }
                }
            }
            ty::Ref(_, inner, _) if inner.is_str() => {
                if let Some(s) = self.const_str(caller, c) {
                    val = Some(jstr(&s));
                }
            }
            ty::Ref(_, inner, _) => {
                if let ty::Array(elem, _) = inner.kind() {
                    if matches!(elem.kind(), ty::Uint(ty::UintTy::U8)) {
                        if let Some(bytes) = self.const_bytes(caller, c) {
                            let bs: Vec<String> = bytes.iter().map(|b| b.to_string()).collect();
                            items.push(("bytes", jlist(bs)));
                        }
                    }
                }
            }
            _ => {}
        }
        if let Some(v) = val {
            items.push(("val", v));
        }
        // statics / promoted / unevaluated consts: record the def
        if let mir::Const::Unevaluated(uv, _) = c.const_ {
            items.push(("uneval", jstr(&self.path(uv.def))));
            if let Some(p) = uv.promoted {
                items.push(("promoted", p.index().to_string()));
                // constants inside the promoted body (string literals compared with `==`)
                let promoted = self.tcx.promoted_mir(uv.def);
                if let Some(pb) = promoted.get(p) {
                    let mut strs = Vec::new();
                    for bd in pb.basic_blocks.iter() {
                        for st in &bd.statements {
                            if let StatementKind::Assign(b) = &st.kind {
                                let (_, rv) = &**b;
                                let mut ops: Vec<&Operand<'tcx>> = Vec::new();
                                match rv {
                                    Rvalue::Use(o, ..) => ops.push(o),
                                    Rvalue::Cast(_, o, _) => ops.push(o),
                                    Rvalue::Aggregate(_, os) => {
                                        for o in os.iter() {
                                            ops.push(o)
                                        }
                                    }
                                    _ => {}
                                }
                                for o in ops {
                                    if let Operand::Constant(cc) = o {
                                        if let ty::Ref(_, inner, _) = cc.const_.ty().kind() {
                                            if inner.is_str() {
                                                if let Some(sv) = self.const_str(uv.def, cc) {
                                                    strs.push(jstr(&sv));
                                                }
                                            }
                                        }
                                    }
                                }
                            }
                        }
                    }
                    items.push(("promoted_strs", jlist(strs)));
                    // the promoted body itself (a constant built by a few aggregate statements): lets the abstract
                    // evaluator know the value of e.g. `&(0, false)`
                    if pb.basic_blocks.len() <= 4 {
                        items.push(("promoted_body", self.body(uv.def, pb)));
                    }
                }
            }
        }
        if let Some(did) = c.check_static_ptr(self.tcx) {
            items.push(("static", jstr(&self.path(did))));
        }
        items.push(("text", jstr(&format!("{}", c.const_))));
        jobj(items)
    }

    fn const_str(&self, caller: DefId, c: &ConstOperand<'tcx>) -> Option<String> {
        let typing_env = ty::TypingEnv::post_analysis(self.tcx, caller);
        let v = c.const_.eval(self.tcx, typing_env, c.span).ok()?;
        if let mir::ConstValue::Slice { alloc_id, meta } = v {
            let alloc = self.tcx.global_alloc(alloc_id).unwrap_memory();
            let len = meta as usize;
            let bytes = alloc
                .inner()
                .inspect_with_uninit_and_ptr_outside_interpreter(0..len);
            return Some(String::from_utf8_lossy(bytes).to_string());
        }
        None
    }

    fn const_bytes(&self, caller: DefId, c: &ConstOperand<'tcx>) -> Option<Vec<u8>> {
        let typing_env = ty::TypingEnv::post_analysis(self.tcx, caller);
        let v = c.const_.eval(self.tcx, typing_env, c.span).ok()?;
        if let mir::ConstValue::Scalar(mir::interpret::Scalar::Ptr(ptr, _)) = v {
            let (prov, offset) = ptr.prov_and_relative_offset();
            let alloc = self.tcx.global_alloc(prov.alloc_id()).unwrap_memory();
            let size = alloc.inner().size().bytes_usize();
            let off = offset.bytes_usize();
            let bytes = alloc
                .inner()
                .inspect_with_uninit_and_ptr_outside_interpreter(off..size);
            return Some(bytes.to_vec());
        }
        None
    }

    fn operand(&self, caller: DefId, body: &Body<'tcx>, o: &Operand<'tcx>) -> String {
        match o {
            Operand::Copy(p) => jobj(vec![("k", jstr("copy")), ("place", self.place(body, p))]),
            Operand::Move(p) => jobj(vec![("k", jstr("move")), ("place", self.place(body, p))]),
            Operand::Constant(c) => {
                jobj(vec![("k", jstr("const")), ("c", self.constant(caller, c))])
            }
            #[allow(unreachable_patterns)]
            _ => jobj(vec![("k", jstr("other")), ("text", jstr(&format!("{:?}", o)))]),
        }
    }

    fn rvalue(&self, caller: DefId, body: &Body<'tcx>, rv: &Rvalue<'tcx>) -> String {
        match rv {
            Rvalue::Use(o, ..) => jobj(vec![
                ("k", jstr("use")),
                ("op", self.operand(caller, body, o)),
            ]),
            Rvalue::Repeat(o, n) => jobj(vec![
                ("k", jstr("repeat")),
                ("op", self.operand(caller, body, o)),
                ("n", jstr(&format!("{}", n))),
            ]),
            Rvalue::Ref(_, bk, p) => jobj(vec![
                ("k", jstr("ref")),
                (
                    "mut",
                    matches!(bk, BorrowKind::Mut { .. }).to_string(),
                ),
                ("place", self.place(body, p)),
            ]),
            Rvalue::ThreadLocalRef(d) => jobj(vec![
                ("k", jstr("thread_local_ref")),
                ("def", jstr(&self.path(*d))),
            ]),
            Rvalue::RawPtr(kind, p) => jobj(vec![
                ("k", jstr("rawptr")),
                ("mut", jstr(&format!("{:?}", kind))),
                ("place", self.place(body, p)),
            ]),
            Rvalue::Cast(kind, o, t) => {
                let mut items = vec![
                    ("k", jstr("cast")),
                    ("kind", jstr(&format!("{:?}", kind))),
                    ("op", self.operand(caller, body, o)),
                    ("ty", self.ty(*t)),
                    ("from_ty", self.ty(o.ty(&body.local_decls, self.tcx))),
                ];
                if let Some(f) = self.fn_ref(caller, o.ty(&body.local_decls, self.tcx)) {
                    items.push(("fn", f));
                }
                jobj(items)
            }
            Rvalue::BinaryOp(op, b) => jobj(vec![
                ("k", jstr("binop")),
                ("op", jstr(&format!("{:?}", op))),
                ("l", self.operand(caller, body, &b.0)),
                ("r", self.operand(caller, body, &b.1)),
                ("lty", self.ty(b.0.ty(&body.local_decls, self.tcx))),
            ]),
            Rvalue::UnaryOp(op, o) => jobj(vec![
                ("k", jstr("unop")),
                ("op", jstr(&format!("{:?}", op))),
                ("operand", self.operand(caller, body, o)),
                ("oty", self.ty(o.ty(&body.local_decls, self.tcx))),
            ]),
            Rvalue::Discriminant(p) => {
                let pty = p.ty(&body.local_decls, self.tcx).ty;
                jobj(vec![
                    ("k", jstr("discriminant")),
                    ("place", self.place(body, p)),
                    ("of", self.ty(pty)),
                    ("adt", jopt(self.adt_path(pty).map(|s| jstr(&s)))),
                ])
            }
            Rvalue::Aggregate(kind, ops) => {
                let opsj: Vec<String> = ops
                    .iter()
                    .map(|o| self.operand(caller, body, o))
                    .collect();
                let kindj = match &**kind {
                    AggregateKind::Array(t) => {
                        jobj(vec![("k", jstr("array")), ("ty", self.ty(*t))])
                    }
                    AggregateKind::Tuple => jobj(vec![("k", jstr("tuple"))]),
                    AggregateKind::Adt(did, vidx, _, _, _) => {
                        let adt = self.tcx.adt_def(*did);
                        let v = adt.variant(*vidx);
                        jobj(vec![
                            ("k", jstr("adt")),
                            ("adt", jstr(&self.path(*did))),
                            ("variant", jstr(&v.name.to_string())),
                            ("i", vidx.index().to_string()),
                        ])
                    }
                    AggregateKind::Closure(did, _) => jobj(vec![
                        ("k", jstr("closure")),
                        ("def", jstr(&self.path(*did))),
                    ]),
                    other => jobj(vec![
                        ("k", jstr("other")),
                        ("text", jstr(&format!("{:?}", other))),
                    ]),
                };
                jobj(vec![
                    ("k", jstr("aggregate")),
                    ("kind", kindj),
                    ("ops", jlist(opsj)),
                ])
            }
            Rvalue::CopyForDeref(p) => jobj(vec![
                ("k", jstr("use")),
                (
                    "op",
                    jobj(vec![("k", jstr("copy")), ("place", self.place(body, p))]),
                ),
            ]),
            other => jobj(vec![
                ("k", jstr("other")),
                ("text", jstr(&format!("{:?}", other))),
            ]),
        }
    }

    fn adt_path(&self, t: Ty<'tcx>) -> Option<String> {
        match t.kind() {
            ty::Adt(adt, _) => Some(self.path(adt.did())),
            _ => None,
        }
    }

    fn terminator(&self, caller: DefId, body: &Body<'tcx>, t: &Terminator<'tcx>) -> String {
        let span = self.span(t.source_info.span);
        let bb = |b: BasicBlock| b.index().to_string();
        let unwind = |u: &UnwindAction| match u {
            UnwindAction::Cleanup(b) => bb(*b),
            _ => "null".to_string(),
        };
        match &t.kind {
            TerminatorKind::Goto { target } => jobj(vec![
                ("k", jstr("goto")),
                ("target", bb(*target)),
                ("span", span),
            ]),
            TerminatorKind::SwitchInt { discr, targets } => {
                let mut ts = Vec::new();
                for (v, b) in targets.iter() {
                    ts.push(format!("[{},{}]", v, bb(b)));
                }
                jobj(vec![
                    ("k", jstr("switch")),
                    ("discr", self.operand(caller, body, discr)),
                    ("dty", self.ty(discr.ty(&body.local_decls, self.tcx))),
                    ("targets", jlist(ts)),
                    ("otherwise", bb(targets.otherwise())),
                    ("span", span),
                ])
            }
            TerminatorKind::UnwindResume => jobj(vec![("k", jstr("resume")), ("span", span)]),
            TerminatorKind::UnwindTerminate(_) => {
                jobj(vec![("k", jstr("terminate")), ("span", span)])
            }
            TerminatorKind::Return => jobj(vec![("k", jstr("return")), ("span", span)]),
            TerminatorKind::Unreachable => {
                jobj(vec![("k", jstr("unreachable")), ("span", span)])
            }
            TerminatorKind::Drop {
                place,
                target,
                unwind: u,
                ..
            } => {
                let pty = place.ty(&body.local_decls, self.tcx).ty;
                jobj(vec![
                    ("k", jstr("drop")),
                    ("place", self.place(body, place)),
                    ("ty", self.ty(pty)),
                    ("target", bb(*target)),
                    ("unwind", unwind(u)),
                    ("span", span),
                ])
            }
            TerminatorKind::Call {
                func,
                args,
                destination,
                target,
                unwind: u,
                fn_span,
                ..
            } => {
                let fty = func.ty(&body.local_decls, self.tcx);
                let fnj = self.fn_ref(caller, fty);
                let argsj: Vec<String> = args
                    .iter()
                    .map(|a| self.operand(caller, body, &a.node))
                    .collect();
                let argtys: Vec<String> = args
                    .iter()
                    .map(|a| self.ty(a.node.ty(&body.local_decls, self.tcx)))
                    .collect();
                jobj(vec![
                    ("k", jstr("call")),
                    ("fn", jopt(fnj)),
                    ("fty", self.ty(fty)),
                    ("func", self.operand(caller, body, func)),
                    ("args", jlist(argsj)),
                    ("argtys", jlist(argtys)),
                    ("dest", self.place(body, destination)),
                    ("target", jopt(target.map(bb))),
                    ("unwind", unwind(u)),
                    ("span", span),
                    ("fn_span", self.span(*fn_span)),
                ])
            }
            TerminatorKind::TailCall { func, args, .. } => {
                let fty = func.ty(&body.local_decls, self.tcx);
                let argsj: Vec<String> = args
                    .iter()
                    .map(|a| self.operand(caller, body, &a.node))
                    .collect();
                jobj(vec![
                    ("k", jstr("tailcall")),
                    ("fn", jopt(self.fn_ref(caller, fty))),
                    ("args", jlist(argsj)),
                    ("span", span),
                ])
            }
            TerminatorKind::Assert {
                cond,
                expected,
                msg,
                target,
                unwind: u,
            } => {
                let (kind, op) = match &**msg {
                    AssertKind::BoundsCheck { .. } => ("BoundsCheck", None),
                    AssertKind::Overflow(op, _, _) => ("Overflow", Some(format!("{:?}", op))),
                    AssertKind::OverflowNeg(_) => ("OverflowNeg", None),
                    AssertKind::DivisionByZero(_) => ("DivisionByZero", None),
                    AssertKind::RemainderByZero(_) => ("RemainderByZero", None),
                    AssertKind::MisalignedPointerDereference { .. } => ("Misaligned", None),
                    AssertKind::NullPointerDereference => ("NullDeref", None),
                    _ => ("Other", None),
                };
                jobj(vec![
                    ("k", jstr("assert")),
                    ("cond", self.operand(caller, body, cond)),
                    ("expected", expected.to_string()),
                    ("kind", jstr(kind)),
                    ("op", jopt(op.map(|s| jstr(&s)))),
                    ("target", bb(*target)),
                    ("unwind", unwind(u)),
                    ("span", span),
                ])
            }
            TerminatorKind::FalseEdge { real_target, .. } => jobj(vec![
                ("k", jstr("goto")),
                ("target", bb(*real_target)),
                ("span", span),
            ]),
            TerminatorKind::FalseUnwind { real_target, .. } => jobj(vec![
                ("k", jstr("goto")),
                ("target", bb(*real_target)),
                ("span", span),
            ]),
            other => jobj(vec![
                ("k", jstr("other")),
                ("text", jstr(&format!("{:?}", other))),
                ("span", span),
            ]),
        }
    }

    fn body(&self, did: DefId, body: &Body<'tcx>) -> String {
        let mut locals = Vec::new();
        let mut names: std::collections::HashMap<usize, String> = Default::default();
        for vdi in &body.var_debug_info {
            if let VarDebugInfoContents::Place(p) = &vdi.value {
                if p.projection.is_empty() {
                    names
                        .entry(p.local.index())
                        .or_insert_with(|| vdi.name.to_string());
                }
            }
        }
        for (l, decl) in body.local_decls.iter_enumerated() {
            locals.push(jobj(vec![
                ("ty", self.ty(decl.ty)),
                (
                    "name",
                    jopt(names.get(&l.index()).map(|n| jstr(n))),
                ),
                ("user", names.contains_key(&l.index()).to_string()),
            ]));
        }
        // closure captures debug info (upvars): name -> field index
        let mut upvars = Vec::new();
        for vdi in &body.var_debug_info {
            if let VarDebugInfoContents::Place(p) = &vdi.value {
                if !p.projection.is_empty() {
                    upvars.push(jobj(vec![
                        ("name", jstr(&vdi.name.to_string())),
                        ("place", self.place(body, p)),
                    ]));
                }
            }
        }
        let mut blocks = Vec::new();
        for (_bb, data) in body.basic_blocks.iter_enumerated() {
            let mut stmts = Vec::new();
            for s in &data.statements {
                match &s.kind {
                    StatementKind::Assign(b) => {
                        let (p, rv) = &**b;
                        stmts.push(jobj(vec![
                            ("k", jstr("assign")),
                            ("place", self.place(body, p)),
                            ("rv", self.rvalue(did, body, rv)),
                            ("span", self.span(s.source_info.span)),
                        ]));
                    }
                    StatementKind::SetDiscriminant {
                        place,
                        variant_index,
                    } => {
                        stmts.push(jobj(vec![
                            ("k", jstr("set_discriminant")),
                            ("place", self.place(body, place)),
                            ("i", variant_index.index().to_string()),
                        ]));
                    }
                    StatementKind::StorageLive(_)
                    | StatementKind::StorageDead(_)
                    | StatementKind::Nop
                    | StatementKind::FakeRead(..)
                    | StatementKind::AscribeUserType(..)
                    | StatementKind::Coverage(..)
                    | StatementKind::ConstEvalCounter
                    | StatementKind::PlaceMention(..)
                    | StatementKind::BackwardIncompatibleDropHint { .. } => {}
                    other => {
                        stmts.push(jobj(vec![
                            ("k", jstr("other")),
                            ("text", jstr(&format!("{:?}", other))),
                        ]));
                    }
                }
            }
            let term = self.terminator(did, body, data.terminator());
            blocks.push(jobj(vec![
                ("stmts", jlist(stmts)),
                ("term", term),
                ("cleanup", data.is_cleanup.to_string()),
            ]));
        }
        jobj(vec![
            ("arg_count", body.arg_count.to_string()),
            ("locals", jlist(locals)),
            ("upvars", jlist(upvars)),
            ("blocks", jlist(blocks)),
        ])
    }
}

struct FactsCb;

impl Callbacks for FactsCb {
    fn after_analysis<'tcx>(
        &mut self,
        _compiler: &Compiler,
        tcx: TyCtxt<'tcx>,
    ) -> rustc_driver::Compilation {
        let crate_name = tcx.crate_name(LOCAL_CRATE).to_string();
        let wanted = std::env::var("FACTS_CRATES").unwrap_or_else(|_| "ruschm".to_string());
        if !wanted.split(',').any(|w| w == crate_name) {
            return rustc_driver::Compilation::Continue;
        }
        let out_dir = match std::env::var("FACTS_OUT") {
            Ok(d) => d,
            Err(_) => return rustc_driver::Compilation::Continue,
        };
        let cx = Cx { tcx };
        let is_bin = tcx
            .crate_types()
            .iter()
            .any(|t| matches!(t, rustc_session::config::CrateType::Executable));

        // ---- functions
        let mut funcs = Vec::new();
        let mut keys: Vec<_> = tcx.mir_keys(()).iter().copied().collect();
        keys.sort_by_key(|k| tcx.def_path_str(k.to_def_id()));
        for ldid in keys {
            let did = ldid.to_def_id();
            let kind = tcx.def_kind(did);
            let is_fn_like = matches!(
                kind,
                DefKind::Fn | DefKind::AssocFn | DefKind::Closure
            );
            if !is_fn_like {
                continue;
            }
            // skip constructors (no interesting MIR) but keep everything else
            let body = tcx.optimized_mir(did);
            let vis = if matches!(kind, DefKind::Fn | DefKind::AssocFn) {
                format!("{:?}", tcx.visibility(did))
            } else {
                "closure".to_string()
            };
            let parent = tcx.opt_parent(did).map(|p| cx.path(p));
            // impl info
            let mut trait_impl = None;
            let mut self_ty = None;
            if let Some(impl_did) = tcx.impl_of_assoc(did) {
                self_ty = Some(format!(
                    "{}",
                    tcx.type_of(impl_did).instantiate_identity().skip_norm_wip()
                ));
                if let Some(tr) = tcx.impl_opt_trait_ref(impl_did) {
                    trait_impl = Some(cx.path(tr.skip_binder().def_id));
                }
            }
            let derived = tcx
                .impl_of_assoc(did)
                .map(|i| tcx.is_automatically_derived(i))
                .unwrap_or(false);
            // names of the generic parameters in the order of the callee's GenericArgs (parent's first): lets a client map the
            // instantiated `generics` of a call to the names used in the callee's MIR types
            let gens = tcx.generics_of(did);
            let mut gnames: Vec<String> = Vec::new();
            for i in 0..gens.count() {
                gnames.push(jstr(&gens.param_at(i, tcx).name.to_string()));
            }
            funcs.push(jobj(vec![
                ("path", jstr(&cx.path(did))),
                ("generic_params", jlist(gnames)),
                ("raw", jstr(&cx.raw_path(did))),
                ("kind", jstr(&format!("{:?}", kind))),
                ("vis", jstr(&vis)),
                ("parent", jopt(parent.map(|p| jstr(&p)))),
                ("trait", jopt(trait_impl.map(|p| jstr(&p)))),
                ("self_ty", jopt(self_ty.map(|p| jstr(&p)))),
                ("derived", derived.to_string()),
                ("span", cx.span(tcx.def_span(did))),
                ("ret_ty", cx.ty(body.return_ty())),
                ("mir", cx.body(did, body)),
            ]));
        }

        // ---- ADTs, statics, consts
        let mut adts = Vec::new();
        let mut globals = Vec::new();
        for ldid in tcx.hir_crate_items(()).definitions() {
            let did = ldid.to_def_id();
            match tcx.def_kind(did) {
                DefKind::Struct | DefKind::Enum | DefKind::Union => {
                    let adt = tcx.adt_def(did);
                    let mut variants = Vec::new();
                    for (vi, v) in adt.variants().iter_enumerated() {
                        let mut fields = Vec::new();
                        for f in v.fields.iter() {
                            let fty = tcx.type_of(f.did).instantiate_identity().skip_norm_wip();
                            fields.push(jobj(vec![
                                ("name", jstr(&f.name.to_string())),
                                ("ty", cx.ty(fty)),
                                ("vis", jstr(&format!("{:?}", f.vis))),
                            ]));
                        }
                        variants.push(jobj(vec![
                            ("name", jstr(&v.name.to_string())),
                            ("i", vi.index().to_string()),
                            ("fields", jlist(fields)),
                        ]));
                    }
                    adts.push(jobj(vec![
                        ("path", jstr(&cx.path(did))),
                        ("raw", jstr(&cx.raw_path(did))),
                        ("kind", jstr(&format!("{:?}", tcx.def_kind(did)))),
                        ("vis", jstr(&format!("{:?}", tcx.visibility(did)))),
                        ("variants", jlist(variants)),
                    ]));
                }
                DefKind::Static { mutability, nested, .. } => {
                    let t = tcx.type_of(did).instantiate_identity().skip_norm_wip();
                    let tl = tcx.is_thread_local_static(did);
                    globals.push(jobj(vec![
                        ("path", jstr(&cx.path(did))),
                        ("raw", jstr(&cx.raw_path(did))),
                        ("kind", jstr("static")),
                        ("mutable", matches!(mutability, rustc_hir::Mutability::Mut).to_string()),
                        ("nested", nested.to_string()),
                        ("thread_local", tl.to_string()),
                        ("ty", cx.ty(t)),
                        ("freeze", t.is_freeze(tcx, ty::TypingEnv::post_analysis(tcx, did)).to_string()),
                        ("span", cx.span(tcx.def_span(did))),
                    ]));
                }
                DefKind::Const { .. } | DefKind::AssocConst { .. } => {
                    let t = tcx.type_of(did).instantiate_identity().skip_norm_wip();
                    globals.push(jobj(vec![
                        ("path", jstr(&cx.path(did))),
                        ("raw", jstr(&cx.raw_path(did))),
                        ("kind", jstr("const")),
                        ("mutable", "false".to_string()),
                        ("nested", "false".to_string()),
                        ("thread_local", "false".to_string()),
                        ("ty", cx.ty(t)),
                        ("freeze", "true".to_string()),
                        ("span", cx.span(tcx.def_span(did))),
                    ]));
                }
                _ => {}
            }
        }

        let doc = jobj(vec![
            ("crate", jstr(&crate_name)),
            ("is_bin", is_bin.to_string()),
            ("functions", jlist(funcs)),
            ("adts", jlist(adts)),
            ("globals", jlist(globals)),
        ]);
        let fname = format!(
            "{}/{}-{}.json",
            out_dir,
            crate_name,
            if is_bin { "bin" } else { "lib" }
        );
        std::fs::write(&fname, doc).expect("write facts");
        rustc_driver::Compilation::Continue
    }
}

fn main() {
    let mut args: Vec<String> = std::env::args().collect();
    // RUSTC_WORKSPACE_WRAPPER: argv = [driver, rustc-path, args...]
    if args.len() > 1 && (args[1].ends_with("rustc") || args[1].contains("/rustc")) {
        args.remove(1);
    }
    let mut cb = FactsCb;
    rustc_driver::run_compiler(&args, &mut cb);
}
