#!/usr/bin/env python3
"""seed_eval.py <seed-id> <patch.diff> [--props C01,C02,...]
Confirm a seeded change (applies to /repo HEAD, builds, passes the pinned tests) in a scratch copy and run the
checks against it.  Prints which checks report a VIOLATION (beyond known findings).  Scratch copy is removed."""
import json, os, shutil, subprocess, sys, tempfile
VERIF = os.path.dirname(os.path.dirname(os.path.abspath(__file__)))
seed, patch = sys.argv[1], os.path.abspath(sys.argv[2])
props = None
if "--props" in sys.argv:
    props = sys.argv[sys.argv.index("--props") + 1].split(",")
man = json.load(open(os.path.join(VERIF, "MANIFEST.json")))
allp = [c["property_id"] for c in man["checks"]]
props = props or allp
work = tempfile.mkdtemp(prefix="seed-")
res = {"seed": seed, "applies": False, "builds": False, "tests_pass": False, "caught_by": [], "silent": []}
try:
    subprocess.check_call(["rsync", "-a", "--exclude", "target", "--exclude", ".git", "--exclude", "MUTANT", "/repo/", work + "/"])
    r = subprocess.run(["patch", "-p1", "-s", "-d", work, "-i", patch], capture_output=True, text=True)
    res["applies"] = r.returncode == 0
    if not res["applies"]:
        print(r.stdout, r.stderr)
    else:
        env = dict(os.environ, CARGO_TARGET_DIR=os.path.join(work, "target"))
        if "--skip-tests" not in sys.argv:
            r = subprocess.run(["cargo", "test", "--workspace", "--no-fail-fast", "--offline"], cwd=work, env=env, capture_output=True, text=True)
            out = r.stdout + r.stderr
            res["builds"] = "error: could not compile" not in out
            lines = [l for l in out.splitlines() if l.startswith("test result")]
            res["tests_pass"] = r.returncode == 0 and all(" 0 failed" in l for l in lines) and len(lines) >= 4
            res["test_lines"] = lines
            shutil.rmtree(os.path.join(work, "target"), ignore_errors=True)
        evd = tempfile.mkdtemp(prefix="seed-ev-")
        env = dict(os.environ, VERIF_REPO=work, VERIF_EVIDENCE_DIR=evd)
        for p in props:
            r = subprocess.run([os.path.join(VERIF, "check"), p], env=env, cwd=VERIF, capture_output=True, text=True)
            viol = [l.strip() for l in r.stdout.splitlines() if l.startswith("  ") and "/" in l]
            if r.returncode != 0:
                res["caught_by"].append({"property": p, "reports": [v[:300] for v in viol[:6]]})
            else:
                res["silent"].append(p)
        shutil.rmtree(evd, ignore_errors=True)
finally:
    shutil.rmtree(work, ignore_errors=True)
print(json.dumps(res, indent=1))
