#!/bin/sh
# seed_store.sh <seed-id> <worktree> <props-to-run>   : copy MUTANT/* into /verif/seeded/<seed-id>/, evaluate, write eval.json
set -e
id=$1; wt=$2; props=$3
mkdir -p /verif/seeded/$id
test -d $wt && cp -r $wt/MUTANT/* /verif/seeded/$id/ 2>/dev/null || true
rm -f /verif/seeded/$id/.foreign* 
test -d $wt && (cd $wt && git diff -- src) > /verif/seeded/$id/patch.diff.new && mv /verif/seeded/$id/patch.diff.new /verif/seeded/$id/patch.diff
/verif/engine/seed_eval.py $id /verif/seeded/$id/patch.diff ${props:+--props $props} > /verif/seeded/$id/eval.json
python3 - "$id" <<'PY'
import json,sys
d=json.load(open('/verif/seeded/%s/eval.json'%sys.argv[1]))
print(sys.argv[1], "applies",d["applies"],"tests",d["tests_pass"],"caught_by",[ (c["property"], [r.split(":")[0] for r in c["reports"]][:3]) for c in d["caught_by"]])
PY
