#!/bin/sh
# benign_collect.sh <Cnn> : copy the behaviour-preserving refactorings produced in /tmp/wt/<Cnn>r/BENIGN into seeded/benign/,
# remove the worktree, and run the whole battery of checks against each (must be silent).
p=$1; wt=/tmp/wt/${p}r
for k in 1 2 3 4; do
  [ -s $wt/BENIGN/r$k.diff ] && cp $wt/BENIGN/r$k.diff /verif/seeded/benign/R-$p-r$k.diff
done
[ -f $wt/BENIGN/README.md ] && cp $wt/BENIGN/README.md /verif/seeded/benign/R-$p-README.md
git -C /repo worktree remove --force $wt 2>/dev/null; git -C /repo worktree prune
/verif/engine/benign_run.py R-$p- 2>&1 | cut -c1-1500
