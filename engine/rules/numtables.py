"""Decision tables of the numeric predicates (machine.py): the comparison of two numbers is a symbolic event whose outcome is
set per scenario, so the tables state which pairs an n-ary predicate compares, with which operator, in which order, and how
the outcomes combine — independent of macros, helper functions, loops or folds."""
from . import absint, machine, mir, registry
from .absint import Enum, UNKNOWN
from . import machine
from .machine import NOT, Machine, ok, err, some, none
from .mir import callee, callee_matches
from .evaltables import Tok, contains, find_enum

OPS = {"<": "lt", "<=": "le", ">": "gt", ">=": "ge", "=": "eq"}


def _num(fb, tag):
    vi = dict((n, i) for i, n in fb.variants("values::Value"))
    e = Enum(vi["Number"], [Tok("number", tag)])
    e.name = "Number"
    return e


def compare_table(fb, name, n_args=3):
    """rows: outcome vector of the adjacent comparisons -> (events, result)"""
    regs = {r["name"]: r for r in registry.read(fb)}
    if name not in regs or not regs[name]["target"]:
        return None
    f = fb.by_path(regs[name]["target"])
    rows = []
    for mask in range(1 << (n_args - 1)):
        outcome = [bool(mask >> i & 1) for i in range(n_args - 1)]
        args = [_num(fb, "N%d" % i) for i in range(n_args)]
        ev = []

        def icpt(mc, c, a, tt, g):
            end = c.rsplit("::", 1)[-1]
            if end in ("lt", "le", "gt", "ge", "eq", "ne", "partial_cmp", "cmp") and len(a) == 2 and \
                    all(isinstance(x, Tok) and x.kind == "number" for x in a):
                i, j = int(a[0].tag[1:]), int(a[1].tag[1:])
                ev.append((end, i, j))
                if end in ("partial_cmp", "cmp"):
                    return UNKNOWN
                if j == i + 1 and i < len(outcome):
                    return outcome[i] if end != "ne" else (not outcome[i])
                if i == j + 1 and j < len(outcome):
                    return UNKNOWN
                # a comparison of two arguments that are not neighbours: its outcome says nothing about the chain (numeric
                # comparison across exactness is not transitive); it is answered (true) so that the run shows what is done with it
                return True if end != "ne" else False
            return NOT
        mc = Machine(fb, intercept=icpt, max_visits=n_args + 3)
        try:
            res = mc.run(f, [list(args)])
        except (absint.Stuck, absint.Loop) as e:
            rows.append((outcome, {"stuck": str(e)}))
            continue
        rows.append((outcome, {"events": ev, "result": res}))
    return f, rows


def operand_type_table(fb, name):
    """the predicate on 0..3 operands of which one (at every position) is not a number, all comparisons before it holding: a type
    error, never an invented value; on 0 and 1 numbers: #t"""
    regs = {r["name"]: r for r in registry.read(fb)}
    if name not in regs or not regs[name]["target"]:
        return None
    f = fb.by_path(regs[name]["target"])
    vi = dict((n, i) for i, n in fb.variants("values::Value"))
    rows = []
    for k in range(0, 4):
        for bad in [None] + list(range(k)):
            if bad is None and k > 1:
                continue
            args = [_num(fb, "N%d" % i) for i in range(k)]
            for a_ in args:
                a_.adt = "values::Value"
            if bad is not None:
                nb = Enum(vi["Symbol"], ["not-a-number"])
                nb.name, nb.adt = "Symbol", "values::Value"
                args[bad] = nb

            def icpt(mc, c, a, tt, g):
                end = c.rsplit("::", 1)[-1]
                if end in ("lt", "le", "gt", "ge", "eq", "ne") and len(a) == 2 and all(isinstance(x, Tok) and x.kind == "number" for x in a):
                    return end != "ne"
                if end in ("partial_cmp", "cmp") and len(a) == 2 and all(isinstance(x, Tok) and x.kind == "number" for x in a):
                    return UNKNOWN
                return NOT
            mc = Machine(fb, intercept=icpt, max_visits=8)
            try:
                res = mc.run(f, [list(args)])
            except (absint.Stuck, absint.Loop) as e:
                rows.append(((k, bad), {"stuck": str(e)}))
                continue
            rows.append(((k, bad), {"result": res}))
    return f, rows


def rule_operand_types(ctx, rule):
    fb = ctx.fb()
    from .ctx import where_of
    decided = 0
    for name in OPS:
        t = operand_type_table(fb, name)
        if t is None:
            ctx.undecided(rule, name + "/operand-types", "the predicate %s is not registered as a builtin function" % name)
            continue
        f, rows = t
        bad_msg, n, und = None, 0, 0
        for (k, bad), d in rows:
            if "stuck" in d:
                und += 1
                continue
            n += 1
            res = d["result"]
            if bad is None:
                val = find_enum(res, "Boolean")
                good = getattr(res, "name", None) == "Ok" and bool(val) and val[0].fields and val[0].fields[0] is True
                want = "#t"
            else:
                good = getattr(res, "name", None) == "Err" and bool(find_enum(res, "TypeMisMatch"))
                want = "a type error"
            if not good and bad_msg is None:
                call = "(%s%s)" % (name, "".join(" 'x" if i == bad else " n%d" % i for i in range(k)))
                bad_msg = "%s yields %r, expected %s%s" % (call, res, want, "" if bad is None else " (an operand that is not a number, every comparison before it holding)")
        if not n:
            ctx.undecided(rule, name + "/operand-types", "cannot follow %s on operands of the wrong type" % f.name, where_of(f))
            continue
        decided += 1
        ctx.inst(rule, name + "/operand-types", {"rows": n, "not_followed": und})
        ctx.oblige(bad_msg is None)
        if bad_msg:
            ctx.report(rule, name + "/operand-types", bad_msg, where_of(f))
    return decided


def rule_compare(ctx, rule_op, rule_chain):
    fb = ctx.fb()
    from .ctx import where_of
    decided = 0
    for name, op in OPS.items():
        t = compare_table(fb, name)
        if t is None:
            ctx.undecided(rule_op, name, "the predicate %s is not registered as a builtin function" % name)
            continue
        f, rows = t
        for outcome, d in rows:
            key = "%s/outcomes=%s" % (name, "".join("T" if x else "F" for x in outcome))
            if "stuck" in d:
                ctx.undecided(rule_chain, key, "cannot follow %s (%s)" % (f.name, d["stuck"]), where_of(f))
                continue
            decided += 1
            ev, res = d["events"], d["result"]
            ops = sorted({e[0] for e in ev})
            pairs = [(e[1], e[2]) for e in ev]
            first_false = outcome.index(False) if False in outcome else None
            want_pairs_full = [(i, i + 1) for i in range(len(outcome))]
            want_pairs = want_pairs_full if first_false is None else want_pairs_full[:first_false + 1]
            val = find_enum(res, "Boolean")
            got = val[0].fields[0] if val and val[0].fields else None
            ctx.inst(rule_op, key, {"operators": ops, "pairs": pairs, "result": got})
            okop = ops == [op]
            ctx.oblige(okop)
            if not okop:
                ctx.report(rule_op, name, "%s compares with %s, expected %s" % (name, ops, op), where_of(f))
                continue
            okc = (pairs == want_pairs or pairs == want_pairs_full) and got is (first_false is None)
            ctx.oblige(okc)
            if not okc:
                ctx.report(rule_chain, key, "(%s N0 N1 N2) with adjacent outcomes %s compares the pairs %s and yields %s; expected the "
                           "adjacent pairs %s in order and %s" % (name, outcome, pairs, got, want_pairs, first_false is None), where_of(f))
    return decided


# ------------------------------------------------------------------------------------------------ ratio comparison


INT_HELPERS = {"div_euclid": ("DivE", 2), "rem_euclid": ("RemE", 2), "abs": ("Abs", 1), "signum": ("Signum", 1)}


def _ev(x, env):
    from .absint import Sym
    if isinstance(x, Sym):
        if not x.args:
            return env[x.op]
        if len(x.args) == 1:
            v = _ev(x.args[0], env)
            if v is None:
                return None
            if x.op == "Abs":
                return abs(v)
            if x.op == "Signum":
                return (v > 0) - (v < 0)
            return -v if x.op == "Neg" else None
        l, r = _ev(x.args[0], env), _ev(x.args[1], env)
        if l is None or r is None:
            return None
        if x.op in ("Div", "Rem", "DivE", "RemE"):
            if r == 0:
                return None
            q = abs(l) // abs(r) * (1 if (l < 0) == (r < 0) else -1)      # i32 division truncates towards zero
            if x.op in ("DivE", "RemE"):
                # i32::div_euclid / rem_euclid: the remainder is never negative
                m = l - r * q
                if m < 0:
                    q, m = (q - 1, m + r) if r > 0 else (q + 1, m - r)
                return q if x.op == "DivE" else m
            return q if x.op == "Div" else l - r * q
        return {"Mul": l * r, "Add": l + r, "Sub": l - r}.get(x.op)
    return x


def cross_table(fb):
    """Number::eq / partial_cmp / exact_eqv on two ratios a/b and c/d with symbolic components.  Boolean tests on symbolic values
    (shortcuts such as `b == d`) are explored both ways (schedules); each path ends in a decisive comparison.  A path is right
    if, for every assignment of small integers (numerators -2..2, denominators 1..3 — the denominator-sign invariant of C09)
    satisfying the path's tests, its decisive comparison orders its two sides as a*d orders against c*b.  The orderings of a
    handful of small integers are all that the comparison of two ratios can depend on."""
    from .absint import Sym
    import itertools
    nv = dict((n, i) for i, n in fb.variants("values::Number"))
    out = {}
    for path in ("<values::Number as std::cmp::PartialEq>::eq", "<values::Number as std::cmp::PartialOrd>::partial_cmp", "values::Number::exact_eqv"):
        f = fb.find(path)
        paths, seen = [], set()
        for schedule in itertools.product((True, False), repeat=3):
            a, b, c, d = Sym("a"), Sym("b"), Sym("c"), Sym("d")
            lhs = Enum(nv["Rational"], [a, b])
            lhs.name = "Rational"
            rhs = Enum(nv["Rational"], [c, d])
            rhs.name = "Rational"
            pc, dec, k = [], [], [0]

            def icpt(mc, cn, args, tt, g):
                end = cn.rsplit("::", 1)[-1]
                if end in ("partial_cmp", "cmp", "eq", "ne", "lt", "le", "gt", "ge") and len(args) == 2 and \
                        any(isinstance(x, Sym) for x in args):
                    if end in ("partial_cmp", "cmp"):
                        dec.append((end, args[0], args[1]))
                        return UNKNOWN
                    # is this boolean the function's answer (the decisive test of `eq`) or a shortcut test?  Shortcut tests are
                    # branched on; we cannot know yet, so follow the schedule and remember the test
                    i = k[0]
                    k[0] += 1
                    val = schedule[i] if i < len(schedule) else True
                    pc.append((end, args[0], args[1], val))
                    return val
                if end == "mul" and "ops::Mul" in cn and len(args) == 2 and any(isinstance(x, Sym) for x in args):
                    return Sym("Mul", args[0], args[1])
                return NOT
            def symcmp(op, x, y):
                i = k[0]
                k[0] += 1
                val = schedule[i] if i < len(schedule) else True
                pc.append((op, x, y, val))
                return val
            mc = Machine(fb, intercept=icpt, max_visits=3)
            absint.SYM_COMPARE = symcmp
            try:
                res = mc.run(f, [lhs, rhs])
            except absint.Stuck:
                res = "decisive-comparison-returned"
            except absint.Loop as e:
                absint.SYM_COMPARE = None
                paths.append({"stuck": str(e)})
                continue
            finally:
                absint.SYM_COMPARE = None
            sig = (tuple((p[0], repr(p[1]), repr(p[2]), p[3]) for p in pc), tuple((x[0], repr(x[1]), repr(x[2])) for x in dec), repr(res))
            if sig in seen:
                continue
            seen.add(sig)
            paths.append({"tests": pc, "decisive": dec, "result": res})
        out[path] = paths
    return out


def _const_ordering(res):
    """Some(Less/Equal/Greater) -> -1/0/1, None -> "none"; anything else: not a constant ordering"""
    if isinstance(res, Enum):
        n = getattr(res, "name", None)
        if n == "None" or (n is None and res.variant == 0 and not res.fields):
            return "none"
        if res.fields:
            o = res.fields[0]
            if isinstance(o, Enum):
                on = getattr(o, "name", None)
                if on in ("Less", "Equal", "Greater"):
                    return {"Less": -1, "Equal": 0, "Greater": 1}[on]
            if isinstance(o, int) and not isinstance(o, bool) and o in (-1, 0, 1, 255):
                return -1 if o == 255 else o
    return None


def _holds(op, l, r):
    return {"eq": l == r, "ne": l != r, "lt": l < r, "le": l <= r, "gt": l > r, "ge": l >= r}[op]


def rule_cross(ctx, rule):
    fb = ctx.fb()
    from .ctx import where_of
    import itertools
    decided = 0
    grid = [dict(a=a, b=b, c=c, d=d) for a, c in itertools.product(range(-2, 3), repeat=2) for b, d in itertools.product(range(1, 4), repeat=2)]
    for path, paths in cross_table(fb).items():
        f = fb.find(path)
        short = path.rsplit("::", 1)[-1]
        is_order = short == "partial_cmp"
        bad, n_ok, stuck = None, 0, 0
        for p in paths:
            if "stuck" in p:
                stuck += 1
                continue
            tests, dec, res = p["tests"], p["decisive"], p["result"]
            for env in grid:
                if is_order:
                    conds, final = tests, (dec[-1] if dec else None)
                else:
                    # for the equality functions the last boolean test IS the answer when the function returns it
                    conds, final = (tests[:-1], tests[-1]) if tests and isinstance(res, bool) and res == tests[-1][3] else (tests, None)
                if not all(_holds(t[0], _ev(t[1], env), _ev(t[2], env)) == t[3] for t in conds):
                    continue
                ad, cb = env["a"] * env["d"], env["c"] * env["b"]
                if is_order:
                    want = (ad > cb) - (ad < cb)
                    if final is None:
                        # no comparison of two values at the end: the path answers with a constant ordering (a sign shortcut);
                        # that constant must be the order of the ratios at every point the path's tests admit
                        const = _const_ordering(res)
                        if const is None:
                            unknown_const = True
                            continue
                        got = const
                        if got != want and bad is None:
                            bad = "for %d/%d against %d/%d (after the tests %s) the function answers %s without comparing, but the ratios are ordered %s" % (
                                env["a"], env["b"], env["c"], env["d"], [(t[0], repr(t[1]), repr(t[2]), t[3]) for t in conds],
                                {-1: "Less", 0: "Equal", 1: "Greater", "none": "None (incomparable)"}[got], want)
                        continue
                    l, r = _ev(final[1], env), _ev(final[2], env)
                    got = (l > r) - (l < r)
                else:
                    if final is not None:
                        got = _holds(final[0], _ev(final[1], env), _ev(final[2], env))
                    elif isinstance(res, bool):
                        got = res
                    else:
                        continue
                    want = ad == cb
                if got != want and bad is None:
                    bad = "for %d/%d against %d/%d (after the tests %s) the function compares %s and gets %s, but the ratios are ordered %s" % (
                        env["a"], env["b"], env["c"], env["d"], [(t[0], repr(t[1]), repr(t[2]), t[3]) for t in conds],
                        (final[0], repr(final[1]), repr(final[2])) if final else res, got, want)
            n_ok += 1
        if not n_ok:
            ctx.undecided(rule, short, "cannot follow the comparison of two ratios in %s" % short, where_of(f))
            continue
        decided += 1
        ctx.inst(rule, short, {"paths": n_ok, "undecided_paths": stuck})
        ctx.oblige(bad is None)
        if bad:
            ctx.report(rule, short + "/pairing", "%s on two ratios a/b, c/d is not the order of a*d against c*b: %s" % (short, bad), where_of(f))
    return decided


# ------------------------------------------------------------------------------------------------ max / min


def _base(t):
    """the original argument a (possibly promoted) number token stands for"""
    while isinstance(t, Tok) and t.kind == "promoted":
        side, pair = t.tag
        t = pair.tag[0] if side == "lhs" else pair.tag[1]
    return t


_SIDES = {"Integer": {"lhs": [0], "rhs": [1]}, "Real": {"lhs": [0], "rhs": [1]}, "Rational": {"lhs": [0, 1], "rhs": [2, 3]}}


def _normalise_promoted(fb, x):
    """Number::<K>(parts of one side of a promoted pair of kind K, in order) == that side of the pair (the placement of the
    payloads inside NumberBinaryOperand is what C09-contagion checks on upcast_oprands itself)"""
    if isinstance(x, Enum) and x.fields and all(isinstance(p, Tok) and p.kind == "part" for p in x.fields):
        pair, side, _ = x.fields[0].tag
        kind = pair.kindmode
        nv = {n: i for i, n in fb.variants("values::Number")}
        if x.variant == nv.get(kind) and [p.tag for p in x.fields] == [(pair, side, i) for i in _SIDES[kind][side]]:
            return Tok("promoted", (side, pair))
        raise Scrambled("a number is rebuilt from the promoted pair of kind %s as Number variant %s with payloads %s: that is neither "
                        "operand of the pair" % (kind, x.variant, [p.tag[1:] for p in x.fields]))
    return x


class Scrambled(Exception):
    pass


def _maxmin_run(fb, f, outcome, kindmode):
    args = [_num(fb, "N%d" % i) for i in range(3)]
    toks = [a.fields[0] for a in args]
    ev = []
    step = [0]
    vb = {n: i for i, n in fb.variants("values::NumberBinaryOperand")}

    def numlike(x):
        return isinstance(x, Tok) and x.kind in ("number", "promoted")

    def icpt(mc, c, a, tt, g):
        end = c.rsplit("::", 1)[-1]
        a_ = [_normalise_promoted(fb, x) for x in a]
        if end in ("lt", "le", "gt", "ge") and len(a_) == 2 and all(numlike(x) for x in a_):
            k = step[0]
            step[0] += 1
            ev.append((end, _base(a_[0]).tag, _base(a_[1]).tag, a_[0].kind, a_[1].kind))
            return outcome[k] if k < len(outcome) else UNKNOWN
        if c.endswith("values::upcast_oprands"):
            pr = a[0]
            if isinstance(pr, list) and len(pr) == 2:
                pr = [_normalise_promoted(fb, x) for x in pr]
            if isinstance(pr, list) and len(pr) == 2 and all(numlike(x) for x in pr):
                pair = Tok("pair", (pr[0], pr[1]))
                pair.kindmode = kindmode
                if kindmode is None:
                    return pair
                # the promoted pair as the enum it is, for one of its three kinds, with opaque payloads
                n = 4 if kindmode == "Rational" else 2
                side_of = {i: sd for sd, ix in _SIDES[kindmode].items() for i in ix}
                e = Enum(vb[kindmode], [Tok("part", (pair, side_of[i], i)) for i in range(n)])
                e.name = kindmode
                e.pair = pair
                return e
            return UNKNOWN
        if c.endswith("NumberBinaryOperand::lhs") or c.endswith("NumberBinaryOperand::rhs"):
            x = a[0]
            if isinstance(x, Enum) and getattr(x, "pair", None) is not None:
                x = x.pair
            if isinstance(x, Tok) and x.kind == "pair":
                return Tok("promoted", (end, x))
            return UNKNOWN
        return NOT
    mc = Machine(fb, intercept=icpt, max_visits=6)
    res = mc.run(f, [list(args)])
    return {"events": ev, "result": res, "toks": toks}


def _maxmin_value_run(fb, f, values, kindmode):
    """like _maxmin_run, but every comparison of two of the three opaque numbers — `<` `<=` `>` `>=` or `partial_cmp`, in whatever
    order and between whichever operands the code asks — is answered from the numeric values assigned to them (ties included)"""
    args = [_num(fb, "N%d" % i) for i in range(3)]
    toks = [a.fields[0] for a in args]
    vb = {n: i for i, n in fb.variants("values::NumberBinaryOperand")}
    ev = []

    def numlike(x):
        return isinstance(x, Tok) and x.kind in ("number", "promoted")

    def val(x):
        return values[int(str(_base(x).tag)[1:])]

    def icpt(mc, c, a, tt, g):
        end = c.rsplit("::", 1)[-1]
        a_ = [_normalise_promoted(fb, x) for x in a]
        if end in ("lt", "le", "gt", "ge", "partial_cmp", "eq", "ne") and len(a_) == 2 and all(numlike(x) for x in a_):
            l, r = val(a_[0]), val(a_[1])
            ev.append((end, _base(a_[0]).tag, _base(a_[1]).tag))
            if end == "partial_cmp":
                o_ = Enum((l > r) - (l < r), [])          # std::cmp::Ordering: Less = -1, Equal = 0, Greater = 1
                o_.name, o_.adt = {-1: "Less", 0: "Equal", 1: "Greater"}[o_.variant], "std::cmp::Ordering"
                return some(o_)
            return {"lt": l < r, "le": l <= r, "gt": l > r, "ge": l >= r, "eq": l == r, "ne": l != r}[end]
        if c.endswith("values::upcast_oprands"):
            pr = a[0]
            if isinstance(pr, list) and len(pr) == 2:
                pr = [_normalise_promoted(fb, x) for x in pr]
            if isinstance(pr, list) and len(pr) == 2 and all(numlike(x) for x in pr):
                pair = Tok("pair", (pr[0], pr[1]))
                pair.kindmode = kindmode
                if kindmode is None:
                    return pair
                n = 4 if kindmode == "Rational" else 2
                side_of = {i: sd for sd, ix in _SIDES[kindmode].items() for i in ix}
                e = Enum(vb[kindmode], [Tok("part", (pair, side_of[i], i)) for i in range(n)])
                e.name = kindmode
                e.pair = pair
                return e
            return UNKNOWN
        if c.endswith("NumberBinaryOperand::lhs") or c.endswith("NumberBinaryOperand::rhs"):
            x = a[0]
            if isinstance(x, Enum) and getattr(x, "pair", None) is not None:
                x = x.pair
            if isinstance(x, Tok) and x.kind == "pair":
                return Tok("promoted", (end, x))
            return UNKNOWN
        return NOT
    mc = Machine(fb, intercept=icpt, max_visits=6)
    res = mc.run(f, [list(args)])
    return {"events": ev, "result": res, "toks": toks}


def rule_maxmin_values(ctx, rule_op, rule_contagion):
    """(max N0 N1 N2) / (min ..) with the three opaque numbers given the values 0, v1, v2 for v1, v2 in {-1, 0, 1} (ties in every
    position): whatever comparisons the code makes are answered from the values; the result is a numerically extreme operand, and
    it is the operand as promoted together with the others — never one as it came in (an exact number that ties with an inexact one)"""
    fb = ctx.fb()
    from .ctx import where_of
    import itertools
    regs = {r["name"]: r for r in registry.read(fb)}
    decided = 0
    for name in ("max", "min"):
        if name not in regs or not regs[name]["target"]:
            continue
        f = fb.by_path(regs[name]["target"])
        for v1, v2 in itertools.product((-1, 0, 1), repeat=2):
            values = [0, v1, v2]
            key = "%s/values=0,%d,%d" % (name, v1, v2)
            d = None
            for kind in (None, "Integer", "Rational", "Real"):
                try:
                    d = _maxmin_value_run(fb, f, values, kind)
                    break
                except (absint.Stuck, absint.Loop, Scrambled) as e:
                    why = str(e)
            if d is None:
                ctx.undecided(rule_op, key, "cannot follow %s (%s)" % (f.name, why[:200]), where_of(f))
                continue
            nums = find_enum(d["result"], "Number")
            got = nums[0].fields[0] if nums and nums[0].fields else None
            got = _normalise_promoted(fb, got)
            if not isinstance(got, Tok) or got.kind not in ("number", "promoted"):
                ctx.undecided(rule_op, key, "the result of %s is not one of its operands (%r)" % (name, got), where_of(f))
                continue
            decided += 1
            ext = max(values) if name == "max" else min(values)
            gv = values[int(str(_base(got).tag)[1:])]
            ctx.inst(rule_op, key, {"result": repr(got), "comparisons": [list(e) for e in d["events"]]})
            ctx.oblige(gv == ext)
            if gv != ext:
                ctx.report(rule_op, key, "(%s N0 N1 N2) with N0 = 0, N1 = %d, N2 = %d returns %r (value %d), expected an operand of value %d" % (
                    name, v1, v2, got, gv, ext), where_of(f))
            prom = got.kind == "promoted"
            ctx.inst(rule_contagion, key, {"result_is_promoted": prom})
            ctx.oblige(prom)
            if not prom:
                ctx.report(rule_contagion, key, "(%s N0 N1 N2) with N0 = 0, N1 = %d, N2 = %d returns an operand as it came in (%r), not the one "
                           "promoted together with the operand it was compared with: when that operand is exact and ties with an inexact "
                           "one — (%s 2 2.0) — the result stays exact" % (name, v1, v2, got, name), where_of(f))
    return decided


def maxmin_table(fb, name):
    regs = {r["name"]: r for r in registry.read(fb)}
    if name not in regs or not regs[name]["target"]:
        return None
    f = fb.by_path(regs[name]["target"])
    rows = []
    for mask in range(4):
        outcome = [bool(mask & 1), bool(mask & 2)]
        try:
            rows.append((outcome, None, _maxmin_run(fb, f, outcome, None)))
            continue
        except (absint.Stuck, absint.Loop) as e:
            first = str(e)
        # the function looks inside the promoted pair: one run per kind of pair
        for kind in ("Integer", "Rational", "Real"):
            try:
                rows.append((outcome, kind, _maxmin_run(fb, f, outcome, kind)))
            except (absint.Stuck, absint.Loop) as e:
                rows.append((outcome, kind, {"stuck": "%s; with the promoted pair of kind %s: %s" % (first, kind, e)}))
            except Scrambled as e:
                rows.append((outcome, kind, {"wrong": str(e)}))
    return f, rows


def rule_maxmin(ctx, rule_op, rule_contagion):
    fb = ctx.fb()
    from .ctx import where_of
    decided = 0
    for name, op in (("max", "gt"), ("min", "lt")):
        t = maxmin_table(fb, name)
        if t is None:
            ctx.undecided(rule_op, name, "%s is not registered as a builtin function" % name)
            continue
        f, rows = t
        for outcome, kind, d in rows:
            key = "%s/outcomes=%s%s" % (name, "".join("T" if x else "F" for x in outcome), "/promoted-kind=" + kind if kind else "")
            if "stuck" in d:
                ctx.undecided(rule_op, key, "cannot follow %s (%s)" % (f.name, d["stuck"]), where_of(f))
                continue
            if "wrong" in d:
                decided += 1
                ctx.report(rule_op, name + "/promoted-operand", "%s: %s" % (name, d["wrong"]), where_of(f))
                continue
            decided += 1
            ev, res = d["events"], d["result"]
            w = 0
            okop = True
            for k, e in enumerate(ev[:2]):
                cur = k + 1
                direct = e[0] == op and e[1] == "N%d" % w and e[2] == "N%d" % cur
                swapped = e[0] == {"gt": "lt", "lt": "gt"}[op] and e[1] == "N%d" % cur and e[2] == "N%d" % w
                if not (direct or swapped):
                    okop = False
                    break
                w = w if outcome[k] else cur
            nums = find_enum(res, "Number")
            got = nums[0].fields[0] if nums and nums[0].fields else None
            got = _normalise_promoted(fb, got)
            ctx.inst(rule_op, key, {"comparisons": [list(e[:3]) for e in ev], "result": repr(got)})
            ctx.oblige(okop)
            if not okop or len(ev) != 2:
                ctx.report(rule_op, name + "/operator", "%s compares %s; expected each argument compared with the running result by `%s` "
                           "(running result first)" % (name, [e[:3] for e in ev], {"gt": ">", "lt": "<"}[op]), where_of(f))
                continue
            sel = isinstance(got, Tok) and _base(got) is d["toks"][w]
            ctx.oblige(sel)
            if not sel:
                ctx.report(rule_op, key, "(%s N0 N1 N2) with comparison outcomes %s returns %r, expected N%d" % (name, outcome, got, w), where_of(f))
            prom = isinstance(got, Tok) and got.kind == "promoted"
            ctx.inst(rule_contagion, key, {"result_is_promoted": prom})
            ctx.oblige(prom)
            if not prom:
                ctx.report(rule_contagion, key, "%s returns an operand as it came in (%r), not the one promoted together with the other "
                           "operand: (max 1 2.0) would be exact" % (name, got), where_of(f))
    return decided


# ------------------------------------------------------------------------------------------------ floor / ceiling of a ratio


def rounding_table(fb, fname):
    """Number::floor / Number::ceiling on the ratio a/b with symbolic components: every test on a symbolic value is explored both
    ways; each path ends in Number::Integer(expression over a, b built from i32 + - * / %)."""
    from .absint import Sym
    import itertools
    nv = dict((n, i) for i, n in fb.variants("values::Number"))
    f = fb.find("values::Number::" + fname)
    paths, seen = [], set()
    for schedule in itertools.product((True, False), repeat=7):
        a, b = Sym("a"), Sym("b")
        arg = Enum(nv["Rational"], [a, b])
        arg.name = "Rational"
        pc, k = [], [0]

        def symcmp(op, x, y):
            i = k[0]
            k[0] += 1
            val = schedule[i] if i < len(schedule) else True
            pc.append((op, x, y, val))
            return val

        def icpt(mc, cn, args, tt, g):
            end = cn.rsplit("::", 1)[-1]
            if any(isinstance(x, Sym) for x in args):
                if end in ("eq", "ne", "lt", "le", "gt", "ge") and len(args) == 2:
                    return symcmp(end, args[0], args[1])
                ops = {"mul": "Mul", "add": "Add", "sub": "Sub", "div": "Div", "rem": "Rem", "neg": "Neg", "div_euclid": None, "rem_euclid": None}
                if end in ops and "ops::" in cn and ops[end]:
                    return Sym(ops[end], *args)
            return NOT
        mc = Machine(fb, intercept=icpt, max_visits=3)
        absint.SYM_COMPARE = symcmp
        try:
            res = mc.run(f, [arg])
        except (absint.Stuck, absint.Loop) as e:
            paths.append({"stuck": str(e)})
            continue
        finally:
            absint.SYM_COMPARE = None
        sig = (tuple((p_[0], repr(p_[1]), repr(p_[2]), p_[3]) for p_ in pc), repr(res))
        if sig in seen:
            continue
        seen.add(sig)
        paths.append({"tests": pc, "result": res})
    return f, paths


def rule_rounding(ctx, rule):
    """floor(a/b) is the greatest integer not above a/b, ceiling(a/b) the least not below, for every exact ratio with a positive
    denominator (C09-denominator-sign): whether truncating division has to be corrected depends only on the sign of a and on
    whether b divides a, so the grid a in -7..7, b in 1..4 contains every case a formula built from + - * / % and comparisons
    with small constants can distinguish."""
    fb = ctx.fb()
    from .ctx import where_of
    from .absint import Sym
    nv = dict((n, i) for i, n in fb.variants("values::Number"))
    decided = 0
    for fname in ("floor", "ceiling"):
        try:
            f, paths = rounding_table(fb, fname)
        except mir.AnchorMissing as e:
            ctx.undecided(rule, fname, str(e))
            continue
        good = [p for p in paths if "stuck" not in p]
        if not good or any("stuck" in p for p in paths):
            ctx.undecided(rule, fname, "cannot follow Number::%s on a symbolic ratio (%s)" % (fname, next((p["stuck"] for p in paths if "stuck" in p), "no path")), where_of(f))
            continue
        decided += 1
        bad = None
        cases = 0
        for a in range(-7, 8):
            for b in range(1, 5):
                env = {"a": a, "b": b}
                want = a // b if fname == "floor" else -((-a) // b)
                hit = [p for p in good if all(_ev(t[1], env) is not None and _ev(t[2], env) is not None and
                                              _holds(t[0], _ev(t[1], env), _ev(t[2], env)) == t[3] for t in p["tests"])]
                for p in hit[:1]:
                    cases += 1
                    res = p["result"]
                    val = res.fields[0] if isinstance(res, Enum) and res.variant == nv["Integer"] and res.fields else None
                    got = _ev(val, env) if isinstance(val, (Sym, int)) else None
                    if got != want and bad is None:
                        bad = "(%s %d/%d): after the tests %s the function returns %s = %s, the %s is %d" % (
                            fname, a, b, [(t[0], repr(t[1]), repr(t[2]), t[3]) for t in p["tests"]], repr(val), got,
                            "greatest integer not above it" if fname == "floor" else "least integer not below it", want)
                if not hit and bad is None:
                    bad = "(%s %d/%d): no path of the function accepts this ratio" % (fname, a, b)
        ctx.inst(rule, fname + "/ratio", {"paths": len(good), "grid_cases": cases})
        ctx.oblige(bad is None)
        if bad:
            ctx.report(rule, fname + "/ratio", "Number::%s on an exact ratio a/b (b > 0) is wrong: %s" % (fname, bad), where_of(f))
    return decided


# ------------------------------------------------------------------------------------------------ n-ary + - * /


def fold_table(fb, name, n):
    """the builtin `name` applied to n opaque numbers: the tree of binary Number operations that produces the result"""
    regs = {r["name"]: r for r in registry.read(fb)}
    if name not in regs or not regs[name]["target"]:
        return None
    f = fb.by_path(regs[name]["target"])
    nv = dict((nm, i) for i, nm in fb.variants("values::Number"))
    args = [_num(fb, "N%d" % i) for i in range(n)]
    k = [0]

    def expr(x):
        if isinstance(x, Tok) and x.kind == "number":
            return x.tag if not isinstance(x.tag, tuple) else x.tag[1]
        if isinstance(x, Enum) and x.variant == nv["Integer"] and x.fields and isinstance(x.fields[0], int):
            return str(x.fields[0])
        return None

    def icpt(mc, c, a, tt, g):
        end = c.rsplit("::", 1)[-1]
        if end in ("add", "sub", "mul", "div") and "std::ops::" in c and len(a) == 2:
            l, r = expr(a[0]), expr(a[1])
            if l is None or r is None:
                return UNKNOWN
            k[0] += 1
            t = Tok("number", ("R%d" % k[0], "(%s %s %s)" % ({"add": "+", "sub": "-", "mul": "*", "div": "/"}[end], l, r)))
            return ok(t) if end == "div" else t
        return NOT
    mc = Machine(fb, intercept=icpt, max_visits=8)
    res = mc.run(f, [list(args)])
    nums = find_enum(res, "Number")
    got = nums[0].fields[0] if nums and nums[0].fields else None
    if got is None and isinstance(res, Enum) and getattr(res, "name", None) == "Ok":
        # Value::Number built by the function itself (no name on the abstract value)
        inner = res.fields[0]
        got = inner.fields[0] if isinstance(inner, Enum) and inner.fields else None
    return f, expr(got), res


def _fold_expected(name, n):
    ns = ["N%d" % i for i in range(n)]

    def left(op, items):
        acc = items[0]
        for x in items[1:]:
            acc = "(%s %s %s)" % (op, acc, x)
        return acc
    if name in ("+", "*"):
        ident = "0" if name == "+" else "1"
        out = {left(name, [ident] + ns)}
        if ns:
            out.add(left(name, ns))
        return out
    ident = "0" if name == "-" else "1"
    if n == 1:
        return {"(%s %s N0)" % (name, ident)}
    return {left(name, ns)}


def rule_folds(ctx, rule):
    """(+ a b c d) = ((a+b)+c)+d, (- a b c d) = ((a-b)-c)-d ...: with an inexact operand every step rounds, so the association is
    part of the result; (- a) = 0 - a, (/ a) = 1 / a"""
    fb = ctx.fb()
    from .ctx import where_of
    decided = 0
    for name in ("+", "-", "*", "/"):
        bad = None
        f = None
        for n in range(0 if name in "+*" else 1, 5):
            try:
                t = fold_table(fb, name, n)
            except (absint.Stuck, absint.Loop) as e:
                ctx.undecided(rule, "%s/%d-operands" % (name, n), "cannot follow the builtin %s on %d opaque numbers (%s)" % (name, n, e))
                continue
            if t is None:
                ctx.undecided(rule, name, "%s is not registered as a builtin function" % name)
                break
            f, got, res = t
            if got is None:
                ctx.undecided(rule, "%s/%d-operands" % (name, n), "the result of (%s ...) on %d opaque numbers is not a tree of the binary "
                              "operations (%r)" % (name, n, res), where_of(f))
                continue
            decided += 1
            want = _fold_expected(name, n)
            ctx.inst(rule, "%s/%d-operands" % (name, n), {"computes": got})
            ctx.oblige(got in want)
            if got not in want and bad is None:
                bad = "(%s %s) is computed as %s, expected %s: with an inexact operand the roundings of the steps differ" % (
                    name, " ".join("N%d" % i for i in range(n)), got, " or ".join(sorted(want)))
        if bad:
            ctx.report(rule, name + "/fold", bad, where_of(f) if f else None)
    return decided


# ------------------------------------------------------------------------------------------------ floor-quotient / floor-remainder


def floorq_table(fb, name):
    """Number::floor_quotient / floor_remainder on two opaque numbers: the tree of Number operations (+ - * / floor) that produces
    the result"""
    f = fb.find("values::Number::" + name)
    a, b = Tok("number", "N"), Tok("number", "D")
    k = [0]

    def expr(x):
        if isinstance(x, Tok) and x.kind == "number":
            return x.tag if not isinstance(x.tag, tuple) else x.tag[1]
        return None

    def icpt(mc, c, args, tt, g):
        end = c.rsplit("::", 1)[-1]
        if c == f.name:
            return NOT
        if end in ("add", "sub", "mul", "div") and "std::ops::" in c and len(args) == 2:
            l, r = expr(args[0]), expr(args[1])
            if l is None or r is None:
                return UNKNOWN
            k[0] += 1
            t = Tok("number", ("R%d" % k[0], "(%s %s %s)" % ({"add": "+", "sub": "-", "mul": "*", "div": "/"}[end], l, r)))
            return ok(t) if end == "div" else t
        if c.endswith("Number::floor") or c.endswith("Number::<R>::floor"):
            e = expr(args[0])
            if e is None:
                return UNKNOWN
            k[0] += 1
            return Tok("number", ("R%d" % k[0], "(floor %s)" % e))
        return NOT
    mc = Machine(fb, intercept=icpt, max_visits=6)
    res = mc.run(f, [a, b])
    got = None
    if isinstance(res, Enum) and getattr(res, "name", None) == "Ok" and res.fields:
        got = expr(res.fields[0])
    elif isinstance(res, Tok):
        got = expr(res)
    return f, got, res


def rule_floorq(ctx, rule):
    fb = ctx.fb()
    from .ctx import where_of
    want = {"floor_quotient": {"(floor (/ N D))"},
            "floor_remainder": {"(- N (* (floor (/ N D)) D))", "(- N (* D (floor (/ N D))))"}}
    decided = 0
    for name in ("floor_quotient", "floor_remainder"):
        try:
            f, got, res = floorq_table(fb, name)
        except (absint.Stuck, absint.Loop, mir.AnchorMissing) as e:
            ctx.undecided(rule, name + "/formula", "cannot follow Number::%s (%s)" % (name, e))
            continue
        if got is None:
            ctx.undecided(rule, name + "/formula", "the result of Number::%s is not a tree of Number operations (%r)" % (name, res), where_of(f))
            continue
        decided += 1
        ctx.inst(rule, name + "/formula", {"computes": got})
        ctx.oblige(got in want[name])
        if got not in want[name]:
            ctx.report(rule, name + "/formula", "Number::%s(N, D) computes %s, expected %s" % (name, got, " or ".join(sorted(want[name]))), where_of(f))
    return decided


# ------------------------------------------------------------------------------------------------ division: zero guards


def zero_guard_table(fb, fname="<values::Number as std::ops::Div>::div"):
    """Number / Number on every pair of exact kinds with symbolic components.  Every test of a symbolic value is explored both ways;
    the compiler's own `divide by zero` / `remainder by zero` assertions are the obligations: on every path that reaches one, the
    tests passed so far must exclude a zero divisor.  Returns [(kinds, divisor expression, conditions, kind of assertion)]."""
    from .absint import Sym
    import itertools
    nv = dict((n, i) for i, n in fb.variants("values::Number"))
    f = fb.find(fname)
    obligations, problems = [], []
    seen = set()
    for ka, kb in itertools.product(("Integer", "Rational"), repeat=2):
        for schedule in itertools.product((True, False), repeat=6):
            names = iter("abcd")
            def mknum(kind):
                if kind == "Integer":
                    e = Enum(nv["Integer"], [Sym(next(names))])
                else:
                    e = Enum(nv["Rational"], [Sym(next(names)), Sym(next(names))])
                e.name = kind
                return e
            A, B = mknum(ka), mknum(kb)
            dens = set()
            for e in (A, B):
                if e.name == "Rational":
                    dens.add(e.fields[1].op)
            pc, k = [], [0]

            def symcmp(op, x, y, pc=pc, k=k, schedule=schedule):
                cf, cb = absint.CUR_F[0], absint.CUR_B[0]
                term = cf.blocks[cb]["term"] if cf is not None and cb is not None else {}
                if term.get("k") == "assert" and term.get("kind") in ("DivisionByZero", "RemainderByZero") and op == "eq" and absint.in_assert_condition():
                    obligations.append(((ka, kb), x if isinstance(x, Sym) else y, list(pc), term["kind"], frozenset(dens), cf.name))
                    return bool(term.get("expected"))             # go on as the program does when the assertion holds
                if term.get("k") == "assert" and absint.in_assert_condition():
                    return bool(term.get("expected"))             # overflow assertions: not this table's subject
                i = k[0]
                k[0] += 1
                val = schedule[i] if i < len(schedule) else True
                pc.append((op, x, y, val))
                return val
            mc = Machine(fb, max_visits=4, budget=400)
            absint.SYM_COMPARE = symcmp
            try:
                mc.run(f, [A, B])
            except absint.Stuck as e:
                sig = ("stuck", ka, kb, str(e))
                if sig not in seen:
                    seen.add(sig)
                    problems.append("%s / %s: %s" % (ka, kb, e))
            except absint.Loop as e:
                problems.append("%s / %s: %s" % (ka, kb, e))
            finally:
                absint.SYM_COMPARE = None
    return f, obligations, problems


def rule_zero_guards(ctx, rule):
    fb = ctx.fb()
    from .ctx import where_of
    import itertools
    try:
        f, obl, problems = zero_guard_table(fb)
    except mir.AnchorMissing as e:
        ctx.undecided(rule, "div/zero-guards", str(e))
        return None
    if problems and not obl:
        ctx.undecided(rule, "div/zero-guards", "cannot follow the division on symbolic operands (%s)" % problems[0], where_of(f))
        return None
    bad = None
    checked = set()
    for kinds, divisor, conds, akind, dens, fn in obl:
        sig = (kinds, repr(divisor), tuple((c[0], repr(c[1]), repr(c[2]), c[3]) for c in conds), akind)
        if sig in checked:
            continue
        checked.add(sig)
        syms = sorted({x for c in conds for t in (c[1], c[2]) for x in _syms(t)} | set(_syms(divisor)))
        ranges = [range(1, 4) if sname in dens else range(-2, 3) for sname in syms]
        for vals in itertools.product(*ranges):
            env = dict(zip(syms, vals))
            try:
                if not all(_holds(c[0], _ev(c[1], env), _ev(c[2], env)) == c[3] for c in conds):
                    continue
                dv = _ev(divisor, env)
            except TypeError:
                continue
            if dv == 0 and bad is None:
                bad = "%s / %s: the i32 %s by %s is reached with the divisor 0 for %s (tests passed on the way: %s)" % (
                    kinds[0], kinds[1], "division" if akind == "DivisionByZero" else "remainder", repr(divisor), env,
                    [(c[0], repr(c[1]), repr(c[2]), c[3]) for c in conds])
    ctx.inst(rule, "div/zero-guards", {"assertions_reached": len(checked), "unfollowed": len(problems)})
    ctx.oblige(bad is None)
    if bad:
        ctx.report(rule, "div/zero-guards", "exact division can divide by zero (a panic instead of the division-by-zero error): " + bad, where_of(f))
        return False
    return True if checked and not problems else None


def _syms(x):
    from .absint import Sym
    if isinstance(x, Sym):
        if not x.args:
            return [x.op]
        out = []
        for a in x.args:
            out += _syms(a)
        return out
    return []


# ------------------------------------------------------------------------------------------------ exact + - * / on the grid


def exact_arith_table(fb, fname, n_tests=7):
    """`fname` (a binary Number operation) on every pair of exact kinds with symbolic components; every test explored both ways.
    Returns {(ka, kb): [path]} with path = {"conds": [...], "result": abstract value} or {"stuck": why}."""
    from .absint import Sym
    import itertools
    nv = dict((n, i) for i, n in fb.variants("values::Number"))
    f = fb.find(fname)
    out = {}
    for ka, kb in itertools.product(("Integer", "Rational"), repeat=2):
        paths, seen = [], set()
        for schedule in itertools.product((True, False), repeat=n_tests):
            names = iter("abcd")

            def mknum(kind):
                e = Enum(nv["Integer"], [Sym(next(names))]) if kind == "Integer" else Enum(nv["Rational"], [Sym(next(names)), Sym(next(names))])
                e.name = kind
                return e
            A, B = mknum(ka), mknum(kb)
            pc, k = [], [0]

            def symcmp(op, x, y, pc=pc, k=k, schedule=schedule):
                cf, cb = absint.CUR_F[0], absint.CUR_B[0]
                term = cf.blocks[cb]["term"] if cf is not None and cb is not None else {}
                if term.get("k") == "assert" and absint.in_assert_condition():
                    return bool(term.get("expected"))
                i = k[0]
                k[0] += 1
                if i >= len(schedule):
                    raise absint.Stuck("more than %d tests on symbolic values on one path" % len(schedule))
                pc.append((op, x, y, schedule[i]))
                return schedule[i]
            def icpt(mc_, cn, args, tt, g):
                # integer helpers of std on symbolic integers: kept as terms, evaluated at the grid points (_ev)
                end = cn.rsplit("::", 1)[-1]
                if "core::num::<impl i32>::" in cn and end in INT_HELPERS and len(args) == INT_HELPERS[end][1] and \
                        any(isinstance(x, Sym) for x in args) and all(isinstance(x, (Sym, int)) and not isinstance(x, bool) for x in args):
                    return Sym(INT_HELPERS[end][0], *args)
                return NOT
            mc = Machine(fb, intercept=icpt, max_visits=4, budget=400)
            absint.SYM_COMPARE = symcmp
            try:
                res = mc.run(f, [A, B])
            except (absint.Stuck, absint.Loop) as e:
                sig = ("stuck", str(e))
                if sig not in seen:
                    seen.add(sig)
                    paths.append({"stuck": str(e)})
                continue
            finally:
                absint.SYM_COMPARE = None
            if k[0] < len(schedule) and any(schedule[k[0]:]):
                continue                                   # the unused tail of the schedule: one representative is enough
            sig = (tuple((c[0], repr(c[1]), repr(c[2]), c[3]) for c in pc), repr(res))
            if sig in seen:
                continue
            seen.add(sig)
            paths.append({"conds": list(pc), "result": res, "dens": [e.fields[1].op for e in (A, B) if e.name == "Rational"]})
        out[(ka, kb)] = paths
    return f, out


NAMES = {"+": "add", "-": "sub", "*": "mul", "/": "div"}


def rule_exact_arith(ctx, rule, ops):
    """ops: {'+': fname, ...}.  On the grid numerators -2..2 / denominators 1..3 every path's result is the exact result: an exact
    number of the right value with a positive denominator; division by an exact zero is an error and nothing else is."""
    fb = ctx.fb()
    from .ctx import where_of
    from fractions import Fraction
    from .absint import Sym
    import itertools
    nv = dict((n, i) for i, n in fb.variants("values::Number"))
    decided = 0
    for opn, fname in ops.items():
        try:
            f, table = exact_arith_table(fb, fname)
        except mir.AnchorMissing as e:
            ctx.undecided(rule, opn, str(e))
            continue
        bad = None
        stuck = 0
        rows = 0
        for (ka, kb), paths in table.items():
            good = [p for p in paths if "stuck" not in p]
            stuck += len(paths) - len(good)
            if not good:
                continue
            syms = ["a"] + (["b"] if ka == "Rational" else [])
            syms += [chr(ord(syms[-1]) + 1)] + ([chr(ord(syms[-1]) + 2)] if kb == "Rational" else [])
            dens = set(good[0]["dens"])
            for vals in itertools.product(*[range(1, 4) if s_ in dens else range(-2, 3) for s_ in syms]):
                env = dict(zip(syms, vals))
                x = Fraction(env["a"], env["b"]) if ka == "Rational" else Fraction(env["a"])
                rest = syms[2:] if ka == "Rational" else syms[1:]
                y = Fraction(env[rest[0]], env[rest[1]]) if kb == "Rational" else Fraction(env[rest[0]])
                import math
                want = "error" if (opn in ("/", "floor-quotient", "floor-remainder") and y == 0) else {
                    "+": lambda: x + y, "-": lambda: x - y, "*": lambda: x * y, "/": lambda: x / y,
                    "floor-quotient": lambda: Fraction(math.floor(x / y)),
                    "floor-remainder": lambda: x - math.floor(x / y) * y}[opn]()
                hit = []
                for p in good:
                    try:
                        if all(_holds(c[0], _ev(c[1], env), _ev(c[2], env)) == c[3] for c in p["conds"]):
                            hit.append(p)
                    except TypeError:
                        pass
                if not hit:
                    continue                                   # the paths that cover it were not followed: undecided for this point
                rows += 1
                res = hit[0]["result"]
                got = None
                val = res
                if isinstance(res, Enum) and getattr(res, "name", None) in ("Ok", "Err"):
                    got = "error" if res.name == "Err" else None
                    val = res.fields[0] if res.fields else None
                if got is None and isinstance(val, Enum):
                    comps = [_ev(c_, env) if isinstance(c_, (Sym, int)) else None for c_ in val.fields]
                    if val.variant == nv["Integer"] and len(comps) == 1 and comps[0] is not None:
                        got = Fraction(comps[0])
                    elif val.variant == nv["Rational"] and len(comps) == 2 and None not in comps:
                        got = ("nonpositive-denominator", comps) if comps[1] <= 0 else Fraction(comps[0], comps[1])
                    elif val.variant == nv.get("Real"):
                        got = "inexact"
                if got is None:
                    # the value returned on this path is not one the table can read (an unknown from a construct without a model)
                    rows -= 1
                    stuck += 1
                    continue
                if got != want and bad is None:
                    def lit(k_, r):
                        return ("%d/%d" % (env[r[0]], env[r[1]])) if k_ == "Rational" else str(env[r[0]])
                    bad = "(%s %s %s) gives %s, the exact result is %s (tests on the way: %s)" % (
                        opn, lit(ka, syms), lit(kb, rest), got, want, [(c[0], repr(c[1]), repr(c[2]), c[3]) for c in hit[0]["conds"]])
        if rows:
            decided += 1
        ctx.inst(rule, NAMES.get(opn, opn) + "/grid", {"points": rows, "paths_not_followed": stuck})
        if stuck and not rows:
            ctx.undecided(rule, NAMES.get(opn, opn) + "/grid", "cannot follow %s on symbolic exact operands" % fname, where_of(f))
        ctx.oblige(bad is None)
        if bad:
            ctx.report(rule, NAMES.get(opn, opn) + "/grid", "exact arithmetic is not exact: " + bad, where_of(f))
    return decided


# ------------------------------------------------------------------------------------------------ = / order on every pair of kinds

REALS = [float("-inf"), -1.5, -1.0, -0.0, 0.0, 0.5, 1.0, 2.0, float("inf"), float("nan")]


def _f32(v):
    import struct
    try:
        return struct.unpack("f", struct.pack("f", float(v)))[0]
    except OverflowError:
        return float("inf") if v > 0 else float("-inf")


def _evf(x, env):
    """value of a symbolic integer / real expression at a grid point (None: not evaluable)"""
    import math
    from .absint import Sym
    if isinstance(x, Sym):
        if not x.args:
            return env.get(x.op)
        vs = [_evf(a_, env) for a_ in x.args]
        if any(v is None for v in vs):
            return None
        if x.op == "ToReal":
            return _f32(vs[0])
        if x.op == "FNeg":
            return -vs[0]
        if x.op == "FAbs":
            return abs(vs[0])
        if x.op in ("FFloor", "FCeil", "FTrunc", "FRound"):
            v0 = float(vs[0])
            if v0 != v0 or v0 in (float("inf"), float("-inf")) or v0 == 0:
                return v0
            return _f32({"FFloor": math.floor, "FCeil": math.ceil, "FTrunc": math.trunc,
                         "FRound": lambda q: math.copysign(math.floor(abs(q) + 0.5), q)}[x.op](v0))
        if x.op == "ToI32":
            v0 = float(vs[0])
            return None if (v0 != v0 or v0 in (float("inf"), float("-inf"))) else int(math.trunc(v0))
        if x.op in ("FDiv", "FMul", "FAdd", "FSub"):
            l, r = float(vs[0]), float(vs[1])
            try:
                return _f32({"FDiv": lambda: l / r, "FMul": lambda: l * r, "FAdd": lambda: l + r, "FSub": lambda: l - r}[x.op]())
            except ZeroDivisionError:
                if l != l or l == 0:
                    return float("nan")
                return math.copysign(float("inf"), l) * math.copysign(1.0, r)
        return _ev(x, env)
    return x


def _test_holds(t, env):
    import math
    op, l, r = t[0], _evf(t[1], env), (_evf(t[2], env) if t[2] is not None else None)
    if l is None or (t[2] is not None and r is None):
        return None
    if op == "signneg":
        return math.copysign(1.0, l) < 0
    if op == "signpos":
        return math.copysign(1.0, l) > 0
    if op == "isnan":
        return l != l
    if op == "isinf":
        return l in (float("inf"), float("-inf"))
    if op == "isfinite":
        return l == l and l not in (float("inf"), float("-inf"))
    if not isinstance(l, (int, float)) or (r is not None and not isinstance(r, (int, float))):
        return None                   # (a value the grid cannot evaluate: the point does not select this path)
    if op == "fitsi32":
        return l == l and l not in (float("inf"), float("-inf")) and -2147483648 <= math.trunc(l) <= 2147483647
    return _holds(op, l, r)


def kind_cmp_table(fb, fname, n_tests=5):
    """`fname` (Number::eq / partial_cmp / exact_eqv) on every ordered pair of kinds {Integer, Rational, Real} with symbolic payloads;
    every test on a symbolic value is explored both ways.  {(ka, kb): [path]}, path = {tests, decisive, result} | {stuck}."""
    from .absint import Sym
    import itertools
    nv = dict((n, i) for i, n in fb.variants("values::Number"))
    f = fb.find(fname)
    out = {}
    FLOAT_TESTS = {"is_sign_negative": "signneg", "is_sign_positive": "signpos", "is_nan": "isnan", "is_infinite": "isinf", "is_finite": "isfinite"}
    for ka, kb in itertools.product(("Integer", "Rational", "Real"), repeat=2):
        paths, seen = [], set()
        for schedule in itertools.product((True, False), repeat=n_tests):
            inames, rnames = iter("abcd"), iter("xy")

            def mk(kind):
                if kind == "Integer":
                    e = Enum(nv["Integer"], [Sym(next(inames))])
                elif kind == "Rational":
                    e = Enum(nv["Rational"], [Sym(next(inames)), Sym(next(inames))])
                else:
                    e = Enum(nv["Real"], [Sym(next(rnames))])
                e.name = kind
                return e
            A, B = mk(ka), mk(kb)
            pc, dec, k = [], [], [0]

            def sched(entry):
                i = k[0]
                k[0] += 1
                if i >= len(schedule):
                    raise absint.Stuck("more than %d tests on symbolic values on one path" % len(schedule))
                pc.append(entry + (schedule[i],))
                return schedule[i]

            def icpt(mc, cn, args, tt, g):
                end = cn.rsplit("::", 1)[-1]
                symb = any(isinstance(x, Sym) for x in args)
                if cn.endswith("NumCast::from") and len(args) == 1:
                    return some(Sym("ToReal", args[0])) if isinstance(args[0], (Sym, int)) else UNKNOWN
                if end in ("zero", "one") and ("Zero::" in cn or "One::" in cn) and not args:
                    return 0.0 if end == "zero" else 1.0
                if end in FLOAT_TESTS and len(args) == 1 and symb:
                    return sched((FLOAT_TESTS[end], args[0], None))
                if end in ("partial_cmp", "cmp") and len(args) == 2 and symb:
                    dec.append((end, args[0], args[1]))
                    return UNKNOWN
                if end in ("eq", "ne", "lt", "le", "gt", "ge") and len(args) == 2 and symb and ("cmp::" in cn):
                    return sched((end, args[0], args[1]))
                if end in ("div", "mul", "add", "sub") and "std::ops::" in cn and len(args) == 2 and symb and \
                        (tt.get("fn") or {}).get("resolved") is None:
                    return Sym("F" + end.capitalize(), args[0], args[1])
                if end == "neg" and "std::ops::Neg" in cn and symb and (tt.get("fn") or {}).get("resolved") is None:
                    return Sym("FNeg", args[0])
                if end == "abs" and symb and "Float" in cn:
                    return Sym("FAbs", args[0])
                if end in ("floor", "ceil", "trunc", "round") and symb and len(args) == 1 and ("Float" in cn or "f32" in cn or "Real" in cn):
                    return Sym("F" + end.capitalize(), args[0])
                if end == "to_i32" and symb and len(args) == 1:
                    # Some(the integer part) when it fits an i32, None otherwise: explored both ways
                    return some(Sym("ToI32", args[0])) if sched(("fitsi32", args[0], None)) else none()
                if end in ("eq", "ne") and len(args) == 2 and "cmp::" in cn and all(isinstance(x, Enum) and getattr(x, "name", None) in ("Some", "None")
                                                                                   for x in args):
                    # two Options of symbolic numbers: equal when both are None, or both Some of equal payloads
                    l_, r_ = args
                    if l_.name != r_.name:
                        res_ = False
                    elif l_.name == "None":
                        res_ = True
                    else:
                        pl_, pr_ = l_.fields[0], r_.fields[0]
                        if not (isinstance(pl_, Sym) or isinstance(pr_, Sym)):
                            return NOT
                        res_ = sched(("eq", pl_, pr_))
                    return res_ if end == "eq" else (not res_)
                if end == "mul" and "ops::Mul" in cn and len(args) == 2 and symb:
                    return Sym("Mul", args[0], args[1])
                return NOT

            def symcmp(op, x, y):
                cf, cb = absint.CUR_F[0], absint.CUR_B[0]
                term = cf.blocks[cb]["term"] if cf is not None and cb is not None else {}
                if term.get("k") == "assert" and absint.in_assert_condition():
                    return bool(term.get("expected"))
                return sched((op, x, y))
            mc = Machine(fb, intercept=icpt, max_visits=4, budget=400)
            absint.SYM_COMPARE = symcmp
            res = None
            try:
                res = mc.run(f, [A, B])
            except absint.Stuck as e:
                if not dec:
                    sig = ("stuck", str(e))
                    if sig not in seen:
                        seen.add(sig)
                        paths.append({"stuck": str(e)})
                    continue
                res = "decisive-comparison-returned"
            except absint.Loop as e:
                paths.append({"stuck": str(e)})
                continue
            finally:
                absint.SYM_COMPARE = None
            if k[0] < len(schedule) and any(schedule[k[0]:]):
                continue
            sig = (tuple((p[0], repr(p[1]), repr(p[2]), p[3]) for p in pc), tuple((x[0], repr(x[1]), repr(x[2])) for x in dec), repr(res))
            if sig in seen:
                continue
            seen.add(sig)
            paths.append({"tests": list(pc), "decisive": list(dec), "result": res})
        out[(ka, kb)] = paths
    return f, out


def rule_kind_cmp(ctx, rule):
    """= and the order on every pair of kinds: at every grid point (integers -2..2, ratios with denominators 1..3, ten reals
    including both zeros, the infinities and NaN) the path the point selects answers with the mathematical order of the two values
    (an exact operand facing an inexact one converted to binary32 first)"""
    fb = ctx.fb()
    from .ctx import where_of
    from fractions import Fraction
    import itertools
    decided = 0
    for fname, short in (("<values::Number as std::cmp::PartialEq>::eq", "eq"), ("<values::Number as std::cmp::PartialOrd>::partial_cmp", "partial_cmp")):
        try:
            f, table = kind_cmp_table(fb, fname)
        except mir.AnchorMissing as e:
            ctx.undecided(rule, short, str(e))
            continue
        for (ka, kb), paths in sorted(table.items()):
            key = "%s/%s-%s" % (short, ka, kb)
            good = [p for p in paths if "stuck" not in p]
            if not good:
                ctx.undecided(rule, key, "cannot follow %s on %s x %s (%s)" % (short, ka, kb, (paths[0]["stuck"] if paths else "no path")), where_of(f))
                continue
            isyms = ["a"] + (["b"] if ka == "Rational" else []) if ka != "Real" else []
            nxt = chr(ord(isyms[-1]) + 1) if isyms else "a"
            jsyms = ([nxt] + ([chr(ord(nxt) + 1)] if kb == "Rational" else [])) if kb != "Real" else []
            rs = (["x"] if ka == "Real" else []) + ((["y"] if ka == "Real" else ["x"]) if kb == "Real" else [])
            dens = set(([isyms[1]] if ka == "Rational" else []) + ([jsyms[1]] if kb == "Rational" else []))
            names = isyms + jsyms + rs
            mixed = ("Real" in (ka, kb)) and (ka, kb) != ("Real", "Real")
            # (an exact operand facing an inexact one: integers binary32 cannot hold — 2^24 + 1, the ends of the i32 range — and the
            # reals they round to are part of the grid)
            ints_ = list(range(-2, 3)) + ([16777216, 16777217, 2147483647, -2147483648] if mixed and "Rational" not in (ka, kb) else [])
            reals_ = REALS + ([16777216.0, 16777218.0, 2147483648.0, -2147483648.0] if mixed and "Rational" not in (ka, kb) else [])
            if mixed and "Rational" in (ka, kb):
                # a ratio facing a real: improper ratios whose quotient is not a binary fraction (5/3, 7/3 ...) and the reals next to
                # their binary32 value — the conversion has to be the correctly rounded quotient, not something rounded twice
                ints_ = list(range(-2, 3)) + [5, -5, 7, 10]
                import struct as _st

                def _next(v, up=True):
                    b_ = _st.unpack("<i", _st.pack("<f", v))[0]
                    b_ += (1 if (v >= 0) == up else -1)
                    return _st.unpack("<f", _st.pack("<i", b_))[0]
                extra_ = []
                for q_ in (5 / 3, -5 / 3, 7 / 3, 10 / 3):
                    x_ = _f32(q_)
                    extra_ += [x_, _next(x_, True), _next(x_, False)]
                reals_ = REALS + extra_
            doms = [range(1, 4) if n_ in dens else (reals_ if n_ in rs else ints_) for n_ in names]
            bad, points, uncovered = None, 0, 0
            for vals in itertools.product(*doms):
                env = dict(zip(names, vals))

                def val(kind, syms, r):
                    if kind == "Integer":
                        return Fraction(env[syms[0]])
                    if kind == "Rational":
                        return Fraction(env[syms[0]], env[syms[1]])
                    return env[r]
                L = val(ka, isyms, "x")
                Rv = val(kb, jsyms, "y" if ka == "Real" else "x")
                if isinstance(L, float) != isinstance(Rv, float):
                    L, Rv = (_f32(L) if not isinstance(L, float) else L), (_f32(Rv) if not isinstance(Rv, float) else Rv)
                nan = (isinstance(L, float) and L != L) or (isinstance(Rv, float) and Rv != Rv)
                want = "none" if nan else ((L > Rv) - (L < Rv))
                hit = None
                for p in good:
                    hs = [_test_holds(t, env) for t in p["tests"][:len(p["tests"])]]
                    conds = p["tests"]
                    final_bool = None
                    if short == "eq" and conds and isinstance(p["result"], bool) and p["result"] == conds[-1][3]:
                        conds, final_bool = conds[:-1], conds[-1]
                    hs = [_test_holds(t, env) for t in conds]
                    if None in hs or any(h != t[3] for h, t in zip(hs, conds)):
                        continue
                    hit = (p, conds, final_bool)
                    break
                if hit is None:
                    uncovered += 1
                    continue
                p, conds, final_bool = hit
                if short == "partial_cmp":
                    if p["decisive"]:
                        d_ = p["decisive"][-1]
                        l, r = _evf(d_[1], env), _evf(d_[2], env)
                        if l is None or r is None:
                            uncovered += 1
                            continue
                        got = "none" if (l != l or r != r) else ((l > r) - (l < r))
                    else:
                        got = _const_ordering(p["result"])
                        if got is None:
                            uncovered += 1
                            continue
                else:
                    want = (want == 0)
                    if final_bool is not None:
                        got = _test_holds(final_bool[:3] + (True,), env)
                    elif isinstance(p["result"], bool):
                        got = p["result"]
                    else:
                        uncovered += 1
                        continue
                points += 1
                if got != want and bad is None:
                    def lit(kind, syms, r):
                        return ("%d/%d" % (env[syms[0]], env[syms[1]])) if kind == "Rational" else (str(env[syms[0]]) if kind == "Integer" else repr(env[r]))
                    bad = "(%s %s %s) answers %s, the numbers are ordered %s (tests on the way: %s)" % (
                        "=" if short == "eq" else "compare", lit(ka, isyms, "x"), lit(kb, jsyms, "y" if ka == "Real" else "x"),
                        {-1: "Less", 0: "Equal", 1: "Greater", "none": "incomparable", True: "#t", False: "#f"}.get(got, got),
                        {-1: "Less", 0: "Equal", 1: "Greater", "none": "incomparable", True: "equal", False: "not equal"}.get(want, want),
                        [(t[0], repr(t[1]), repr(t[2]), t[3]) for t in conds])
            if points:
                decided += 1
            ctx.inst(rule, key, {"points": points, "points_without_a_followed_path": uncovered, "paths": len(good)})
            if not points:
                ctx.undecided(rule, key, "no grid point selects a path that could be followed", where_of(f))
                continue
            ctx.oblige(bad is None)
            if bad:
                ctx.report(rule, key, "%s on %s x %s does not give the mathematical order: %s" % (short, ka, kb, bad), where_of(f))
    return decided


# ------------------------------------------------------------------------------------------------ inexact operands: the IEEE result


def _ieee(op, vals):
    """the binary32 result of the IEEE operation on the (already converted) operands; None: not defined here"""
    import math
    x = vals[0]
    if op == "abs":
        return math.fabs(x)
    if op in ("floor", "ceiling"):
        if x != x or x in (float("inf"), float("-inf")):
            return x
        r = float(math.floor(x) if op == "floor" else math.ceil(x))
        return math.copysign(0.0, x) if r == 0 else r
    y = vals[1]
    try:
        return _f32({"+": lambda: x + y, "-": lambda: x - y, "*": lambda: x * y, "/": lambda: x / y}[op]())
    except ZeroDivisionError:
        if x != x or x == 0:
            return float("nan")
        return math.copysign(float("inf"), x) * math.copysign(1.0, y)


def _same_real(a, b):
    import math
    if a != a or b != b:
        return a != a and b != b
    return a == b and math.copysign(1.0, a) == math.copysign(1.0, b)


def _evr(x, env):
    """_evf extended with the rounding operations"""
    import math
    from .absint import Sym
    if isinstance(x, Sym) and x.op in ("FFloor", "FCeil", "FRound", "FTrunc") and len(x.args) == 1:
        v = _evr(x.args[0], env)
        if v is None:
            return None
        return _ieee("floor" if x.op == "FFloor" else "ceiling", [v]) if x.op in ("FFloor", "FCeil") else None
    if isinstance(x, Sym) and x.args:
        from .absint import Sym as _S
        vs = [_evr(a_, env) for a_ in x.args]
        if any(v is None for v in vs):
            return None
        return _evf(_S(x.op, *[_Const(v) for v in vs]), env)
    return _evf(x, env)


class _Const:
    """a value in the place of a sub-expression (for _evf)"""
    def __init__(self, v):
        self.v = v


_evf_plain = _evf


def _evf(x, env):          # noqa: F811  (wraps the evaluator above so that already computed sub-values pass through)
    if isinstance(x, _Const):
        return x.v
    return _evf_plain(x, env)


def real_arith_table(fb, fname, kinds, n_tests=5):
    """`fname` (a unary / binary Number operation) with at least one inexact operand, payloads symbolic, every test explored both
    ways: [(kinds, [path])], path = {tests, result} | {stuck}"""
    from .absint import Sym
    import itertools
    nv = dict((n, i) for i, n in fb.variants("values::Number"))
    f = fb.find(fname)
    out = []
    FLOAT_TESTS = {"is_sign_negative": "signneg", "is_sign_positive": "signpos", "is_nan": "isnan", "is_infinite": "isinf", "is_finite": "isfinite"}
    FLOAT_UNARY = {"abs": "FAbs", "floor": "FFloor", "ceil": "FCeil", "round": "FRound", "trunc": "FTrunc", "neg": "FNeg"}
    for ks in kinds:
        paths, seen = [], set()
        for schedule in itertools.product((True, False), repeat=n_tests):
            inames, rnames = iter("abcd"), iter("xy")

            def mk(kind):
                if kind == "Integer":
                    e = Enum(nv["Integer"], [Sym(next(inames))])
                elif kind == "Rational":
                    e = Enum(nv["Rational"], [Sym(next(inames)), Sym(next(inames))])
                else:
                    e = Enum(nv["Real"], [Sym(next(rnames))])
                e.name = kind
                return e
            ops = [mk(k_) for k_ in ks]
            pc, k = [], [0]

            def sched(entry):
                i = k[0]
                k[0] += 1
                if i >= len(schedule):
                    raise absint.Stuck("more than %d tests on symbolic values on one path" % len(schedule))
                pc.append(entry + (schedule[i],))
                return schedule[i]

            def icpt(mc, cn, args, tt, g):
                end = cn.rsplit("::", 1)[-1]
                symb = any(isinstance(x, Sym) for x in args)
                unresolved = (tt.get("fn") or {}).get("resolved") is None
                if cn.endswith("NumCast::from") and len(args) == 1:
                    return some(Sym("ToReal", args[0])) if isinstance(args[0], (Sym, int)) else UNKNOWN
                if end in ("zero", "one") and ("Zero::" in cn or "One::" in cn) and not args:
                    return 0.0 if end == "zero" else 1.0
                if end == "is_zero" and len(args) == 1 and symb:
                    return sched(("eq", args[0], 0.0))
                if end in FLOAT_TESTS and len(args) == 1 and symb:
                    return sched((FLOAT_TESTS[end], args[0], None))
                if end in ("eq", "ne", "lt", "le", "gt", "ge") and len(args) == 2 and symb and "cmp::" in cn:
                    return sched((end, args[0], args[1]))
                if end == "partial_cmp" and len(args) == 2 and symb and (unresolved or "cmp::impls" in cn):
                    # an ordering of two symbolic values: kept symbolic; `<` `<=` `>` `>=` built on it become tests on the operands
                    return machine.SymOrdering(args[0], args[1])
                if end in ("div", "mul", "add", "sub") and "std::ops::" in cn and len(args) == 2 and symb and unresolved:
                    return Sym("F" + end.capitalize(), args[0], args[1])
                if end in FLOAT_UNARY and len(args) == 1 and symb and (unresolved or "Float" in cn or "Neg" in cn):
                    return Sym(FLOAT_UNARY[end], args[0])
                return NOT

            def symcmp(op, x, y):
                cf, cb = absint.CUR_F[0], absint.CUR_B[0]
                term = cf.blocks[cb]["term"] if cf is not None and cb is not None else {}
                if term.get("k") == "assert" and absint.in_assert_condition():
                    return bool(term.get("expected"))
                return sched((op, x, y))
            mc = Machine(fb, intercept=icpt, max_visits=4, budget=500)
            absint.SYM_COMPARE = symcmp
            try:
                res = mc.run(f, list(ops))
            except (absint.Stuck, absint.Loop) as e:
                sig = ("stuck", str(e))
                if sig not in seen:
                    seen.add(sig)
                    paths.append({"stuck": str(e)})
                continue
            finally:
                absint.SYM_COMPARE = None
            if k[0] < len(schedule) and any(schedule[k[0]:]):
                continue
            sig = (tuple((p[0], repr(p[1]), repr(p[2]), p[3]) for p in pc), repr(res))
            if sig in seen:
                continue
            seen.add(sig)
            paths.append({"tests": list(pc), "result": res})
        out.append((ks, paths))
    return f, out


REAL_OPS = {
    "abs": ("values::Number::abs", 1), "floor": ("values::Number::floor", 1), "ceiling": ("values::Number::ceiling", 1),
    "+": ("<values::Number as std::ops::Add>::add", 2), "-": ("<values::Number as std::ops::Sub>::sub", 2),
    "*": ("<values::Number as std::ops::Mul>::mul", 2), "/": ("<values::Number as std::ops::Div>::div", 2),
}


def rule_real_arith(ctx, rule):
    """an operation with an inexact operand returns the binary32 result of the IEEE operation on the converted operands — including the
    sign of a zero result, the infinities and NaN: every path of abs / floor / ceiling on a real and of + - * / on every pair of kinds
    with a real in it is evaluated on ten reals x the exact grid and compared with the IEEE result"""
    fb = ctx.fb()
    from .ctx import where_of
    from fractions import Fraction
    import itertools
    nv = dict((n, i) for i, n in fb.variants("values::Number"))
    decided = 0
    for opn, (fname, arity) in REAL_OPS.items():
        kinds = [("Real",)] if arity == 1 else [("Real", "Real"), ("Real", "Integer"), ("Integer", "Real"), ("Real", "Rational"), ("Rational", "Real")]
        try:
            f, table = real_arith_table(fb, fname, kinds)
        except mir.AnchorMissing as e:
            ctx.undecided(rule, opn, str(e))
            continue
        for ks, paths in table:
            key = "%s/%s" % (opn, "-".join(ks))
            good = [p for p in paths if "stuck" not in p]
            if not good:
                ctx.undecided(rule, key, "cannot follow %s on %s (%s)" % (fname, " x ".join(ks), paths[0]["stuck"] if paths else "no path"), where_of(f))
                continue
            # the symbols of the operands, in order of creation
            inames, rnames = iter("abcd"), iter("xy")
            osyms = []
            for k_ in ks:
                osyms.append([next(inames)] if k_ == "Integer" else ([next(inames), next(inames)] if k_ == "Rational" else [next(rnames)]))
            names = [n_ for o in osyms for n_ in o]
            dens = {o[1] for o, k_ in zip(osyms, ks) if k_ == "Rational"}
            reals = {o[0] for o, k_ in zip(osyms, ks) if k_ == "Real"}
            doms = [range(1, 4) if n_ in dens else (REALS if n_ in reals else range(-2, 3)) for n_ in names]
            bad, points, uncovered = None, 0, 0
            for vals in itertools.product(*doms):
                env = dict(zip(names, vals))
                conv = []
                exact_zero_divisor = False
                for i_, (o, k_) in enumerate(zip(osyms, ks)):
                    if k_ == "Real":
                        conv.append(env[o[0]])
                    elif k_ == "Integer":
                        conv.append(_f32(env[o[0]]))
                        exact_zero_divisor |= (opn == "/" and i_ == 1 and env[o[0]] == 0)
                    else:
                        conv.append(_ieee("/", [_f32(env[o[0]]), _f32(env[o[1]])]))
                        exact_zero_divisor |= (opn == "/" and i_ == 1 and env[o[0]] == 0)
                if exact_zero_divisor:
                    continue                                  # division by an exact zero: an error by another clause (C08 / C09-exact)
                want = _ieee(opn, conv)
                hit = None
                for p in good:
                    hs = [_test_holds(t, env) for t in p["tests"]]
                    if None in hs or any(h != t[3] for h, t in zip(hs, p["tests"])):
                        continue
                    hit = p
                    break
                if hit is None:
                    uncovered += 1
                    continue
                res = hit["result"]
                val = res.fields[0] if isinstance(res, Enum) and getattr(res, "name", None) == "Ok" and res.fields else res
                got = None
                if isinstance(res, Enum) and getattr(res, "name", None) == "Err":
                    got = "an error"
                elif isinstance(val, Enum) and val.variant == nv.get("Real") and val.fields:
                    got = _evr(val.fields[0], env)
                elif isinstance(val, Enum) and val.variant in (nv["Integer"], nv["Rational"]):
                    got = "an exact number"
                if got is None:
                    uncovered += 1
                    continue
                points += 1
                okk = isinstance(got, float) and _same_real(got, want)
                if not okk and bad is None:
                    def lit(o, k_):
                        return repr(env[o[0]]) if k_ == "Real" else (str(env[o[0]]) if k_ == "Integer" else "%d/%d" % (env[o[0]], env[o[1]]))
                    bad = "(%s %s) gives %s, the IEEE binary32 result is %r (tests on the way: %s)" % (
                        opn, " ".join(lit(o, k_) for o, k_ in zip(osyms, ks)), repr(got), want, [(t[0], repr(t[1]), repr(t[2]), t[3]) for t in hit["tests"]])
            if not points:
                ctx.undecided(rule, key, "no grid point selects a path of %s whose result could be evaluated" % fname, where_of(f))
                continue
            decided += 1
            ctx.inst(rule, key, {"points": points, "points_without_a_followed_path": uncovered, "paths": len(good)})
            ctx.oblige(bad is None)
            if bad:
                ctx.report(rule, key, "an operation with an inexact operand does not return the IEEE result: " + bad, where_of(f))
    return decided


# ------------------------------------------------------------------------------------------------ n-ary predicates on mixed kinds

CHAIN_VALUES = {
    "Integer": [(-1,), (0,), (1,), (16777216,), (16777217,)],
    "Rational": [(1, 3), (33333334, 100000000), (-1, 2), (16777217, 1)],
    "Real": [(0.0,), (0.5,), (16777216.0,), (16777218.0,), (0.33333334,)],
}


def chain_table(fb, name, kinds, n_tests=4):
    """the builtin predicate `name` on operands of the given kinds with symbolic payloads (every test on them explored both ways):
    [path] with path = {tests, result} | {stuck}"""
    from .absint import Sym
    import itertools
    regs = {r["name"]: r for r in registry.read(fb)}
    if name not in regs or not regs[name]["target"]:
        return None
    f = fb.by_path(regs[name]["target"])
    nv = dict((n, i) for i, n in fb.variants("values::Number"))
    vi = dict((n, i) for i, n in fb.variants("values::Value"))
    paths, seen = [], set()
    for schedule in itertools.product((True, False), repeat=n_tests):
        names = iter("abcdefghij")
        osyms = []

        def mk(kind):
            syms = [next(names)] if kind != "Rational" else [next(names), next(names)]
            osyms.append(syms)
            e = Enum(nv[kind], [Sym(s_) for s_ in syms])
            e.name, e.adt = kind, "values::Number"
            v = Enum(vi["Number"], [e])
            v.name, v.adt = "Number", "values::Value"
            return v
        args = [mk(k_) for k_ in kinds]
        pc, k = [], [0]

        def sched(entry):
            i = k[0]
            k[0] += 1
            if i >= len(schedule):
                raise absint.Stuck("more than %d tests on symbolic values on one path" % len(schedule))
            pc.append(entry + (schedule[i],))
            return schedule[i]

        def icpt(mc, cn, a, tt, g):
            end = cn.rsplit("::", 1)[-1]
            symb = any(isinstance(x, Sym) for x in a)
            # (a trait method named through the trait — a function item handed around as a comparator — is as unresolved as a call)
            unresolved = (tt.get("fn") or {}).get("resolved") is None or cn.startswith(("std::cmp::PartialOrd::", "std::cmp::PartialEq::"))
            if cn.endswith("NumCast::from") and len(a) == 1:
                return some(Sym("ToReal", a[0])) if isinstance(a[0], (Sym, int)) else UNKNOWN
            if end in ("zero", "one") and ("Zero::" in cn or "One::" in cn) and not a:
                return 0.0 if end == "zero" else 1.0
            if end in ("partial_cmp", "cmp") and len(a) == 2 and symb and (unresolved or "cmp::impls" in cn):
                return machine.SymOrdering(a[0], a[1])
            if end in ("eq", "ne", "lt", "le", "gt", "ge") and len(a) == 2 and symb and (unresolved or "cmp::impls" in cn):
                return sched((end, a[0], a[1]))
            if end in ("div", "mul", "add", "sub") and "std::ops::" in cn and len(a) == 2 and symb and unresolved:
                return Sym("F" + end.capitalize(), a[0], a[1])
            return NOT

        def symcmp(op, x, y):
            cf, cb = absint.CUR_F[0], absint.CUR_B[0]
            term = cf.blocks[cb]["term"] if cf is not None and cb is not None and cb < len(cf.blocks) else {}
            if term.get("k") == "assert" and absint.in_assert_condition():
                return bool(term.get("expected"))
            return sched((op, x, y))
        mc = Machine(fb, intercept=icpt, max_visits=len(kinds) + 4, budget=900)
        absint.SYM_COMPARE = symcmp
        try:
            res = mc.run(f, [list(args)])
        except (absint.Stuck, absint.Loop) as e:
            sig = ("stuck", str(e))
            if sig not in seen:
                seen.add(sig)
                paths.append({"stuck": str(e)})
            continue
        finally:
            absint.SYM_COMPARE = None
        if k[0] < len(schedule) and any(schedule[k[0]:]):
            continue
        sig = (tuple((p[0], repr(p[1]), repr(p[2]), p[3]) for p in pc), repr(res))
        if sig in seen:
            continue
        seen.add(sig)
        paths.append({"tests": list(pc), "result": res, "osyms": [list(o) for o in osyms]})
    return f, paths


def rule_chain_grid(ctx, rule):
    """(op a b c) is (op a b) and (op b c), each pair compared as the two numbers it consists of — an exact operand facing an inexact
    one converted to binary32 for THAT comparison only: on operand triples of every mix of kinds (thorough; quick: the mixes with a real in
    first or middle position) over values around 2^24 and 1/3, the path a point selects answers what the pairwise definition gives"""
    fb = ctx.fb()
    from .ctx import where_of
    from fractions import Fraction
    import itertools
    ops = {"<": lambda x, y: x < y, "<=": lambda x, y: x <= y, ">": lambda x, y: x > y, ">=": lambda x, y: x >= y, "=": lambda x, y: x == y}
    all_kinds = list(itertools.product(("Integer", "Rational", "Real"), repeat=3))
    if ctx.tier != "thorough":
        all_kinds = [k_ for k_ in all_kinds if "Real" in k_[:2] and k_ != ("Real", "Real", "Real")][:8]

    def val(kind, tup):
        return float(tup[0]) if kind == "Real" else (Fraction(tup[0]) if kind == "Integer" else Fraction(tup[0], tup[1]))

    def pair(op, ka, va, kb, vb):
        if (ka == "Real") != (kb == "Real"):
            va, vb = (_f32(va) if ka != "Real" else va), (_f32(vb) if kb != "Real" else vb)
        return ops[op](va, vb)
    decided = 0
    for opn in ops:
        bad, points, und, f = None, 0, 0, None
        for kinds in all_kinds:
            t = chain_table(fb, opn, kinds)
            if t is None:
                break
            f, paths = t
            good = [p for p in paths if "stuck" not in p]
            if not good:
                und += 1
                continue
            for combo in itertools.product(*[CHAIN_VALUES[k_] for k_ in kinds]):
                osyms = good[0]["osyms"]
                env = {}
                for syms, tup in zip(osyms, combo):
                    for s_, v_ in zip(syms, tup):
                        env[s_] = v_
                vals = [val(k_, tup) for k_, tup in zip(kinds, combo)]
                want = pair(opn, kinds[0], vals[0], kinds[1], vals[1]) and pair(opn, kinds[1], vals[1], kinds[2], vals[2])
                hit = None
                for p in good:
                    hs = [_test_holds(t_, env) for t_ in p["tests"]]
                    if None in hs or any(h != t_[3] for h, t_ in zip(hs, p["tests"])):
                        continue
                    hit = p
                    break
                if hit is None:
                    continue
                b_ = find_enum(hit["result"], "Boolean")
                if getattr(hit["result"], "name", None) != "Ok" or not b_ or not b_[0].fields or not isinstance(b_[0].fields[0], bool):
                    continue
                points += 1
                got = b_[0].fields[0]
                if got != want and bad is None:
                    def lit(k_, tup):
                        return repr(tup[0]) if k_ != "Rational" else "%d/%d" % tup
                    bad = "(%s %s) answers %s; pairwise (each pair compared as the numbers it consists of) it is %s (tests on the way: %s)" % (
                        opn, " ".join(lit(k_, tup) for k_, tup in zip(kinds, combo)), "#t" if got else "#f", "#t" if want else "#f",
                        [(t_[0], repr(t_[1]), repr(t_[2]), t_[3]) for t_ in hit["tests"]])
        if f is None:
            ctx.undecided(rule, opn, "the predicate %s is not registered as a builtin function" % opn)
            continue
        if not points:
            ctx.undecided(rule, opn + "/triples", "cannot follow %s on operands with symbolic payloads" % f.name, where_of(f))
            continue
        decided += 1
        ctx.inst(rule, opn + "/triples", {"kind_triples": len(all_kinds), "not_followed": und, "points": points})
        ctx.oblige(bad is None)
        if bad:
            ctx.report(rule, opn + "/triples", "an n-ary comparison is not the conjunction of its adjacent pairs: " + bad, where_of(f))
    return decided


MAXMIN_VALUES = {
    "Integer": [(-1,), (0,), (1,), (16777216,), (16777217,), (2147483646,), (2147483647,), (-16777217,)],
    "Rational": [(1, 3), (-1, 2), (33554433, 2), (16777217, 1), (33554431, 2)],
}


def _i32_safe(x, env):
    """every integer sub-expression of x stays inside i32 at this point (the fixed-width arithmetic is then the mathematical one)"""
    from .absint import Sym
    if isinstance(x, Sym) and x.args:
        if not all(_i32_safe(a_, env) for a_ in x.args):
            return False
        if x.op in ("Mul", "Add", "Sub", "Neg", "Abs"):
            v = _ev(x, env)
            return v is not None and -2147483648 <= v <= 2147483647
    return True


def rule_maxmin_grid(ctx, rule):
    """max / min of two EXACT operands is the numerically extreme one, as the number it is: on pairs of integers and ratios around 2^24
    and 2^31 (values a binary32 image cannot tell apart) the path a point selects returns the extreme operand"""
    fb = ctx.fb()
    from .ctx import where_of
    from fractions import Fraction
    import itertools
    decided = 0
    for name in ("max", "min"):
        bad, points, f = None, 0, None
        for kinds in itertools.product(("Integer", "Rational"), repeat=2):
            t = chain_table(fb, name, kinds, n_tests=3)
            if t is None:
                break
            f, paths = t
            good = [p for p in paths if "stuck" not in p]
            if not good:
                continue
            for combo in itertools.product(*[MAXMIN_VALUES[k_] for k_ in kinds]):
                env = {}
                for syms, tup in zip(good[0]["osyms"], combo):
                    for s_, v_ in zip(syms, tup):
                        env[s_] = v_
                vals = [Fraction(*tup) for tup in combo]
                want = max(vals) if name == "max" else min(vals)
                hit = None
                for p in good:
                    if not all(_i32_safe(t_[1], env) and _i32_safe(t_[2], env) for t_ in p["tests"]):
                        hit = None
                        break
                    hs = [_test_holds(t_, env) for t_ in p["tests"]]
                    if None in hs or any(h != t_[3] for h, t_ in zip(hs, p["tests"])):
                        continue
                    hit = p
                    break
                if hit is None or getattr(hit["result"], "name", None) != "Ok":
                    continue
                got = None
                for kn in ("Integer", "Rational"):
                    e = [x for x in find_enum(hit["result"], kn) if getattr(x, "adt", None) in (None, "values::Number")]
                    if e:
                        pv = [_ev(x, env) for x in e[0].fields]
                        if all(isinstance(v, int) and not isinstance(v, bool) for v in pv) and (kn == "Integer" or (len(pv) == 2 and pv[1] != 0)):
                            got = Fraction(*pv)
                        break
                if got is None:
                    continue
                points += 1
                if got != want and bad is None:
                    lit = lambda tup: "%d" % tup[0] if len(tup) == 1 else "%d/%d" % tup
                    bad = "(%s %s) gives %s; the numerically %s argument is %s (tests on the way: %s)" % (
                        name, " ".join(lit(tup) for tup in combo), got, "largest" if name == "max" else "smallest", want,
                        [(t_[0], repr(t_[1]), repr(t_[2]), t_[3]) for t_ in hit["tests"]])
        if f is None:
            ctx.undecided(rule, name + "/exact-pairs", "%s is not registered as a builtin function" % name)
            continue
        if not points:
            ctx.undecided(rule, name + "/exact-pairs", "cannot follow %s on exact operands with symbolic payloads" % f.name, where_of(f))
            continue
        decided += 1
        ctx.inst(rule, name + "/exact-pairs", {"points": points})
        ctx.oblige(bad is None)
        if bad:
            ctx.report(rule, name + "/exact-pairs", "max / min of exact arguments is not the numerically extreme one: " + bad, where_of(f))
    return decided
