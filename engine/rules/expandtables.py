"""C04 expansion tables: rule sets inside the expander's supported class are parsed by the crate's own `transform_transformer` and
applied by `UserDefinedTransformer::transform`, both followed through their MIR by the abstract machine on datum skeletons; the
outcome (the expansion, or "no rule matches") is compared with the matching / instantiation relation of the property statement
written out below (a second, independent statement of it is engine C's model, used for C05).  Uses that give an ellipsis zero
items are outside the explored class (one or more items per ellipsis) and are skipped."""
from . import absint, machine, mir, parsetables
from .absint import Enum, UNKNOWN
from .machine import Machine

TT = "parser::parser::Parser::transform_transformer"
TR = "parser::macros::UserDefinedTransformer::transform"


# ------------------------------------------------------------------------------------------------ s-expressions
# ('sym', name) | ('int', n) | ('str', s) | ('list', [..]) | ('vec', [..]) | ('dot', [..], tail)


def parse(text):
    toks = text.replace("(", " ( ").replace(")", " ) ").replace("#(", " #( ").split()
    # "#(" was split into "#" "(" by the first replace: rejoin
    out, i = [], 0
    merged = []
    while i < len(toks):
        if toks[i] == "#" and i + 1 < len(toks) and toks[i + 1] == "(":
            merged.append("#(")
            i += 2
        else:
            merged.append(toks[i])
            i += 1
    pos = [0]

    def rd():
        t = merged[pos[0]]
        pos[0] += 1
        if t in ("(", "#("):
            items, tail = [], None
            while merged[pos[0]] != ")":
                if merged[pos[0]] == ".":
                    pos[0] += 1
                    tail = rd()
                else:
                    items.append(rd())
            pos[0] += 1
            if t == "#(":
                return ("vec", items)
            return ("dot", items, tail) if tail is not None else ("list", items)
        if t.lstrip("-").isdigit():
            return ("int", int(t))
        if t.startswith('"') and t.endswith('"'):
            return ("str", t[1:-1])
        return ("sym", t)
    return rd()


def show(x):
    k = x[0]
    if k == "sym":
        return x[1]
    if k == "int":
        return str(x[1])
    if k == "str":
        return '"%s"' % x[1]
    if k == "list":
        return "(" + " ".join(show(y) for y in x[1]) + ")"
    if k == "vec":
        return "#(" + " ".join(show(y) for y in x[1]) + ")"
    return "(" + " ".join(show(y) for y in x[1]) + " . " + show(x[2]) + ")"


# ------------------------------------------------------------------------------------------------ the relation of the statement


class OutsideClass(Exception):
    pass


def is_ell(x):
    return x == ("sym", "...")


def match(p, e, lits, b):
    k = p[0]
    if k == "sym":
        if p[1] == "_":
            return True
        if p[1] in lits:
            return e == p
        b[p[1]] = e
        return True
    if k in ("int", "str"):
        return e == p
    if k in ("list", "vec"):
        if e[0] != k:
            return False                      # a proper list matches only a proper list, a vector only a vector
        return match_seq(p[1], e[1], lits, b)
    return False


def match_seq(pats, elems, lits, b):
    has = len(pats) >= 2 and is_ell(pats[-1])
    fixed = pats[:-2] if has else pats
    if not has:
        if len(elems) != len(fixed):
            return False
    elif len(elems) < len(fixed):
        return False
    for p, e in zip(fixed, elems):
        if not match(p, e, lits, b):
            return False
    if has:
        run = elems[len(fixed):]
        if not run:
            raise OutsideClass("an ellipsis with zero items")
        subs = []
        for e in run:
            sb = {}
            if not match(pats[-2], e, lits, sb):
                return False
            subs.append(sb)
        for key in subs[0]:
            b[key] = ("run", [sb[key] for sb in subs])
    return True


def tvars(t, b):
    if t[0] == "sym":
        return {t[1]} if t[1] in b else set()
    if t[0] in ("list", "vec"):
        out = set()
        for x in t[1]:
            out |= tvars(x, b)
        return out
    return set()


def inst(t, b):
    k = t[0]
    if k == "sym":
        v = b.get(t[1])
        if v is None:
            return t
        if isinstance(v, tuple) and v and v[0] == "run":
            raise OutsideClass("an ellipsis variable outside an ellipsis sub-template")
        return v
    if k in ("list", "vec"):
        out, i = [], 0
        items = t[1]
        while i < len(items):
            ell = i + 1 < len(items) and is_ell(items[i + 1])
            if ell:
                vs = [v for v in tvars(items[i], b) if isinstance(b[v], tuple) and b[v][0] == "run"]
                if not vs or any(not (isinstance(b[v], tuple) and b[v][0] == "run") for v in tvars(items[i], b)):
                    raise OutsideClass("an ellipsis sub-template that mentions a non-ellipsis variable (or none)")
                n = len(b[vs[0]][1])
                for j in range(n):
                    bj = dict(b)
                    for v in vs:
                        bj[v] = b[v][1][j]
                    out.append(inst(items[i], bj))
                i += 2
            else:
                out.append(inst(items[i], b))
                i += 1
        return (k, out)
    return t


def reference(rules, lits, use):
    """('expansion', datum) | ('no-match',) ; raises OutsideClass"""
    for pat, tmpl in rules:
        b = {}
        if match(("list", pat[1][1:]), use, lits, b):
            return ("expansion", inst(tmpl, b))
    return ("no-match",)


# ------------------------------------------------------------------------------------------------ the crate's side


class Crate:
    def __init__(self, fb):
        self.fb = fb
        self.d = parsetables.Datums(fb)
        self.pv = dict((n, i) for i, n in fb.variants("parser::datum::Primitive"))
        self.dbn = dict((i, n) for i, n in fb.variants("parser::datum::DatumBody"))
        self.tt = fb.find(TT)
        self.tr = fb.find(TR)

    def datum(self, x):
        d = self.d
        k = x[0]
        if k == "sym":
            return d.sym(x[1])
        if k in ("int", "str"):
            e = Enum(self.pv["Integer" if k == "int" else "String"], [x[1]])
            e.name, e.adt = ("Integer" if k == "int" else "String"), "parser::datum::Primitive"
            return d.located(d.body("Primitive", e))
        if k == "list":
            return d.lst([self.datum(y) for y in x[1]])
        if k == "dot":
            return d.lst([self.datum(y) for y in x[1]], tail=self.datum(x[2]))
        return d.located(d.body("Vector", [self.datum(y) for y in x[1]]))

    def back(self, v, depth=40):
        """abstract Datum -> s-expression (locations dropped); None when it is not a fully known datum"""
        if depth <= 0 or not isinstance(v, Enum) or not v.fields:
            return None
        body = v.fields[0]
        if not isinstance(body, Enum):
            return None
        name = getattr(body, "name", None) or self.dbn.get(body.variant)
        if name == "Symbol":
            return ("sym", body.fields[0]) if isinstance(body.fields[0], str) else None
        if name == "Primitive":
            p = body.fields[0]
            if isinstance(p, Enum) and p.fields:
                if p.variant == self.pv["Integer"] and isinstance(p.fields[0], int):
                    return ("int", p.fields[0])
                if p.variant == self.pv["String"] and isinstance(p.fields[0], str):
                    return ("str", p.fields[0])
            return None
        if name == "Vector":
            items = [self.back(x, depth - 1) for x in body.fields[0]] if isinstance(body.fields[0], list) else None
            return ("vec", items) if items is not None and None not in items else None
        if name == "Pair":
            items, cur = [], body.fields[0]
            for _ in range(60):
                if not isinstance(cur, Enum):
                    return None
                if not cur.fields:                      # GenericPair::Empty
                    return ("list", items)
                car, cdr = cur.fields
                c = self.back(car, depth - 1)
                if c is None:
                    return None
                items.append(c)
                # cdr is a Datum: a Pair body continues the list, anything else is a dotted tail
                if isinstance(cdr, Enum) and cdr.fields and isinstance(cdr.fields[0], Enum) and \
                        (getattr(cdr.fields[0], "name", None) or self.dbn.get(cdr.fields[0].variant)) == "Pair":
                    cur = cdr.fields[0].fields[0]
                else:
                    t = self.back(cdr, depth - 1)
                    return ("dot", items, t) if t is not None else None
            return None
        return None

    def parse_rules(self, rules, lits):
        spec = ("list", [("sym", "syntax-rules"), ("list", [("sym", x) for x in sorted(lits)])] + [("list", [p, t]) for p, t in rules])
        r = Machine(self.fb, max_visits=24, budget=20000).run(self.tt, ["m", self.datum(spec)])
        if isinstance(r, Enum) and getattr(r, "name", None) == "Ok":
            return r.fields[0]
        raise absint.Stuck("the rule set is not accepted by transform_transformer: %r" % (r,))

    def expand(self, udt, use):
        mc = Machine(self.fb, max_visits=40, budget=40000)
        r = mc.run(self.tr, [udt, "m", self.datum(use)])
        if isinstance(r, Enum) and getattr(r, "name", None) == "Ok":
            d = self.back(r.fields[0])
            if d is None:
                raise absint.Stuck("the expansion is not a fully determined datum: %r" % (r,))
            return ("expansion", d)
        if isinstance(r, Enum) and getattr(r, "name", None) == "Err":
            txt = repr(r)
            from .evaltables import find_enum
            if find_enum(r, "MacroMissMatch"):
                return ("no-match",)
            return ("error", txt[:120])
        raise absint.Stuck("transform yields %r" % (r,))


RULESETS = [
    ("one", [], [("(m a)", "(one a)")]),
    ("two-swapped", [], [("(m a b)", "(two b a)")]),
    ("run", [], [("(m a ...)", "(many a ...)")]),
    ("head-and-run", [], [("(m a b ...)", "(first a rest (b) ...)")]),
    ("run-of-pairs", [], [("(m (a b) ...)", "(pairs (b a) ... keys a ...)")]),
    ("underscore", [], [("(m _ a)", "(ignored a)")]),
    ("literal-identifier", ["lit"], [("(m lit a)", "(with-lit a)"), ("(m a b)", "(no-lit a b)")]),
    ("literal-datum", [], [("(m 1 a)", "(one a)"), ("(m 2 a)", "(two a)"), ("(m a b)", "(other a b)")]),
    ("vector", [], [("(m #(a b))", "(vec b a)"), ("(m a)", "(notvec a)")]),
    ("nested", [], [("(m (a (b c)) d)", "(n a b c d)")]),
    ("run-in-sublist", [], [("(m (a ...) b)", "(lst b a ...)")]),
    ("textual-order", [], [("(m a)", "(first a)"), ("(m a)", "(second a)")]),
    ("specific-before-general", [], [("(m a b)", "(two)"), ("(m a ...)", "(many)")]),
    ("vector-run", [], [("(m #(a ...))", "(v a ...)")]),
    ("list-only", [], [("(m (a b))", "(list-of-two a b)"), ("(m a)", "(something-else a)")]),
    ("template-vector", [], [("(m a b ...)", "#(a (b b) ...)")]),
    # a declared literal is special only where a pattern spells it: as an item of a run, or bound to a variable, it is just a form
    ("literal-inside-a-run", ["lit"], [("(m a b ...)", "(first a b ...)"), ("(m a b c)", "(second a b c)")]),
    ("literal-after-a-run-of-lists", ["lit"], [("(m (a b) ...)", "(pairs a ... b ...)"), ("(m a ...)", "(flat a ...)")]),
    # sub-templates under an ellipsis that also hold things which are not pattern variables: (), constants, free identifiers, vectors
    ("empty-list-in-run", [], [("(m a ...)", "(r (f () a) ...)")]),
    ("constants-in-run", [], [("(m a ...)", "(r (q 0 \"s\" #t free a) ...)")]),
    ("vector-in-run", [], [("(m a ...)", "(r #(a ()) ...)")]),
    ("nested-list-in-run", [], [("(m (a b) ...)", "(r ((a) (() b)) ...)")]),
    # _ matches anything and binds nothing: a _ spelled in the template stays the symbol _
    ("underscore-in-template", [], [("(m _ a)", "(q _ a)")]),
    ("underscore-run-in-template", [], [("(m _ ...)", "(got _ and more)")]),
]
USES = ["(1 2 lit)", "(1 2 lit 4)", "(1 lit)", "((1 2) lit)", "(#(1))", "(#())", "((1))", "()", "(1)", "(1 2)", "(1 2 3)", "((1 2))", "((1 2) (3 4))", "((1 2) 3)", "(lit 5)", "(x 5)", "(2 7)", "(#(1 2))", "(#(1 2 3))",
        "((1 (2 3)) 4)", "((1 2 3) 9)", "(1 . 2)", "((1 2 . 3))", '("lit" 5)', "((1 2) (3 4 . 5))", "((1 2) (3 4) (5 6))", "((1 2) (3 4) (5 6) (7 8))", "(#(1 2) #(3 4) #(5 6))"]
QUICK_USES = ["(1 2 lit)", "(1 2 lit 4)", "(1 lit)", "((1 2) lit)", "(#(1))", "(#())", "((1))", "()", "(1)", "(1 2)", "(1 2 3)", "((1 2) (3 4))", "(lit 5)", "(2 7)", "(#(1 2))", "((1 2 . 3))", '("lit" 5)', "((1 2) (3 4) (5 6))", "((1 2) (3 4) (5 6) (7 8))"]


def table(fb, thorough=False):
    cr = Crate(fb)
    rows = []
    uses = USES if thorough else QUICK_USES
    for name, lits, rules_txt in RULESETS:
        rules = [(parse(p), parse(t)) for p, t in rules_txt]
        try:
            udt = cr.parse_rules(rules, set(lits))
        except (absint.Stuck, absint.Loop) as e:
            rows.append((name, None, {"stuck": "rule set: %s" % e}))
            continue
        for u in uses:
            use = parse(u)
            try:
                want = reference(rules, set(lits), use)
            except OutsideClass:
                continue
            try:
                got = cr.expand(udt, use)
            except (absint.Stuck, absint.Loop) as e:
                rows.append((name, u, {"stuck": str(e)}))
                continue
            rows.append((name, u, {"want": want, "got": got, "rules": rules_txt, "lits": lits}))
    return cr, rows


def rule_expansion(ctx, rule, rule_nomatch):
    fb = ctx.fb()
    from .ctx import where_of
    cr, rows = table(fb, thorough=(ctx.tier == "thorough"))
    decided = 0
    bad = {}
    n = {}
    for name, use, d in rows:
        if "stuck" in d:
            ctx.undecided(rule, "expand/%s%s" % (name, "/" + use if use else ""), "cannot follow the expander (%s)" % d["stuck"][:200], where_of(cr.tr))
            continue
        decided += 1
        n[name] = n.get(name, 0) + 1
        want, got = d["want"], d["got"]
        same = want[0] == got[0] and (want[0] != "expansion" or show(want[1]) == show(got[1]))
        if not same and name not in bad:
            rs = " ".join("(%s %s)" % r for r in d["rules"])
            w = "the expansion %s" % show(want[1]) if want[0] == "expansion" else "a syntax error (no rule matches)"
            g = "the expansion %s" % show(got[1]) if got[0] == "expansion" else ("a syntax error (no rule matches)" if got[0] == "no-match" else "the error %s" % got[1])
            bad[name] = (rule_nomatch if want[0] == "no-match" else rule,
                         "with (syntax-rules (%s) %s) the use (m%s gives %s; the statement gives %s" % (" ".join(d["lits"]), rs, (" " + use[1:]) if use != "()" else ")", g, w))
    for name, k in sorted(n.items()):
        ctx.inst(rule, "expand/" + name, {"uses": k, "agrees": name not in bad})
        ctx.oblige(name not in bad)
    for name, (r, msg) in sorted(bad.items()):
        ctx.report(r, "expand/" + name, msg, where_of(cr.tr))
    return decided


# ------------------------------------------------------------------------------------------------ C07: expander probes
# rule sets and uses OUTSIDE the class C04 explores but inside what a user can type: template elements under an ellipsis that
# mention variables matched to runs of different lengths (either order), variables matched outside any ellipsis, no variable at all
# under a zero-length run; run variables used without an ellipsis.  What the expansion is does not matter here; a panic does.
PROBES = [
    ([("(m (a ...) (b ...))", "(z (a b) ...)")], ["((1 2 3) (4 5))", "((1 2) (3 4 5))", "((1 2) (3 4))", "((1) (2 3))", "((1 2 3 4) (5))"]),
    ([("(m (a ...) (b ...))", "(z #(b a) ...)")], ["((1 2 3) (4 5))", "((1 2) (3 4 5))"]),
    ([("(m (a ...) (b ...) (c ...))", "(z (c (a) b) ...)")], ["((1 2 3) (4 5) (6))", "((1) (2 3) (4 5 6))", "((1 2) (3) (4 5))"]),
    ([("(m a (b ...))", "(z (a b) ...)")], ["(1 (2 3))", "(1 (2))"]),
    ([("(m (a ...) b)", "(z (a b) ...)")], ["((1 2 3) 4)"]),
    ([("(m a ...)", "(z a)")], ["(1 2)", "(1)"]),
    ([("(m (a b ...) ...)", "(z (a b ...) ...)")], ["((1 2 3) (4))", "((1) (2 3 4))"]),
    ([("(m (a ...) (b ...))", "(z (a . b) ...)")], ["((1 2 3) (4 5))", "((1 2) (3 4 5))"]),
]
_PROBE_CACHE = {}


def probes(fb):
    """-> list of (rules text, use, outcome) with outcome ('ok',) | ('panic', message, function) | ('stuck', why); cached per fact base"""
    if id(fb) in _PROBE_CACHE:
        return _PROBE_CACHE[id(fb)]
    cr = Crate(fb)
    out = []
    for rules_txt, uses in PROBES:
        rules = [(parse(p_), parse(t_)) for p_, t_ in rules_txt]
        label = " ".join("(%s %s)" % r for r in rules_txt)
        try:
            udt = cr.parse_rules(rules, set())
        except (absint.Stuck, absint.Loop) as e:
            out.append((label, None, ("stuck", "rule set: %s" % str(e)[:160]), set()))
            continue
        for u in uses:
            mc = Machine(fb, max_visits=40, budget=40000)
            try:
                mc.run(cr.tr, [udt, "m", cr.datum(parse(u))])
                pan = [e for e in mc.events if e[0] == "panic"]
                out.append((label, u, ("panic", pan[0][1], pan[0][2] if len(pan[0]) > 2 else "?") if pan else ("ok",), set(mc.visited)))
            except (absint.Stuck, absint.Loop) as e:
                pan = [e_ for e_ in mc.events if e_[0] == "panic"]
                out.append((label, u, ("panic", pan[0][1], pan[0][2] if len(pan[0]) > 2 else "?") if pan else ("stuck", str(e)[:160]), set(mc.visited)))
    _PROBE_CACHE[id(fb)] = out
    return out


def rule_probes(ctx, rule):
    fb = ctx.fb()
    from .ctx import where_of
    cr_tr = fb.find(TR)
    n = 0
    for label, use, outcome, _vis in probes(fb):
        key = "expander/%s%s" % (label, (" on (m%s" % ((" " + use[1:]) if use != "()" else ")")) if use else "")
        if outcome[0] == "stuck":
            ctx.undecided(rule, key, "cannot follow the expander (%s)" % outcome[1], where_of(cr_tr))
            continue
        n += 1
        ctx.inst(rule, key, {"outcome": outcome[0]})
        ctx.oblige(outcome[0] == "ok")
        if outcome[0] == "panic":
            ctx.report(rule, "expander/" + outcome[2].rsplit("::", 1)[-1], "expanding %s panics (%s in %s): a template element under an ellipsis "
                       "whose variables matched runs of different lengths must give an expansion or a reported error" % (
                           key[len("expander/"):], outcome[1], outcome[2]), where_of(cr_tr))
    return n
