"""Debug helper: python3 show.py <function suffix> [crate]  — print MIR-like text."""
import sys
import facts, mir
lib, binf = facts.load(profile=(sys.argv[3] if len(sys.argv) > 3 else "dev"))
fb = mir.FactBase(lib, binf)
if sys.argv[1] == "--callees":
    s = set()
    for f in fb.all():
        for b, t in f.calls():
            s.add(mir.callee(t) or "<indirect:%s>" % t["fty"])
    for x in sorted(s): print(x)
elif sys.argv[1] == "--funcs":
    for f in sorted(fb.all(), key=lambda f: f.name): print(f.crate, f.name, f.kind, f.vis, len(f.blocks))
else:
    crate = sys.argv[2] if len(sys.argv) > 2 else "lib"
    hits = [f for f in fb.all(crate) if sys.argv[1] in f.name]
    for f in hits:
        print(mir.dump(f)); print()
