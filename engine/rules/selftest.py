"""Thorough tier: replay the recorded variants of /repo against this property's quick check.

  seeded/<id>/patch.diff  whose meta.json names this property (breaks_property, or listed in caught_by): the check must
                          report a violation on /repo + patch;
  seeded/benign/*.diff    behaviour-preserving refactorings: the check must stay silent on /repo + patch.

Nothing is executed but the static check itself, on scratch copies that are removed afterwards.  A variant whose patch no
longer applies to the current tree is skipped (noted).  A missed seed or a false alarm means this check cannot be trusted on
the current tree, and is reported (fail closed)."""
import concurrent.futures as cf
import glob
import json
import os
import shutil
import subprocess
import tempfile

VERIF = os.path.dirname(os.path.dirname(os.path.dirname(os.path.abspath(__file__))))


def _one(prop, kind, name, patch, repo):
    work = tempfile.mkdtemp(prefix="selftest-")
    evd = tempfile.mkdtemp(prefix="selftest-ev-")
    try:
        subprocess.check_call(["rsync", "-a", "--exclude", "target", "--exclude", ".git", repo.rstrip("/") + "/", work + "/"])
        r = subprocess.run(["patch", "-p1", "-s", "-f", "-d", work, "-i", patch], capture_output=True, text=True)
        if r.returncode != 0:
            return kind, name, "n/a", "patch does not apply to the current tree"
        env = dict(os.environ, VERIF_REPO=work, VERIF_EVIDENCE_DIR=evd, VERIF_TIER="quick", VERIF_NO_SELFTEST="1")
        r = subprocess.run([os.path.join(VERIF, "check"), prop, "--tier", "quick"], env=env, cwd=VERIF, capture_output=True, text=True)
        lines = [l.strip() for l in r.stdout.splitlines() if l.startswith("  ") and "/" in l]
        return kind, name, ("reported" if r.returncode != 0 else "silent"), "; ".join(x.split(":")[0] for x in lines[:4])
    finally:
        shutil.rmtree(work, ignore_errors=True)
        shutil.rmtree(evd, ignore_errors=True)


def run(ctx, jobs=10):
    if os.environ.get("VERIF_NO_SELFTEST"):
        return
    prop = ctx.prop
    repo = os.environ.get("VERIF_REPO", "/repo")
    items = []
    for d in sorted(glob.glob(os.path.join(VERIF, "seeded", "*"))):
        sid = os.path.basename(d)
        mp, pp = os.path.join(d, "meta.json"), os.path.join(d, "patch.diff")
        if sid == "benign" or not (os.path.exists(mp) and os.path.exists(pp)):
            continue
        meta = json.load(open(mp))
        if meta.get("breaks_property") == prop or any(c.get("property") == prop for c in meta.get("caught_by", [])):
            items.append(("seed", sid, pp))
    # behaviour-preserving variants: the ones written against this property (R-Cnn-*, K-Cnn-*) and the general ones (B*); the
    # whole set against every check is run by engine/benign_run.py (DESIGN.md 13.2)
    for pp in sorted(glob.glob(os.path.join(VERIF, "seeded", "benign", "*.diff"))):
        nm = os.path.basename(pp)[:-5]
        if nm.startswith("B") or ("-%s-" % prop) in nm:
            items.append(("benign", nm, pp))
    ctx.rule("selftest", "both-way self-test of this check: every recorded property-breaking variant is reported, every "
                         "recorded behaviour-preserving variant is silent")
    res = []
    with cf.ThreadPoolExecutor(max_workers=jobs) as ex:
        futs = [ex.submit(_one, prop, k, n, p, repo) for k, n, p in items]
        for f in futs:
            res.append(f.result())
    # an outcome against expectation is replayed once more, alone (a machine under load has produced one in a background run that
    # could not be reproduced): only an outcome that repeats is recorded
    for i, (kind, name, verdict, detail) in enumerate(res):
        if (kind == "seed" and verdict == "silent") or (kind == "benign" and verdict == "reported"):
            patch = next(p for k, n, p in items if k == kind and n == name)
            again = _one(prop, kind, name, patch, repo)
            if again[2] != verdict:
                res[i] = (kind, name, again[2], again[3] + " (first replay: %s)" % verdict)
    summary = {"seeds_reported": 0, "seeds_missed": [], "benign_silent": 0, "benign_alarms": [], "skipped": []}
    for kind, name, verdict, detail in res:
        ctx.inst("selftest", "%s/%s" % (kind, name), {"verdict": verdict, "rules": detail})
        if verdict == "n/a":
            summary["skipped"].append(name)
            continue
        if kind == "seed":
            ctx.oblige(verdict == "reported")
            if verdict == "reported":
                summary["seeds_reported"] += 1
            else:
                summary["seeds_missed"].append(name)
                # (a statement about this check, not about the tree under analysis: no verdict on the property)
                ctx.undecided("selftest", "seed/" + name, "self-test: the recorded property-breaking change seeded/%s is NOT reported "
                              "by this check on top of the current tree (the check has lost a detector, or the tree was restructured so that "
                              "the rule that caught it no longer applies)" % name)
        else:
            ctx.oblige(verdict == "silent")
            if verdict == "silent":
                summary["benign_silent"] += 1
            else:
                summary["benign_alarms"].append(name)
                ctx.undecided("selftest", "benign/" + name, "self-test: the behaviour-preserving variant seeded/benign/%s.diff raises "
                              "an alarm on top of the current tree (%s): the rule is too tight, or the current tree itself is reported" % (name, detail))
    ctx.extra_cov["selftest"] = summary
