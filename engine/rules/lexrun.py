"""Token tables of the reader: abstract evaluation of the lexer's MIR (machine.py, all scanner methods and helpers followed)
on short scripted character streams.  `lex(fb, text)` returns the list of tokens the lexer yields for `text`, each as
(kind, payload, [line, col]), ending with ("error", kind) or ("stuck", why) when the lexer reports an error / the evaluation
cannot be followed.  Independent of how the lexer is split into scanner functions."""
from . import absint, machine, mir
from .absint import Enum, UNKNOWN
from .machine import NOT, Machine, some, none, ok, err

LEX = "parser::lexer::Lexer::"


class Stream:
    def __init__(self, text):
        self.chars = [ord(c) for c in text]
        self.pos = 0


def _float(s):
    try:
        return float(s)
    except ValueError:
        return None


def lex(fb, text, max_tokens=12, raw=None, visited=None):
    """raw: a list that receives the abstract Result<Token> items as the lexer yields them (for feeding the parser); visited: a set that
    receives the names of the functions the run went through"""
    nxt = fb.find("<parser::lexer::Lexer as std::iter::Iterator>::next")
    lx = fb.adt("parser::lexer::Lexer")["variants"][0]["fields"]
    names = [f["name"] for f in lx]
    st = Stream(text)
    lexer = [UNKNOWN for _ in lx]
    lexer[names.index("current")] = none()
    lexer[names.index("peekable_char_stream")] = st
    lexer[names.index("location")] = [1, 1]

    def icpt(mc, c, a, tt, g):
        a0 = a[0] if a else None
        if a0 is st:
            if c.endswith("Peekable::peek") or c.endswith("Peekable::peek_mut"):
                return some(st.chars[st.pos]) if st.pos < len(st.chars) else none()
            if c.endswith("Peekable as std::iter::Iterator>::next"):
                if st.pos < len(st.chars):
                    st.pos += 1
                    return some(st.chars[st.pos - 1])
                return none()
            if c.endswith("Peekable::next_if") or c.endswith("Peekable::next_if_eq"):
                if st.pos >= len(st.chars):
                    return none()
                ch = st.chars[st.pos]
                take = mc.call_value(a[1], [ch]) if c.endswith("next_if") else (ch == absint.deref(a[1]))
                if take is True:
                    st.pos += 1
                    return some(ch)
                return none() if take is False else UNKNOWN
            end_ = c.rsplit("::", 1)[-1]
            if end_ in machine.ITER_METHODS and end_ not in ("next", "collect"):
                # any other iterator method straight on the character stream (find, position, all, skip_while ...): it consumes
                # from the stream as far as the method pulls
                class _View(machine.Iter):
                    def __init__(self):
                        self.items, self.pos = [], 0

                    def next(self):
                        if st.pos < len(st.chars):
                            st.pos += 1
                            return some(st.chars[st.pos - 1])
                        return none()

                    def rest(self):
                        r_ = st.chars[st.pos:]
                        st.pos = len(st.chars)
                        return r_
                r_ = mc._iter_model(c, end_, [_View()] + list(a[1:]), tt, g)
                if r_ is not NOT:
                    return r_
        if c.endswith("<impl str>::parse") or c.endswith("str::parse"):
            dty = g.local_ty(tt["dest"]["local"]) or ""
            gens = (tt.get("fn") or {}).get("generics") or []
            prims = ("i8", "i16", "i32", "i64", "u8", "u16", "u32", "u64", "usize", "isize", "f32", "f64")
            if gens and gens[0] not in prims:
                # parse::<N> inside a generic helper: N is what the helper was instantiated with at the call that entered it
                inst = [x for fr in reversed(mc.gen_stack) for x in reversed(fr) if x in prims]
                if inst:
                    dty = "Result<%s" % inst[0]
            elif gens:
                dty = "Result<%s" % gens[0]
            if isinstance(a0, str):
                if "Result<i32" in dty or "Result<u32" in dty or "Result<i64" in dty:
                    try:
                        v = int(a0)
                    except ValueError:
                        return err(mc_tok("ParseIntError"))
                    lim = 2 ** 31 if "i32" in dty else (2 ** 63 if "i64" in dty else 2 ** 32)
                    lo = 0 if "u32" in dty else -lim
                    return ok(v) if lo <= v < lim else err(mc_tok("ParseIntError"))
                f = _float(a0)
                return ok(("real", a0)) if f is not None else err(mc_tok("ParseFloatError"))
            return UNKNOWN
        return NOT

    def mc_tok(n):
        return ("error-token", n)
    if len(lx) > 3:
        # the lexer has state beyond (current, stream, location): let the crate's own constructor set it up
        ctor = fb.find("parser::lexer::Lexer::from_char_stream", required=False)
        if ctor is not None and not getattr(ctor, "missing", False):
            SRC = object()

            def icpt0(mc, c, a, tt, g):
                if a and a[0] is SRC and (c.endswith("::peekable") or c.endswith("::into_iter") or c.endswith("::fuse")):
                    return st if c.endswith("::peekable") else SRC
                return icpt(mc, c, a, tt, g)
            try:
                made = Machine(fb, intercept=icpt0, max_visits=8, budget=200).run(ctor, [SRC])
                fields_ = made.fields if isinstance(made, Enum) else made
                if isinstance(fields_, list) and len(fields_) == len(lx) and fields_[names.index("peekable_char_stream")] is st:
                    lexer = made
            except (absint.Stuck, absint.Loop):
                pass
    out = []
    for _ in range(max_tokens):
        mc = Machine(fb, intercept=icpt, max_visits=max(8, len(text) + 4), budget=600)
        try:
            r = mc.run(nxt, [lexer])
        except (absint.Stuck, absint.Loop) as e:
            if visited is not None:
                visited |= set(mc.visited)
            out.append(("stuck", str(e)))
            return out
        if visited is not None:
            visited |= set(mc.visited)
        if any(e[0] == "panic" for e in mc.events):
            out.append(("panic", [e[1] for e in mc.events if e[0] == "panic"][0], [e[2] for e in mc.events if e[0] == "panic" and len(e) > 2][:1]))
            return out
        if not isinstance(r, Enum):
            out.append(("stuck", "result %r" % (r,)))
            return out
        if r.variant == 0:      # None: end of input
            return out
        item = r.fields[0] if r.fields else None
        if raw is not None:
            raw.append(item)
        if not isinstance(item, Enum):
            out.append(("stuck", "item %r" % (item,)))
            return out
        if getattr(item, "name", None) == "Err" or item.variant == 1:
            kinds = [getattr(x, "name", None) for x in _enums(item)]
            out.append(("error", [k for k in kinds if k and k not in ("Err", "Located", "Some", "None", "Syntax", "Logic")][:2]))
            return out
        tok = item.fields[0]            # Located<TokenData> = [data, location]
        data, loc = (tok.fields[0], tok.fields[1]) if isinstance(tok, Enum) and len(tok.fields) == 2 else (tok[0], tok[1]) if isinstance(tok, list) else (tok, None)
        out.append(_describe(data) + (_loc(loc),))
    return out


def _loc(loc):
    if isinstance(loc, Enum) and loc.variant == 1 and loc.fields:
        v = loc.fields[0]
        return [absint.deref(x) for x in v] if isinstance(v, list) else v
    return None


def _enums(v, d=8):
    if d < 0:
        return
    if isinstance(v, Enum):
        yield v
        for x in v.fields:
            yield from _enums(x, d - 1)
    elif isinstance(v, list):
        for x in v:
            yield from _enums(x, d - 1)


def _describe(data):
    if not isinstance(data, Enum):
        return ("?", repr(data))
    n = getattr(data, "name", "?")
    if n == "Primitive" and data.fields and isinstance(data.fields[0], Enum):
        p = data.fields[0]
        pv = p.fields[0] if p.fields else None
        if getattr(p, "name", None) == "Rational" and len(p.fields) == 2:
            pv = (p.fields[0], p.fields[1])
        return (getattr(p, "name", "?"), pv)
    if n == "Identifier":
        return ("Identifier", data.fields[0] if data.fields else None)
    return (n, None)


# ------------------------------------------------------------------------------------------------ probes: the reader never panics

PROBES = [
    # strings: every escape class, the inline hex escape at the ends of every range of code points, unterminated forms
    '"a"', '"\\n"', '"\\t"', '"\\\\"', '"\\""', '"\\q"', '"\\x41;"', '"\\x;"', '"\\x0;"', '"\\xD7FF;"', '"\\xD800;"', '"\\xdfff;"',
    '"\\xE000;"', '"\\x10FFFF;"', '"\\x110000;"', '"\\xFFFFFFFF;"', '"\\x100000000;"', '"\\x41"', '"\\xZ;"', '"\\x', '"abc', '"\\',
    '"a\\\n   b"',
    # characters
    "#\\a", "#\\space", "#\\newline", "#\\x41", "#\\x", "#\\xD800", "#\\x110000", "#\\xFFFFFFFFF", "#\\", "#\\ ", "#\\λ", "#\\nul", "#\\spac",
    # sharp forms
    "#t", "#f", "#true", "#false", "#tru", "#(", "#u8(", "#u", "#u8", "#", "#;", "#|a|#", "#|a", "#!x", "#z", "#1", "#e1", "#x1F", "#b101",
    # |identifiers|
    "|a b|", "|a\\x41;b|", "|a\\xD800;|", "|a", "||", "|a\\|b|",
    # numbers at and beyond every limit
    "1/0", "1/", "/1", "1e", "1e+", "1e999", "-1e999", "1.5e-999", "99999999999", "-99999999999", "2147483648", "-2147483649", "1/99999999999",
    "1/4294967296", "99999999999/3", "1.2.3", "1..2", "+-1", "1+", "1e1e1", "00000000000000000000001", "0.00000000000000000000000000000000000000000000001",
    # punctuation
    "'", "`", ",", ",@", ".", "..", "...", "(", ")", "( . )", "[", "]", "{", "}", "\\", "@", "\x00", "\x7f", "\u00a0", "\u2028", "\ufeff",
]


def probe_rule(ctx, rule_id):
    """every probe text — boundary literals of every token class, unterminated and malformed forms — is tokenised to the end, into
    tokens or a reported error: the abstract run of the whole lexer must not reach a panic (unwrap on None, an index out of range,
    an arithmetic overflow assertion)"""
    from .ctx import where_of
    fb = ctx.fb()
    nx = fb.find("<parser::lexer::Lexer as std::iter::Iterator>::next")
    n = und = 0
    bad = []
    extra = [chr(0), chr(127), chr(0xa0), chr(0x2028), chr(0xfeff), "a" + chr(0) + "b", "\t", "\r", "\r\n", ";", "; c", ";\n"]
    for text in [x for x in PROBES if not x.startswith("\\x0") and not x.startswith("\\x7") and not x.startswith("\\u")] + extra:
        for tail in (" ", ""):
            toks = lex(fb, text + tail, max_tokens=8)
            if toks and toks[-1][0] == "panic":
                bad.append((text + tail, toks[-1][1]))
            elif toks and toks[-1][0] == "stuck":
                und += 1
            else:
                n += 1
    ctx.inst(rule_id, "reader-probes", {"texts": n, "not_followed": und, "panics": len(bad)})
    if und and not n:
        ctx.undecided(rule_id, "reader-probes", "the lexer could not be followed on any probe text", where_of(nx))
    ctx.oblige(not bad)
    seen = set()
    for text, why in bad:
        key = "reader-probes/%s" % why.split(" in ")[-1][:60]
        if key in seen:
            continue
        seen.add(key)
        ctx.report(rule_id, key, "reading the text %r panics (%s) instead of yielding tokens or a reported error" % (text, why), where_of(nx))
    return n


# ------------------------------------------------------------------------------------------------ token locations after every kind of layout

LOCATION_TEXTS = [
    ("plain", "m1 (m2\n  12 \"s\")\nm3"),
    ("multi-line-constructs", "\"ab\ncd\" m1\n\"e\\nf\" m2 ; c (\n|g\nh| m3"),
    ("comments", "; whole line (\nm1 ; trailing\n;\n; two\nm2 ;; x\n  m3"),
    ("crlf", "m1\r\n  m2 ; c\r\nm3"),
    ("blank-lines-and-tabs", "\n\n\tm1\n \t m2\n\nm3"),
    ("comment-last", "m1 m2\nm3 ; no newline at the end"),
]


def rule_token_locations(ctx, rule):
    """every marker token m1 m2 m3 of six texts — after strings, |identifiers| and comments that span lines, line comments of
    every shape, CRLF line ends, blank lines and tabs — is located at the position just after its last character
    (line, 1-based column): what a diagnostic prints is derived from these"""
    from .ctx import where_of
    import re
    fb = ctx.fb()
    nx = fb.find("<parser::lexer::Lexer as std::iter::Iterator>::next")
    decided = 0
    for label, text in LOCATION_TEXTS:
        key = "token-location/%s" % label
        toks = lex(fb, text, max_tokens=30)
        if toks and toks[-1][0] in ("stuck", "panic"):
            ctx.undecided(rule, key, "cannot follow the lexer on %r (%s)" % (text, toks[-1][1]), where_of(nx))
            continue
        if toks and toks[-1][0] == "error":
            ctx.undecided(rule, key, "the lexer rejects %r on this tree (%s)" % (text, toks[-1][1]), where_of(nx))
            continue
        want = []
        for m in re.finditer(r"m[123]", text):
            i = m.end() - 1
            line = 1 + text[:i + 1].count("\n")
            col = i + 1 - (text[:i + 1].rfind("\n") + 1) + 1
            want.append((m.group(0), [line, col]))
        got = [(t[1], t[2]) for t in toks if t[0] == "Identifier" and t[1] in ("m1", "m2", "m3")]
        decided += 1
        ctx.inst(rule, key, {"tokens": got})
        ctx.oblige(got == want)
        if got != want:
            ctx.report(rule, key, "the tokens m1 m2 m3 of %r are located %s, expected each at the position just after its last character: %s — "
                       "every diagnostic of a program laid out like this names another line / column" % (text, got, want), where_of(nx))
    return decided


def token_locations_verdict(fb):
    """the token-location rows above as one verdict: True (every marker of every text where it must be), False (some marker misplaced:
    -> (False, text, got, want)), None (the lexer cannot be followed on some text)"""
    import re
    for label, text in LOCATION_TEXTS:
        toks = lex(fb, text, max_tokens=30)
        if toks and toks[-1][0] in ("stuck", "panic", "error"):
            return None
        want = []
        for m in re.finditer(r"m[123]", text):
            i = m.end() - 1
            want.append((m.group(0), [1 + text[:i + 1].count("\n"), i + 1 - (text[:i + 1].rfind("\n") + 1) + 1]))
        got = [(t[1], t[2]) for t in toks if t[0] == "Identifier" and t[1] in ("m1", "m2", "m3")]
        if got != want:
            return (False, text, got, want)
    return True


SLICE_TEXTS = ['"ab\ncd" m1 ', '"\u00e9\n\u03bbx" m1 ', '"a\n" m1 ', '"\n\n" m1 ', '"\n" m1 ', '"abc" m1 ', '"" m1 ', '; c\n12 1.5e3 1/2 m1 ', '"x\u4e2d\n\u4e2d" m1 ',
               '|a\nb| m1 ', '"\n\u00e9" m1 ', '"a\r\nb" m1 ']
_SLICE_CACHE = {}


def slice_probes(fb):
    """texts with line breaks and multi-byte characters inside strings, |identifiers| and after comments, through the whole lexer:
    -> (rows [(text, outcome)], visited function names); outcome 'ok' | ('panic', msg, fn) | ('stuck', why)"""
    if id(fb) in _SLICE_CACHE:
        return _SLICE_CACHE[id(fb)]
    vis, rows = set(), []
    for label, text in LOCATION_TEXTS:
        SLICE = text + " "
        toks = lex(fb, SLICE, max_tokens=30, visited=vis)
        rows.append((SLICE, toks[-1] if toks and toks[-1][0] in ("panic", "stuck") else "ok"))
    for text in SLICE_TEXTS:
        toks = lex(fb, text, max_tokens=30, visited=vis)
        rows.append((text, toks[-1] if toks and toks[-1][0] in ("panic", "stuck") else "ok"))
    _SLICE_CACHE[id(fb)] = (rows, vis)
    return rows, vis
