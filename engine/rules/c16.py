"""C16 — Printed values read back as the same values (narrow structural part: printer/reader table agreement)."""
from . import mir, absint
from .mir import callee, callee_matches, Prov
from .ctx import where_of
from . import c06

EXPLANATION = (
    "A necessary condition of the round trip: the printer's and the reader's tables agree.  Fifteen value "
    "skeletons with opaque leaves are printed by abstract interpretation of the crate's Display impls (formatting "
    'model: format_args templates, Display chosen by value type), the leaves are filled with atoms and the text '
    'is lexed by the abstract lexer run: booleans, characters, vectors, proper / dotted / nested lists, the empty '
    'list, integers, ratios (payload order numerator/denominator) read back as tokens of the same structure; the '
    'formatter chosen for each numeric payload; exact text of list skeletons (` . ` only before a non-pair tail); '
    'ten number spellings through the lexer; non-positive denominators are never built (C09-denominator-sign re- '
    'run). (real value classes) every test of a real payload against a constant of the real type (max_value, '
    'infinity, is_nan ...) is explored both ways and the paths are checked on ten classes of reals: a finite real '
    'prints as its own digits and nothing else. Characters incl. quote, backslash, #, |, tab and non-ASCII.')
NOT_DECIDED = ("the round trip itself (read(print(v)) = v for every value), injectivity of printing, and std's float "
               "formatting/parsing — that is most of the property.")

LEX = "parser::lexer::Lexer::"


def variant_formats(fb, f, adt, payloads=None):
    """{variant name (or name(payload)): [format pieces ...]} by abstract evaluation of each arm."""
    out = {}
    for i, vn in fb.variants(adt):
        pls = (payloads or {}).get(vn, [absint.UNKNOWN])
        for pl in pls:
            fmts = []

            def on_block(b, env):
                for cb, t, pieces, kinds, ops in mir.format_calls(f, [b]):
                    fmts.append((pieces, kinds, ops, t))
            env = {1: absint.Enum(i, [pl, absint.UNKNOWN]), 2: absint.UNKNOWN}
            try:
                absint.run_fragment(f, 0, env, oracle=lambda *a: None, on_block=on_block, stuck_ok=True)
            except absint.Loop:
                pass
            key = vn if pl is absint.UNKNOWN else "%s(%s)" % (vn, pl)
            out[key] = fmts
    return out


def lex_tokens(fb, text):
    """Token the lexer's try_next produces for a short literal text (None at end), via the C06 scripted tables."""
    tn = fb.find(LEX + "try_next")
    chars = [ord(c) for c in text]
    env = {1: [absint.Enum(0, []), absint.UNKNOWN, [1, 1]]}
    out = c06.scripted(tn, chars, None, env)[0]
    used = c06.scripted.state["adv"]
    if out.startswith("tok:") and used != len(chars):
        return out + "+%d unread character(s)" % (len(chars) - used)
    return out


def run(ctx):
    fb = ctx.fb()
    c06.scripted.fb = fb
    ctx.trust("rustc nightly MIR and this toolchain's fmt::Arguments template encoding; std's Display for i32 and Debug for the "
              "real type (alphabets as documented)")
    vf = fb.find("<values::Value as std::fmt::Display>::fmt")
    nf = fb.find("<values::Number as std::fmt::Display>::fmt")
    rf = fb.find("<values::ValueReference as std::fmt::Display>::fmt")
    pf = fb.find("<parser::pair::GenericPair as std::fmt::Display>::fmt")

    # ------------------------------------------------------------------ C16-token-tables
    ctx.rule("C16-token-tables", "every literal piece the printer emits is read as the token of the same class")
    # Printer x reader agreement, by abstract evaluation of both sides (printtables.py / lexrun.py): value skeletons with opaque
    # leaves are printed; the text (leaves filled with atoms) is handed to the lexer; the token classes must be those of the
    # skeleton: #t / #f, parentheses, `#(`, whitespace between elements, ` . ` exactly before a non-list tail.
    from . import printtables, lexrun
    d_pt = 0
    for label, v, want in printtables.rows(fb):
        t = printtables.print_value(fb, v)
        key = "print-read/%s" % label
        if isinstance(t, tuple):
            ctx.undecided("C16-token-tables", key, "cannot follow the printer on this skeleton (%s)" % t[1], where_of(vf))
            continue
        txt, holes = printtables.fill(t)
        if any(not (type(getattr(h, "value", None)).__name__ == "Tok" and str(getattr(h.value, "tag", getattr(h.value, "name", ""))).startswith("x")) for h in holes):
            # a part of the text that is not one of the skeleton's own leaves: text the printer model does not know
            ctx.undecided("C16-token-tables", key, "the printed text of this skeleton has parts that are not known text (%r)" % (t,), where_of(vf))
            continue
        toks = lexrun.lex(fb, txt)
        if toks and toks[-1][0] == "stuck":
            ctx.undecided("C16-token-tables", key, "cannot follow the lexer on the printed text %r (%s)" % (txt, toks[-1][1]), where_of(vf))
            continue
        d_pt += 1
        got = [(k, pl) for k, pl, *_ in toks]
        ctx.inst("C16-token-tables", key, {"printed": repr(t), "read_as": [g[0] for g in got]})
        ctx.oblige(got == want)
        if got != want:
            ctx.report("C16-token-tables", key, "the value %s is printed as %r, which the reader tokenises as %s; expected %s" % (
                label, txt, got, want), where_of(vf))
    # whole values: printed, quoted, read back by the crate's own lexer and parser, compared as structures
    ctx.rule("C16-read-back", "the printed text of a value (lists, dotted tails, vectors, nestings, and lists headed by the symbols the reader's "
                              "abbreviations stand for, in every context), prefixed with ' and read by the crate's own reader, is (quote V) "
                              "with V the same structure")
    printtables.rule_readback(ctx, "C16-read-back")
    ctx.rule("C16-real-read-back", "finite reals of every magnitude print as text the crate's reader takes for the same binary32 number, "
                                   "still inexact (the printer's formatting calls are modelled on std's shortest-digits algorithm)")
    printtables.rule_real_readback(ctx, "C16-real-read-back")
    ctx.rule("C16-ratio-read-back", "exact ratios of both signs, reduced or not (arithmetic does not reduce: (- 1/4 3/4) prints -8/16), print "
                                    "as text that the reader and the interpreter's literal conversion turn into an exact number of the same "
                                    "value (48 ratios)")
    printtables.rule_ratio_readback(ctx, "C16-ratio-read-back")
    # characters: `#\` followed by the character itself
    m_ = printtables.Mk(fb)
    for ch in "a(1 ;\"'\\#|\t\u03bb":
        t = printtables.print_value(fb, m_.value("Character", ord(ch)))
        key = "print-read/char-%d" % ord(ch)
        if isinstance(t, tuple) or not isinstance(t, str):
            ctx.undecided("C16-token-tables", key, "cannot follow the printer on a character (%r)" % (t,), where_of(vf))
            continue
        toks = lexrun.lex(fb, t + " ")
        got = [(k, pl) for k, pl, *_ in toks]
        ctx.inst("C16-token-tables", key, {"printed": t, "read_as": got})
        if toks and toks[-1][0] == "stuck":
            ctx.undecided("C16-token-tables", key, "cannot follow the lexer on %r" % t, where_of(vf))
        elif got[:1] != [("Character", ord(ch))]:
            ctx.report("C16-token-tables", "Character/read", "the character %r is printed as %r, which reads as %s" % (ch, t, got), where_of(vf))
    # numbers: Integer = the integer alone, Rational = numerator `/` denominator (that order), each read back as that class
    # (the holes are std's Display of an i32 / u32: every text -?[0-9]+ in range; rows: a small value and the ends of the range)
    I, Rt = (lambda: m_.number("Integer", printtables.Tok("n"))), (lambda: m_.number("Rational", printtables.Tok("n"), printtables.Tok("d")))
    num_rows = [("Integer", I(), ["42"], [("Integer", 42)]), ("Rational", Rt(), ["7", "9"], [("Rational", (7, 9))])]
    for txt_n in ("0", "-1", "2147483647", "-2147483648", "-2147483647"):
        num_rows.append(("Integer/%s" % txt_n, I(), [txt_n], [("Integer", int(txt_n))]))
    for txt_n, txt_d in (("-7", "9"), ("2147483647", "2"), ("-2147483648", "3"), ("1", "4294967295"), ("-2147483647", "2147483647")):
        num_rows.append(("Rational/%s/%s" % (txt_n, txt_d), Rt(), [txt_n, txt_d], [("Rational", (int(txt_n), int(txt_d)))]))
    for label, v, fillv, want_tok in num_rows:
        t = printtables.print_value(fb, v)
        key = "print-read/%s" % label
        if isinstance(t, tuple):
            ctx.undecided("C16-token-tables", key, "cannot follow the printer (%s)" % t[1], where_of(nf))
            continue
        txt, holes = printtables.fill(t, atom=lambda i, h: fillv[i] if i < len(fillv) else "0")
        order_ok = [getattr(h.value, "tag", None) for h in holes] == (["n"] if label.startswith("Integer") else ["n", "d"])
        toks = lexrun.lex(fb, txt + " ")
        got = [(k, pl) for k, pl, *_ in toks]
        ctx.inst("C16-token-tables", key, {"printed": repr(t), "read_as": got})
        if toks and toks[-1][0] == "stuck":
            ctx.undecided("C16-token-tables", key, "cannot follow the lexer on %r" % txt, where_of(nf))
        elif got != want_tok or not order_ok:
            ctx.oblige(False)
            ctx.report("C16-token-tables", key, "%s numbers are printed as %r (payload order %s): %r is read back as %s, expected %s" % (
                label.split("/")[0], t, [getattr(h.value, "tag", None) for h in holes], txt, got, want_tok), where_of(nf))
        else:
            ctx.oblige(True)
    def _old_tables():
        vfmt = variant_formats(fb, vf, "values::Value", {"Boolean": [False, True]})

        def lits(key):
            return ["".join(p for p in pieces if isinstance(p, str)) for pieces, k, o, t in vfmt.get(key, [])]
        for val, key in ((True, "Boolean(True)"), (False, "Boolean(False)")):
            ls = lits(key)
            got = lex_tokens(fb, ls[0]) if len(ls) == 1 else None
            ctx.inst("C16-token-tables", key, {"printed": ls, "read_as": got})
            if got != "tok:Primitive:Boolean:%s" % val:
                ctx.report("C16-token-tables", key, "%s is printed as %s, which the reader takes as %s" % (key, ls, got), where_of(vf))
        # characters
        cp = [pieces for pieces, k, o, t in vfmt.get("Character", [])]
        if len(cp) != 1 or [x for x in cp[0] if isinstance(x, str)] != ["#\\"] or len(cp[0]) != 2 or isinstance(cp[0][1], str):
            ctx.report("C16-token-tables", "Character", "characters are printed with the template %s, expected `#\\{}`" % cp, where_of(vf))
        else:
            bad = []
            for c in "a(1 ;\"":
                got = lex_tokens(fb, "#\\" + c)
                if not got.startswith("tok:Primitive:Character"):
                    bad.append((c, got))
            ctx.inst("C16-token-tables", "Character", {"template": "#\\{}", "misread": bad})
            if bad:
                ctx.report("C16-token-tables", "Character/read", "printed characters are misread: %s" % bad, where_of(vf))
        # vectors
        vp = [pieces for pieces, k, o, t in vfmt.get("Vector", [])]
        ok = len(vp) == 1 and [x for x in vp[0] if isinstance(x, str)] == ["#(", ")"] and len(vp[0]) == 3
        got_open = lex_tokens(fb, "#(") if ok else None
        got_close = lex_tokens(fb, ")")
        ctx.inst("C16-token-tables", "Vector", {"template": vp, "open_read_as": got_open, "close_read_as": got_close})
        if not ok or got_open != "tok:VecConsIntro" or got_close != "tok:RightParen":
            ctx.report("C16-token-tables", "Vector", "vectors are printed with %s (reader: %s ... %s)" % (vp, got_open, got_close), where_of(vf))
        # element separator of vectors: the &str handed to itertools::join
        seps = []
        for g in [rf] + fb.closures_of(rf):
            for b, t in g.calls():
                if callee_matches(t, "itertools::join", "Itertools::join"):
                    seps.append(mir.str_of(g, t["args"][-1]))
        ws = c06.R7RS_WS
        ctx.inst("C16-token-tables", "Vector/separator", seps)
        if len(seps) != 2 or any(s is None or s == "" or any(ord(ch) not in ws for ch in s) for s in seps):
            ctx.report("C16-token-tables", "Vector/separator", "vector elements are separated by %s (must be whitespace the reader skips)" % seps, where_of(rf))
        # elements are printed with their own Display (nested structure preserved)
        for g in fb.closures_of(rf):
            fcs = [x for x in mir.format_calls(g)]
            if not fcs or any([p for p in x[2] if isinstance(p, str)] for x in fcs if x[2]):
                ctx.report("C16-token-tables", "Vector/element", "vector elements are decorated when printed (%s)" % [x[2] for x in fcs], where_of(g))
        # transparent variants: Number, Symbol, Pair print their payload only
        for vn in ("Number", "Symbol", "Pair"):
            ps = [pieces for pieces, k, o, t in vfmt.get(vn, [])]
            plain = len(ps) == 1 and len(ps[0]) == 1 and not isinstance(ps[0][0], str)
            ctx.inst("C16-token-tables", vn, {"template": ps})
            if not plain:
                ctx.report("C16-token-tables", vn, "%s values are printed with decoration %s" % (vn, ps), where_of(vf))
        # lists
        pieces_all = [(b, pieces, kinds, ops) for b, t, pieces, kinds, ops in mir.format_calls(pf)]
        texts = ["".join(p if isinstance(p, str) else "{}" for p in pcs) for b, pcs, k, o in pieces_all if pcs]
        ctx.inst("C16-token-tables", "Pair/pieces", texts)
        if sorted(texts) != sorted(["(", "{}", " ", " . {}", ")"]):
            ctx.report("C16-token-tables", "Pair/pieces", "lists are printed with the pieces %s, expected ( {} ' ' ' . {}' )" % texts, where_of(pf))
        else:
            if lex_tokens(fb, "(") != "tok:LeftParen" or lex_tokens(fb, ")") != "tok:RightParen":
                ctx.report("C16-token-tables", "Pair/parens", "printed parentheses are not read as parentheses", where_of(pf))
            tn = fb.find(LEX + "try_next")
            env = {1: [absint.Enum(0, []), absint.UNKNOWN, [1, 1]]}
            dot = c06.scripted(tn, [ord(".")], ord(" "), env)[0]
            if dot != "tok:Period":
                ctx.report("C16-token-tables", "Pair/dot", "` . ` is read as %s, not as a Period" % dot, where_of(pf))
    ctx.guarded('C16-token-tables', d_pt >= 15, _old_tables)

    # ------------------------------------------------------------------ C16-number-alphabet
    ctx.rule("C16-number-alphabet", "printed numbers stay inside the alphabet the number scanner accepts")
    # which std formatter prints each numeric payload (printer evaluated abstractly: the payload is a hole that remembers how
    # it was formatted): integers and both ratio components with Display, reals with Debug (keeps the `.0` / exponent form)
    for vn, payload, want_kinds in (("Integer", [printtables.Tok("n")], ["display"]), ("Rational", [printtables.Tok("n"), printtables.Tok("d")], ["display", "display"]),
                                    ("Real", [printtables.Tok("r")], ["debug"])):
        t = printtables.print_value(fb, m_.number(vn, *payload))
        if isinstance(t, tuple) and vn == "Real":
            # the printer tests the real against constants of its type (special spellings for infinities / NaN): explore the tests
            import math
            paths = printtables.real_print_paths(fb)
            stuck = [p_ for p_ in paths if "stuck" in p_]
            if stuck or not paths:
                ctx.undecided("C16-number-alphabet", vn, "cannot follow the printer on a Real (%s)" % (stuck[0]["stuck"] if stuck else t[1]), where_of(nf))
                continue
            bad_r = None
            for cname, x in printtables.REAL_CLASSES:
                hit = [p_ for p_ in paths if all(printtables.real_holds(c_, x) for c_ in p_["conds"])]
                finite = not (math.isnan(x) or math.isinf(x))
                for p_ in hit[:1]:
                    tx = p_["text"]
                    hs = [q for q in (tx.parts if not isinstance(tx, str) else []) if not isinstance(q, str)]
                    lit = "".join(q for q in (tx.parts if not isinstance(tx, str) else [tx]) if isinstance(q, str))
                    if finite and not ([h.kind for h in hs] == ["debug"] and lit == "") and bad_r is None:
                        bad_r = "%s is printed as %r (tests taken: %s), expected its own digits (the real type's Debug form) and nothing else" % (
                            cname, lit if not hs else tx, [(c_[0], c_[1], c_[2], c_[3]) for c_ in p_["conds"]])
                if finite and not hit and bad_r is None:
                    bad_r = "%s: no path of the printer accepts it" % cname
            ctx.inst("C16-number-alphabet", vn, {"paths": len(paths), "value_classes": len(printtables.REAL_CLASSES)})
            ctx.oblige(bad_r is None)
            if bad_r:
                ctx.report("C16-number-alphabet", "Real/value-classes", "a finite real does not print as itself: " + bad_r, where_of(nf))
            continue
        if isinstance(t, tuple):
            ctx.undecided("C16-number-alphabet", vn, "cannot follow the printer on a %s (%s)" % (vn, t[1]), where_of(nf))
            continue
        holes = [p for p in (t.parts if not isinstance(t, str) else []) if not isinstance(p, str)]
        lits = "".join(p for p in (t.parts if not isinstance(t, str) else [t]) if isinstance(p, str))
        kinds = [h.kind for h in holes]
        ctx.inst("C16-number-alphabet", vn, {"literal_text": lits, "payload_formatters": kinds})
        ok_ = kinds == want_kinds and lits == ("/" if vn == "Rational" else "")
        ctx.oblige(ok_)
        if not ok_:
            ctx.report("C16-number-alphabet", vn, "%s is printed with literal text %r and payload formatters %s, expected %r with %s" % (
                vn, lits, kinds, "/" if vn == "Rational" else "", want_kinds), where_of(nf))
    # the reader accepts what those formatters emit: a sign only in front, `/` then digits, `.` / `e` / a signed exponent
    for text, want in (("-3 ", ("Integer", -3)), ("7/9 ", ("Rational", (7, 9))), ("-7/9 ", ("Rational", (-7, 9))), ("1.5 ", ("Real", "1.5")),
                       ("-0.25 ", ("Real", "-0.25")), ("1e-5 ", ("Real", "1e-5")), ("1.5e3 ", ("Real", "1.5e3")), ("1e21 ", ("Real", "1e21")),
                       ("5e-39 ", ("Real", "5e-39")), ("0.0 ", ("Real", "0.0"))):
        toks = lexrun.lex(fb, text)
        got = toks[0][:2] if toks else None
        key = "scanner/%s" % text.strip()
        if toks and toks[-1][0] == "stuck":
            ctx.undecided("C16-number-alphabet", key, "cannot follow the lexer on %r (%s)" % (text, toks[-1][1]), where_of(nf))
            continue
        ctx.inst("C16-number-alphabet", key, {"read_as": got})
        ctx.oblige(got == want)
        if got != want:
            ctx.report("C16-number-alphabet", key, "the printed number %r is read as %s, expected %s" % (text.strip(), toks, want), where_of(nf))
    # a negative denominator must never be printed: the sign analysis of C09
    from .ctx import Ctx
    sub = Ctx("C09", ctx.tier, ctx.seed)
    sub._fb = ctx._fb
    from . import c09
    c09.range_and_sign(sub, fb)
    neg = [r for r in sub.reports if r["rule"] == "C09-denominator-sign"]
    ctx.inst("C16-number-alphabet", "denominator-sign", {"ratio_constructions_with_nonpositive_denominator": len(neg)})
    for r in neg:
        ctx.report("C16-number-alphabet", "negative-denominator/" + r["key"].split("/", 1)[1], "a ratio with a non-positive denominator can "
                   "be built and would be printed as n/-d, which the reader rejects: " + r["msg"], r["where"])

    # ------------------------------------------------------------------ C16-real-literal
    ctx.rule("C16-real-literal", "every finite real the printer can emit is accepted back: the conversion of a real literal rejects "
                                 "nothing but unparsable text (and, at most, non-finite values)")
    ep = fb.find("interpreter::interpreter::Interpreter::eval_primitive")
    pv = {n: i for i, n in fb.variants("parser::datum::Primitive")}
    sw = next(iter(mir.discriminant_switches(ep, "Primitive")), None)
    if not sw:
        ctx.undecided("C16-real-literal", "shape", "eval_primitive does not dispatch on Primitive", where_of(ep))
    else:
        reg = mir.dominated_region(ep, sw[3].get(pv["Real"], sw[4]))
        fs = [ep] + [c for c in fb.closures_of(ep)]
        parses = [t for _, t in ep.calls(reg) if callee_matches(t, "<impl str>::parse")]
        if not parses:
            # the conversion may have moved into a helper called from this arm
            for _, t in ep.calls(reg):
                h = fb.by_path(callee(t) or "")
                if h is not None:
                    fs.append(h)
                    fs.extend(fb.closures_of(h))
                    parses += [tt for _, tt in h.calls() if callee_matches(tt, "<impl str>::parse")]
        suspicious = []
        for g in fs:
            blocks = reg if g is ep else None
            for b, t in g.calls(blocks):
                c = callee(t) or ""
                d = mir.callee_decl(t) or ""
                if callee_matches(t, "Option::filter", "Option::take_if", "Option::is_some_and", "Option::is_none_or"):
                    suspicious.append(c)
                if d.startswith("std::cmp::PartialOrd::") or d.startswith("std::cmp::PartialEq::"):
                    suspicious.append(d)
                if any(x in d for x in ("min_positive_value", "max_value", "min_value", "epsilon", "Float::classify", "is_normal", "is_subnormal")):
                    suspicious.append(d)
            if g is not ep:
                for b, i, st in g.stmts():
                    if st["k"] == "assign" and st["rv"]["k"] == "binop" and st["rv"]["op"] in ("Lt", "Le", "Gt", "Ge") and "f" in str(st["rv"].get("lty")):
                        suspicious.append("float comparison")

        ctx.inst("C16-real-literal", "eval_primitive/Real-arm", {"parse_calls": len(parses), "value_dependent_rejections": sorted(set(suspicious))})
        if len(parses) != 1:
            ctx.undecided("C16-real-literal", "parse", "real literals are not converted by exactly one str::parse in eval_primitive or a "
                          "helper it calls (%d found)" % len(parses), where_of(ep))
        if suspicious:
            ctx.report("C16-real-literal", "rejection", "the conversion of a real literal rejects values by comparison (%s): some finite real that the "
                       "printer emits (e.g. a subnormal like 5e-39) may not read back" % sorted(set(suspicious)), where_of(ep))

    # ------------------------------------------------------------------ C16-dotted
    ctx.rule("C16-dotted", "dotted tail only for improper lists; single spaces between elements")
    # decided by the list rows of the print/read table above: (a b c), (a . b), (a b . c), (a ()), ((a) b) print with single
    # spaces and ` . ` exactly before a non-list tail; exact text:
    d_dot = 0
    for label, v, _w in printtables.rows(fb):
        if not label.startswith("("):
            continue
        t = printtables.print_value(fb, v)
        if isinstance(t, tuple):
            continue
        txt, _h = printtables.fill(t, atom=lambda i, h: "abc"[i])
        d_dot += 1
        ctx.inst("C16-dotted", "text/%s" % label, {"printed": txt})
        ctx.oblige(txt == label)
        if txt != label:
            ctx.report("C16-dotted", "text/%s" % label, "the list %s is printed as %r" % (label, txt), where_of(pf))
    def _old_dotted():
        pieces_all = [(b, pieces, kinds, ops) for b, t, pieces, kinds, ops in mir.format_calls(pf)]
        dom = pf.dominators()
        by_text = {}
        for b, pcs, k, o in pieces_all:
            by_text["".join(p if isinstance(p, str) else "{}" for p in pcs)] = b
        esw = [x for x in mir.discriminant_switches(pf) if x[2].endswith("either::Either")]
        gsw = [x for x in mir.discriminant_switches(pf) if x[2].endswith("GenericPair")]
        if not esw or " . {}" not in by_text or " " not in by_text:
            ctx.report("C16-dotted", "shape", "list printer shape not recognised", where_of(pf))
        else:
            ev = {n: i for i, n in fb.variants("either::Either")} if "either::Either" in fb.adts else {"Left": 0, "Right": 1}
            sb, place, adt, targets, other = esw[0]
            right_t = targets.get(1, other)
            left_t = targets.get(0, other)
            dot_ok = right_t in dom[by_text[" . {}"]] and left_t not in dom[by_text[" . {}"]]
            # the space: on the Left edge and only when the next pair is Some
            sp_b = by_text[" "]
            gv = {n: i for i, n in fb.variants("parser::pair::GenericPair")}
            some_guard = False
            for sb2, pl2, a2, tg2, ot2 in gsw:
                st = tg2.get(gv["Some"])
                if st is not None and st in dom[sp_b] and sb2 in pf.reachable(left_t):
                    some_guard = True
            sp_ok = left_t in dom[sp_b] and some_guard
            ctx.inst("C16-dotted", "edges", {"dot_only_on_non_pair_cdr": dot_ok, "space_only_before_next_pair": sp_ok})
            if not dot_ok:
                ctx.report("C16-dotted", "dot", "` . ` is not written exactly on the non-pair cdr edge", where_of(pf))
            if not sp_ok:
                ctx.report("C16-dotted", "space", "the element separator is not written exactly when another pair follows", where_of(pf))
            # the dotted tail ends the loop
            loops = pf.loops()
            if loops and loops[0][0] in pf.reachable(by_text[" . {}"]) and mir.paths_avoiding(pf, by_text[" . {}"], [loops[0][0]], []) is not None:
                ctx.report("C16-dotted", "dot-continues", "after the dotted tail the printer keeps iterating", where_of(pf))
    ctx.guarded('C16-dotted', d_dot >= 7, _old_dotted)
    return EXPLANATION, NOT_DECIDED
