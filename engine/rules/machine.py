"""Abstract evaluation of MIR over a finite token domain, interprocedural.

Built on absint.run_fragment.  Values: ints / bools / str, Enum(variant, fields) (Option, Result, the crate's enums), lists
(tuples, structs, arrays, vectors), Closure, Map (hash maps / sets keyed by tokens or strings), Iter (iterators over abstract
lists) and opaque tokens (any other Python object; compared by identity).  References are transparent.

A call is answered, in this order, by (1) the client's `intercept` — this is where a rule plugs symbolic tokens in, e.g. "the
value of evaluating T" for Interpreter::eval_expression(T, env); (2) a model of the std API (Option / Result combinators,
`?`, closures, iterators, slices and vectors, maps, comparisons); (3) the body of the callee if it is a function of the
crate (followed to a budget); otherwise the result is UNKNOWN.  Control that depends on UNKNOWN raises Stuck: the client
records "undecided" for that table row, never a verdict.

What this is for: extracting the *decision table* of a mechanism (which sub-form is evaluated, which frame is written, which
error is built) over symbolic inputs, in a way that does not depend on how the code is split into helpers, on recursion vs
loops, or on `match` vs combinators."""
from . import absint, mir
from .absint import Enum, UNKNOWN, Stuck, Loop, Closure
from .mir import callee

NOT = object()


def some(x):
    e = Enum(1, [x])
    e.name = "Some"
    return e


def none():
    e = Enum(0, [])
    e.name = "None"
    return e


def ok(x):
    e = Enum(0, [x])
    e.name = "Ok"
    return e


def err(x):
    e = Enum(1, [x])
    e.name = "Err"
    return e


def is_opt(v):
    # (the crate's cons cell is GenericPair::Some / Empty: a variant called Some of another type is not an Option)
    return isinstance(v, Enum) and getattr(v, "name", None) in ("Some", "None") and "Option" in (getattr(v, "adt", None) or "Option")


def is_res(v):
    return isinstance(v, Enum) and getattr(v, "name", None) in ("Ok", "Err")


class Iter:
    def __init__(self, items):
        self.items = list(items)
        self.pos = 0

    def next(self):
        if self.pos < len(self.items):
            self.pos += 1
            return some(self.items[self.pos - 1])
        return none()

    def rest(self):
        r = self.items[self.pos:]
        self.pos = len(self.items)
        return r


import os as _os
TRACE = bool(_os.environ.get("VERIF_TRACE"))


class SymOrdering:
    """the (Option of an) ordering of two symbolic values: what `partial_cmp` answers when a client table keeps the operands
    symbolic; `lt` / `le` / `gt` / `ge` built on it become tests on the two operands"""
    def __init__(self, l, r):
        self.l, self.r = l, r

    def __repr__(self):
        return "(cmp %r %r)" % (self.l, self.r)


class LazyIter(Iter):
    """an iterator adaptor: items are produced (and the closures behind them run) when the consumer asks, as in Rust"""
    def __init__(self, gen):
        self.gen = gen
        self.items, self.pos = [], 0

    def next(self):
        try:
            return some(next(self.gen))
        except StopIteration:
            return none()

    def rest(self):
        return list(self.gen)


class FromFn(Iter):
    """std::iter::from_fn(f): every next() is a call of f"""
    def __init__(self, mc, fnv):
        self.mc, self.fnv, self.fused, self.done = mc, fnv, False, False
        self.items, self.pos = [], 0

    def next(self):
        if self.fused and self.done:
            return none()
        r = self.mc.call_value(self.fnv, [])
        if isinstance(r, Enum) and r.variant == 0:
            self.done = True
        if not isinstance(r, Enum):
            raise Stuck("from_fn: the closure's answer is not known to be Some / None")
        return r

    def rest(self):
        out = []
        for _ in range(10000):
            r = self.next()
            if r.variant == 0:
                return out
            out.append(r.fields[0])
        raise Stuck("an iterator made by from_fn is consumed without an end")


def drain(it):
    """pull the items of an Iter one at a time"""
    while True:
        r = it.next()
        if not isinstance(r, Enum) or r.variant == 0:
            return
        yield r.fields[0]


class Map:
    def __init__(self, pairs=()):
        self.d = {}
        for k, v in pairs:
            self.d[key_of(k)] = (k, v)

    def __repr__(self):
        return "Map(%s)" % ", ".join("%r: %r" % kv for kv in self.d.values())


def key_of(k):
    k = absint.deref(k)
    if isinstance(k, (str, int, bool)):
        return ("v", k)
    if isinstance(k, float):
        return ("v", k) if k == k else ("nan", id(k))       # (NaN equals nothing, itself included)
    if isinstance(k, list):
        return ("l",) + tuple(key_of(x) for x in k)
    if isinstance(k, Enum):
        return ("e", k.variant) + tuple(key_of(x) for x in k.fields)
    return ("id", id(k))


def copy_spine(v, depth=60):
    """structural copy of the Enum / list spine of a value; leaves (strings, numbers, opaque tokens) are shared"""
    if depth <= 0:
        return v
    if isinstance(v, Enum):
        e = Enum(v.variant, [copy_spine(x, depth - 1) for x in v.fields])
        for k in ("name", "adt"):
            if hasattr(v, k):
                setattr(e, k, getattr(v, k))
        return e
    if type(v) is list:
        return [copy_spine(x, depth - 1) for x in v]
    return v


CELL_ADT = "parser::pair::GenericPair"


def has_cells(v, depth=40):
    """does the value hold cons cells of the crate's list type (outside reference-counted storage)?"""
    if depth <= 0:
        return False
    if isinstance(v, Enum):
        adt = getattr(v, "adt", None) or ""
        if adt == CELL_ADT:
            return True
        if adt.endswith("ValueReference"):
            return False                       # Rc<..> storage: shared by clone
        return any(has_cells(x, depth - 1) for x in v.fields)
    if type(v) is list:
        return any(has_cells(x, depth - 1) for x in v)
    return False


def copy_cells(v, depth=60):
    """a clone that does not share cons cells with the original (they are taken apart in place by the consuming iterators): every
    Enum / list on a path to a cell is copied, everything else — leaves, sub-structures without cells, Rc storage — is shared"""
    if depth <= 0 or not has_cells(v):
        return v
    if isinstance(v, Enum):
        e = Enum(v.variant, [copy_cells(x, depth - 1) for x in v.fields])
        for k in ("name", "adt", "gmap"):
            if hasattr(v, k):
                setattr(e, k, getattr(v, k))
        return e
    if type(v) is list:
        return [copy_cells(x, depth - 1) for x in v]
    return v


def plain_of(x):
    """the concrete string / integer an abstract value stands for, or the value itself"""
    x = absint.deref(x)
    if isinstance(x, Text):
        return x.flat()
    return x


def veq(a, b):
    if a is UNKNOWN or b is UNKNOWN:
        return UNKNOWN
    return key_of(a) == key_of(b)


def variant_named(v, fallback):
    return getattr(v, "name", None) or fallback


class Machine:
    def __init__(self, fb, intercept=None, inline=None, max_visits=6, budget=400, on_store=None, crate="lib"):
        self.fb = fb
        self.intercept = intercept
        self.gmap_stack = []
        self.inline = inline or (lambda name: True)
        self.max_visits = max_visits
        self.budget = budget
        self.on_store = on_store
        self.crate = crate
        self.events = []
        self.stack = []
        self.visited = set()
        self.gen_stack = []

    # ------------------------------------------------------------------ running
    def run(self, g, args, generics=None):
        if self.budget <= 0:
            raise Loop("evaluation budget exhausted")
        self.budget -= 1
        if len(self.stack) > 24:
            raise Loop("call depth")
        self.stack.append(g.name)
        self.gen_stack.append(generics or [])
        gp = getattr(g, "generic_params", None) or []
        self.gmap_stack.append(dict(zip(gp, generics)) if generics and len(gp) == len(generics) else {})
        self.visited.add(g.name)
        try:
            env = {i + 1: v for i, v in enumerate(args)}
            absint.POINTERS = True
            absint.FN_CONST = lambda cc: FnItem(mir.norm(cc["fn"].get("resolved") or cc["fn"]["def"]))
            kind, b, env2 = absint.run_fragment(g, 0, env, oracle=lambda ff, bb, tt, e: self._oracle(g, bb, tt, e),
                                                max_visits=self.max_visits, on_store=self.on_store, max_blocks=3000)
            if kind == "diverge":
                self.events.append(("diverge", g.name))
                return UNKNOWN
            return env2.get(0, UNKNOWN)
        finally:
            self.stack.pop()
            self.gen_stack.pop()
            self.gmap_stack.pop()
            if not self.stack:
                absint.POINTERS = False
                absint.FN_CONST = None

    def run_tagged(self, h, raw, generics):
        """run a crate function; a struct / enum of the crate it returns remembers what the function's type parameters stood for, so
        that a trait method called on it later — `next` of an iterator it created — can be instantiated the same way"""
        r = self.run(h, raw, generics=generics)
        gp = getattr(h, "generic_params", None) or []
        if isinstance(r, Enum) and getattr(r, "adt", None) and generics and len(gp) == len(generics) and not hasattr(r, "gmap"):
            m_ = {k_: v_ for k_, v_ in zip(gp, generics) if isinstance(v_, str) and "::" in v_}
            if m_:
                r.gmap = m_
        return r

    def subst_generics(self, gens):
        """the generic arguments of a call with the enclosing function's own parameters replaced by what it was instantiated with"""
        if not gens:
            return gens
        m = self.gmap_stack[-1] if self.gmap_stack else {}
        if not m:
            return gens
        import re as _re
        out = []
        for x in gens:
            x = str(x)
            for name, ty in m.items():
                if name and name[0].isalpha():
                    x = _re.sub(r"(?<![A-Za-z0-9_:])%s(?![A-Za-z0-9_])" % _re.escape(name), lambda _m, ty=str(ty): ty, x)
            out.append(x)
        return out

    @staticmethod
    def top_args(ty):
        """top-level generic arguments of `Path<A, B<C>, D>` -> [A, B<C>, D]"""
        if "<" not in ty or not ty.endswith(">"):
            return []
        inner = ty[ty.index("<") + 1:-1]
        out, depth, cur = [], 0, ""
        for ch in inner:
            if ch in "<([":
                depth += 1
            elif ch in ">)]":
                depth -= 1
            if ch == "," and depth == 0:
                out.append(cur.strip())
                cur = ""
            else:
                cur += ch
        if cur.strip():
            out.append(cur.strip())
        return out

    def unify_impl_generics(self, f, target, method_generics):
        """generic arguments for a method of `impl<P..> Trait for Type<P..>` called on the concrete type `target`: the impl's
        parameters are read off by aligning the impl's self type with the target, the method's own parameters follow"""
        gp = getattr(f, "generic_params", None) or []
        pat = self.top_args((f.self_ty or "").replace("ruschm::", ""))
        act = self.top_args(target.replace("ruschm::", ""))
        m = {}
        if len(pat) == len(act):
            for p_, a_ in zip(pat, act):
                if p_ in gp:
                    m[p_] = a_
        out, rest = [], list(method_generics)
        for name in gp:
            if name in m:
                out.append(m[name])
            elif rest:
                out.append(rest.pop(0))
            else:
                out.append(name)
        return out

    def resolve_by_type(self, c, tt):
        gens = self.subst_generics((tt.get("fn") or {}).get("generics"))
        if not gens:
            return None
        selfty = str(gens[0]).replace("&mut ", "").replace("&", "").strip()
        if not selfty or not ("::" in selfty):
            return None              # still a bare parameter name: not known in this frame
        meth = c.rsplit("::", 1)[-1]
        trait = mir.norm(c.rsplit("::", 1)[0]).split("<")[0]

        def same(t1, t2):
            import re as _re
            strip = lambda t: _re.sub(r"'[a-z_]+,? ?", "", (t or "").replace("ruschm::", "")).replace(" ", "").replace("&mut", "").replace("&", "")
            a_, b_ = strip(t1), strip(t2)
            if a_ == b_:
                return True
            # an impl for every instantiation (`impl<T> .. for Located<T>`): its arguments are bare type parameters
            if "<" in a_ and "<" in b_ and a_.split("<", 1)[0] == b_.split("<", 1)[0]:
                params_ = a_.split("<", 1)[1].rstrip(">")
                return bool(params_) and all(_re.fullmatch(r"[A-Z][A-Za-z0-9]*", x_) for x_ in params_.split(","))
            return False
        cands = [f for f in self.fb.all(self.crate) if f.name.endswith("::" + meth) and f.trait and mir.norm(f.trait).split("<")[0] == trait and
                 f.self_ty and same(f.self_ty, selfty)]
        if len(cands) > 1 and len(gens) > 1:
            # several impls of the trait for this type (From<A>, From<B>): the one whose parameter has the argument's type
            want = gens[1]
            c2 = [f for f in cands if f.arg_count >= 1 and same(f.local_ty(1) or "", want)]
            if len(c2) == 1:
                cands = c2
        return cands[0] if len(cands) == 1 else None

    def invoke(self, name, args):
        """a call made on behalf of a std / library model (e.g. the element comparison inside `all_equal`): client intercept first,
        then the models"""
        synth = {"k": "call", "fn": {"def": name, "resolved": name, "generics": [], "local": False}, "args": [], "argtys": [],
                 "dest": {"local": 0, "proj": []}, "span": ""}
        a = [absint.deref(x) for x in args]
        if self.intercept is not None:
            r = self.intercept(self, name, a, synth, None)
            if r is not NOT:
                return r
        r = self._model(name, a, synth, None)
        return UNKNOWN if r is NOT else r

    def call_closure(self, clo, args):
        g = self.fb.by_path(clo.fn, self.crate) if isinstance(clo, Closure) else None
        if g is None:
            return UNKNOWN
        return self.run(g, [clo] + list(args))

    def call_value(self, fnv, args):
        """apply a callable abstract value (closure, or a fn item given as a string name)"""
        if isinstance(fnv, Closure):
            return self.call_closure(fnv, args)
        if isinstance(fnv, FnItem):
            if self.intercept is not None:
                synth = {"k": "call", "fn": {"def": fnv.name, "resolved": fnv.name, "generics": [], "local": False}, "args": [], "argtys": [],
                         "dest": {"local": 0, "proj": []}, "span": ""}
                r = self.intercept(self, fnv.name, [absint.deref(x) for x in args], synth, None)
                if r is not NOT:
                    return r
            g = self.fb.by_path(fnv.name, self.crate)
            if g is not None:
                return self.run(g, list(args))
            if fnv.name.endswith("::to_string") and "ToString" in fnv.name and args:
                return self.display(absint.deref(args[0]), "")            # `.map(ToString::to_string)`
            # a tuple-variant / tuple-struct constructor used as a function: `.map(Self::AST)`, `.map(Some)`
            if "::" in fnv.name:
                adt_path, vname = fnv.name.rsplit("::", 1)
                if vname in ("Some", "Ok", "Err") and (adt_path.endswith(("Option", "Result")) or "prelude::" in adt_path):
                    return {"Some": some, "Ok": ok, "Err": err}[vname](args[0] if args else UNKNOWN)
                try:
                    vs = self.fb.variants(mir.norm(adt_path))
                except Exception:
                    vs = None
                if vs:
                    for vi, vn in vs:
                        if vn == vname:
                            e = Enum(vi, list(args))
                            e.name, e.adt = vn, mir.norm(adt_path)
                            return e
            r = self._model(fnv.name, list(args), None, None)
            return UNKNOWN if r is NOT else r
        return UNKNOWN

    def _oracle(self, g, bb, tt, env):
        if TRACE:
            r = self._oracle0(g, bb, tt, env)
            import sys as _s
            _s.stderr.write("%s%s @%s bb%d -> %s\n" % ("  " * len(self.stack), (callee(tt) or "?")[-70:], g.name.rsplit("::", 1)[-1], bb, repr(r)[:140]))
            return r
        return self._oracle0(g, bb, tt, env)

    def _oracle0(self, g, bb, tt, env):
        c = callee(tt) or ""
        if "cmp::impls::<impl std::cmp::Partial" in c and " for &" in c and c.rsplit("::", 1)[-1] in (
                "eq", "ne", "lt", "le", "gt", "ge", "partial_cmp") and (tt.get("fn") or {}).get("def"):
            # comparison of two references: std's `impl PartialEq<&B> for &A` / `PartialOrd<&B> for &A` compare what they point to
            fn_ = dict(tt["fn"])
            fn_["resolved"] = None
            fn_["generics"] = [(str(x)[1:].lstrip() if str(x).startswith("&") else x) for x in (fn_.get("generics") or [])]
            fn_["generics"] = [(x[4:] if isinstance(x, str) and x.startswith("mut ") else x) for x in fn_["generics"]]
            tt2_ = dict(tt, fn=fn_)
            c2_ = callee(tt2_) or fn_["def"]
            meth_ = c2_.rsplit("::", 1)[-1]
            probe_ = c2_ if meth_ in ("eq", "partial_cmp") else (c2_.rsplit("::", 1)[0] + ("::eq" if meth_ == "ne" else "::partial_cmp"))
            h_ = self.resolve_by_type(probe_, tt2_)
            if h_ is not None and not h_.derived:
                tt, c = tt2_, c2_          # a comparison written by hand in the crate decides (it may ignore fields)
        raw = [self._operand(env, x) for x in tt["args"]]
        a = [absint.deref(x) for x in raw]
        if self.intercept is not None:
            self.cur_raw = raw               # (a client model that writes through a `&mut` argument needs the reference itself)
            r = self.intercept(self, c, a, tt, g)
            if r is not NOT:
                return r
        if c.endswith("::fmt") and ("fmt::Display" in c or "fmt::Debug" in c) and len(a) == 2 and isinstance(a[1], Sink) and \
                (a[0] is UNKNOWN or not isinstance(a[0], (Enum, list, str, int, bool, Text))):
            # an opaque token handed to a Display / Debug impl directly (`inner.fmt(f)`): it prints as itself
            a[1].parts.append(Hole(a[0], "", "display" if "Display" in c else "debug"))
            return ok([])
        r = self._fmt_model(c, a, raw, tt, g, env)
        if r is not NOT:
            return r
        if c.startswith("std::thread::LocalKey::") and c.rsplit("::", 1)[-1] in ("with", "try_with") and len(raw) == 2 and g is not None:
            # a thread-local cell: one slot per key for the whole run (every interpreter instance of the run sees the same slot, as
            # on one thread), initialised by running the key's own initialiser
            key = mir.tls_key(g, tt)
            if key is None:
                raise Stuck("a thread-local whose key cannot be identified")
            if not hasattr(self, "tls_slots"):
                self.tls_slots, self.tls_env = {}, {}
            if key not in self.tls_slots:
                k0 = mir.norm(key)
                inits = [h for h in self.fb.all(self.crate) if h.arg_count <= 1 and (h.name.startswith(k0 + "::") or mir.norm(h.name).startswith(k0 + "::"))
                         and ("__init" in h.name or "init_fn" in h.name) and "{closure" not in h.name]
                if len(inits) != 1:
                    raise Stuck("no initialiser found for the thread-local %s" % key)
                self.tls_slots[key] = len(self.tls_slots)
                self.tls_env[self.tls_slots[key]] = self.run(inits[0], [none()] if inits[0].arg_count == 1 else [])
            cell = absint.Ptr(self.tls_env, {"local": self.tls_slots[key], "proj": []})
            r_ = self.call_value(a[1], [cell])
            return ok(r_) if c.endswith("try_with") else r_
        if c in ("std::mem::take", "std::mem::replace", "std::mem::swap", "core::mem::take", "core::mem::replace", "core::mem::swap"):
            return self._mem_model(c.rsplit("::", 1)[-1], raw, a)
        if c.endswith("String::split_off") and len(a) == 2:
            tgt, cur = raw[0], a[0]
            if isinstance(tgt, absint.Ptr) and isinstance(cur, str) and isinstance(a[1], int) and not isinstance(a[1], bool) and 0 <= a[1] <= len(cur.encode("utf-8")):
                head_ = cur.encode("utf-8")[:a[1]].decode("utf-8", "strict")
                tgt.set(head_)
                return cur[len(head_):]
            raise Stuck("String::split_off on a string / at an index that is not known")
        if c.endswith("String::pop"):
            tgt, cur = raw[0], a[0]
            if isinstance(tgt, absint.Ptr) and isinstance(cur, str):
                if not cur:
                    return none()
                tgt.set(cur[:-1])
                return some(ord(cur[-1]))
            return UNKNOWN
        if c.endswith("String::clear") or c.endswith("String::truncate"):
            tgt, cur = raw[0], a[0]
            if isinstance(tgt, absint.Ptr) and isinstance(cur, str):
                tgt.set("" if c.endswith("clear") else (cur[:a[1]] if isinstance(a[1], int) else cur))
                return []
            return UNKNOWN
        if c.endswith("String::push") or c.endswith("String::push_str") or c.endswith("String::insert") or c.endswith("String::insert_str"):
            tgt, cur = raw[0], a[0]
            if isinstance(tgt, absint.Ptr) and isinstance(cur, (str, Text)):
                piece = a[-1]
                piece = chr(piece) if isinstance(piece, int) and not isinstance(piece, bool) else piece
                if isinstance(piece, str) and isinstance(cur, str):
                    if "insert" in c.rsplit("::", 1)[-1]:
                        i = a[1] if isinstance(a[1], int) else 0
                        tgt.set(cur[:i] + piece + cur[i:])
                    else:
                        tgt.set(cur + piece)
                    return []
                if piece is not UNKNOWN and piece is not None and not isinstance(piece, (str, Text, Hole, list, bool, int, float, Enum, Map, Iter)):
                    piece = Hole(piece)          # an opaque token standing for a text (the rendering of an opaque value)
                if isinstance(piece, (str, Text, Hole)) and "insert" not in c.rsplit("::", 1)[-1]:
                    # text with opaque parts (the rendering of an opaque value): appended as it is
                    tgt.set(Text([cur, piece]).flat())
                    return []
            if isinstance(cur, Text) and "insert" not in c.rsplit("::", 1)[-1]:
                # (a text with opaque parts is an object of its own: every alias sees the appended piece)
                piece = a[-1]
                piece = chr(piece) if isinstance(piece, int) and not isinstance(piece, bool) else piece
                if piece is not UNKNOWN and piece is not None and not isinstance(piece, (str, Text, Hole, list, bool, int, float, Enum, Map, Iter)):
                    piece = Hole(piece)
                if isinstance(piece, (str, Text, Hole)):
                    cur.parts[:] = Text([Text(list(cur.parts)), piece]).parts
                    return []
            if isinstance(tgt, absint.Ptr) or isinstance(cur, Text):
                raise Stuck("%s with a piece / a string that is not known text (%s onto %s)" % (c.rsplit("::", 1)[-1], type(a[-1]).__name__, type(cur).__name__))
            return UNKNOWN
        if c and raw and (tt.get("fn") or {}).get("resolved") is None and ((self.gmap_stack and self.gmap_stack[-1]) or
                                                                             c.rsplit("::", 1)[0].endswith(("cmp::PartialEq", "cmp::PartialOrd"))):
            # a trait method on a generic type whose instantiation is known from the enclosing calls: an impl written in the crate
            # takes precedence over the std pass-through models (`From` / `Into` / `Deref` ...)
            h0 = self.resolve_by_type(c, tt)
            if h0 is not None and h0.derived and not (self.gmap_stack and self.gmap_stack[-1]):
                h0 = None               # (a derived comparison is the structural one: the model below is exact for it)
            if h0 is not None and self.inline(c):
                return self.run_tagged(h0, raw, self.subst_generics((tt.get("fn") or {}).get("generics")))
        if c.rsplit("::", 1)[-1] in ("lt", "le", "gt", "ge") and c.rsplit("::", 1)[0].endswith("cmp::PartialOrd") and len(raw) == 2:
            # the provided methods of PartialOrd on a type whose partial_cmp is written in the crate: that partial_cmp decides
            h_pc = self.resolve_by_type(c.rsplit("::", 1)[0] + "::partial_cmp", tt)
            if h_pc is not None and self.inline(h_pc.name):
                op_ = c.rsplit("::", 1)[-1]
                r = self.run(h_pc, raw, generics=self.subst_generics((tt.get("fn") or {}).get("generics")))
                if isinstance(r, SymOrdering):
                    if absint.SYM_COMPARE is None:
                        raise Stuck("a comparison of symbolic values with no table to decide it")
                    saved_ = (absint.CUR_F[0], absint.CUR_B[0])
                    absint.CUR_F[0], absint.CUR_B[0] = None, None          # (not a test sitting at a terminator of the current function)
                    try:
                        return absint.SYM_COMPARE(op_, r.l, r.r)
                    finally:
                        absint.CUR_F[0], absint.CUR_B[0] = saved_
                o_ = None
                if isinstance(r, Enum) and getattr(r, "name", None) == "None":
                    return False                                # incomparable: every one of < <= > >= is false
                if isinstance(r, Enum) and r.fields:
                    x_ = r.fields[0]
                    o_ = {"Less": -1, "Equal": 0, "Greater": 1}.get(getattr(x_, "name", None)) if isinstance(x_, Enum) else (
                        (-1 if x_ == 255 else x_) if isinstance(x_, int) and not isinstance(x_, bool) and x_ in (-1, 0, 1, 255) else None)
                if o_ is None:
                    if r is UNKNOWN:
                        return UNKNOWN
                    raise Stuck("`%s` through %s: no ordering (%r)" % (op_, h_pc.name, r))
                return {"lt": o_ < 0, "le": o_ <= 0, "gt": o_ > 0, "ge": o_ >= 0}[op_]
        if c.endswith("cmp::PartialEq::ne") and len(raw) == 2:
            # the provided method `ne` of a type whose `eq` is written (or derived) in the crate: `!eq(a, b)` with THAT eq — a
            # hand-written eq may ignore fields, so structural comparison of the abstract values is not the answer
            h_eq = self.resolve_by_type(c[:-2] + "eq", tt)
            if h_eq is not None and self.inline(h_eq.name):
                r = self.run(h_eq, raw, generics=self.subst_generics((tt.get("fn") or {}).get("generics")))
                if isinstance(r, bool):
                    return not r
                if r is UNKNOWN:
                    return UNKNOWN
                raise Stuck("`ne` through %s: no boolean answer" % h_eq.name)
        r = self._model(c, a, tt, g)
        if r is not NOT:
            return r
        h = (self.fb.by_call(tt, self.crate) or self.fb.by_path(c, self.crate)) if c else None
        if h is None and c.startswith("ruschm::") and self.crate != "lib":
            # the binary calling into the library crate: followed there (lookups inside it are the library's)
            h_lib = self.fb.by_path(c[len("ruschm::"):], "lib") or self.fb.by_path(mir.norm(c[len("ruschm::"):]), "lib")
            if h_lib is not None and self.inline(c):
                saved_crate = self.crate
                self.crate = "lib"
                try:
                    return self.run_tagged(h_lib, raw, self.subst_generics((tt.get("fn") or {}).get("generics")))
                finally:
                    self.crate = saved_crate
        if h is None and c and (tt.get("fn") or {}).get("resolved") is None and raw:
            # a trait method called on a generic type: instantiate the type with what the enclosing calls were instantiated with
            h = self.resolve_by_type(c, tt)
        if h is None and c and (tt.get("fn") or {}).get("resolved") is None and raw:
            # a trait method called on a generic receiver: dispatch on the abstract value's type
            recv = a[0]
            adt = getattr(recv, "adt", None) if isinstance(recv, Enum) else None
            if adt:
                meth = c.rsplit("::", 1)[-1]
                trait = c.rsplit("::", 1)[0]
                cands = [f for f in self.fb.all(self.crate) if f.name.endswith("::" + meth) and f.self_ty and
                         mir.norm(f.self_ty).split("<")[0] == adt and (f.trait is None or mir.norm(f.trait).split("<")[0] == trait or trait.endswith(mir.norm(f.trait).split("<")[0]))]
                if len(cands) > 1 and recv.fields and isinstance(recv.fields[0], Enum) and getattr(recv.fields[0], "adt", None):
                    inner = recv.fields[0].adt              # Located<X>: pick the impl for this X
                    cands = [f for f in cands if inner in f.self_ty.replace("ruschm::", "") or inner in f.name]
                if len(cands) == 1:
                    h = cands[0]
        if h is not None and "{closure#" in h.name.rsplit("::", 1)[-1] and len(raw) == 2 and type(a[1]) is list and len(a[1]) == h.arg_count - 1:
            # a closure of the crate called by name: the caller hands (closure, tuple of the arguments), the body takes them one by one
            raw = [raw[0]] + list(a[1])
        if h is not None and self.inline(c):
            return self.run_tagged(h, raw, self.subst_generics((tt.get("fn") or {}).get("generics")))
        if h is None and c and any(isinstance(x, Closure) for x in a):
            # an external call we have no model for that is handed a closure: the closure would have run (with whatever it
            # captured); pretending it did not could leave a wrong state behind
            raise Stuck("no model for %s, which is handed a closure" % c)
        if h is None and c:
            # an external call we have no model for: if it is handed a `&mut` to abstract state it may change it behind our back
            # — refuse to continue (the row becomes UNDECIDED) rather than compute with stale state
            for x, ty in zip(raw, tt.get("argtys") or []):
                if ty.startswith("&mut ") and (isinstance(absint.deref(x), (list, Map, Enum, Iter)) or
                                              (isinstance(x, absint.Ptr) and isinstance(absint.deref(x), str))) and not ty.startswith("&mut std::fmt::Formatter"):
                    raise Stuck("no model for %s, which takes a mutable reference to abstract state" % c)
        if tt.get("fn") is None and a:                      # call through a fn pointer / closure value held in a local
            fv = absint.operand(env, tt["func"]) if isinstance(tt.get("func"), dict) else UNKNOWN
            if isinstance(fv, (Closure, FnItem)):
                return self.call_value(fv, a)
        return None

    def _snapshot(self, v):
        if isinstance(v, Enum):
            e = Enum(v.variant, list(v.fields))
            for k in ("name", "adt"):
                if hasattr(v, k):
                    setattr(e, k, getattr(v, k))
            return e
        if type(v) is list:
            return list(v)
        if isinstance(v, Map):
            m2 = Map()
            m2.d = dict(v.d)
            return m2
        return v

    def _default_of(self, v):
        if isinstance(v, Enum):
            if is_opt(v):
                return none()
            adt = getattr(v, "adt", None)
            if adt:
                cands = [f for f in self.fb.all(self.crate) if f.name.endswith("::default") and f.self_ty and mir.norm(f.self_ty).split("<")[0] == adt]
                if len(cands) == 1:
                    return self.run(cands[0], [])
            return None
        if type(v) is list:
            return []
        if isinstance(v, Map):
            return Map()
        if isinstance(v, str):
            return ""
        if isinstance(v, bool):
            return False
        if isinstance(v, int):
            return 0
        return None

    def _assign(self, target_raw, cur, new):
        if isinstance(target_raw, absint.Ptr):
            target_raw.set(new)
            return True
        if isinstance(cur, Map) and isinstance(new, Map):
            cur.d = dict(new.d)
            return True
        return absint.become(cur, new)

    def _mem_model(self, op, raw, a):
        if op == "take":
            old = self._snapshot(a[0])
            dv = self._default_of(a[0])
            if dv is None or not self._assign(raw[0], a[0], dv):
                raise Stuck("mem::take of a value whose default is unknown")
            return old
        if op == "replace":
            old = self._snapshot(a[0])
            # (the value moved in is the object itself when the place is a slot that can hold it; a copy when the place's own object
            # has to become it)
            if isinstance(raw[0], absint.Ptr):
                raw[0].set(a[1])
            elif not self._assign(raw[0], a[0], self._snapshot(a[1])):
                raise Stuck("mem::replace on an opaque place")
            return old
        if op == "swap":
            x, y = self._snapshot(a[0]), self._snapshot(a[1])
            if not (self._assign(raw[0], a[0], y) and self._assign(raw[1], a[1], x)):
                raise Stuck("mem::swap on opaque places")
            return []
        return UNKNOWN

    # ------------------------------------------------------------------ formatting
    def _fmt_model(self, c, a, raw, tt, g, env):
        end = c.rsplit("::", 1)[-1]
        if "fmt::rt::Argument::new_" in c:
            gens = (tt.get("fn") or {}).get("generics") or []
            ty = next((x for x in gens if not x.startswith("'")), "")
            return FmtArg(end.replace("new_", ""), a[0] if a else UNKNOWN, ty.lstrip("&"))
        if c.endswith("fmt::Arguments::new") or c.endswith("fmt::Arguments::new_v1"):
            tmpl = a[0] if a else None
            if isinstance(tmpl, Bytes):
                pieces = mir.fmt_template(tmpl.bs)
            else:
                # the template may reach us through a reference local: trace the constant statically
                cst = mir.trace_const(g, tt["args"][0])
                pieces = mir.fmt_template(cst["bytes"]) if cst and "bytes" in cst else None
            if pieces is None:
                return UNKNOWN
            args = a[1] if len(a) > 1 and isinstance(a[1], list) else []
            parts = []
            for p in pieces:
                if isinstance(p, str):
                    parts.append(p)
                else:
                    arg_ = args[p[1]] if p[1] is not None and p[1] < len(args) else UNKNOWN
                    if (len(p) > 3 and p[3] or p[2] is not None) and isinstance(arg_, FmtArg) and isinstance(arg_.value, float):
                        arg_ = FmtArg(arg_.kind, Tok_float(arg_.value), arg_.ty)       # width / precision / flags given: text not modelled
                    parts.append(arg_)
            return FmtArguments(parts)
        if end in ("from_str", "from_str_nonconst", "new_const") and "fmt::Arguments" in c:
            v = a[0] if a else None
            if isinstance(v, list) and len(v) == 1:
                v = v[0]
            return FmtArguments([v]) if isinstance(v, str) else UNKNOWN
        if c in ("alloc::fmt::format", "std::fmt::format") or c.endswith("fmt::format") or c.endswith("fmt::format::format_inner"):
            if isinstance(a[0], FmtArguments):
                return self.render(a[0])
            return UNKNOWN
        if c in ("itertools::join", "itertools::Itertools::join") or c.endswith("Itertools::join"):
            src_ = a[0]
            if not isinstance(src_, Iter) and (isinstance(src_, PeekableIt) or (isinstance(src_, Enum) and getattr(src_, "adt", None))):
                src_ = self.materialize(src_) or src_           # an iterator implemented in the crate: its own `next` is run
            items = src_.rest() if isinstance(src_, Iter) else (src_ if type(src_) is list and "Vec<" in str((tt or {}).get("argtys", [""])[0]) else None)
            sep = a[1] if len(a) > 1 else ""
            if items is None or not isinstance(sep, str):
                if isinstance(a[0], (Enum, list)):
                    raise Stuck("join over an iterator that cannot be enumerated")
                return UNKNOWN
            parts = []
            for i, it in enumerate(items):
                if i:
                    parts.append(sep)
                it = absint.deref(it)
                # (join writes every item with its Display impl)
                parts.append(it if isinstance(it, (str, Text)) else (self.display(it, "", "display") if isinstance(it, Enum) and getattr(it, "adt", None)
                                                                     else Hole(it)))
            return Text(parts).flat()
        if c.endswith("Formatter::write_fmt") or (end == "write_fmt" and ("io::Write" in c or "fmt::Write" in c)):
            if len(a) > 1 and isinstance(a[1], FmtArguments):
                txt = self.render(a[1], sink=a[0])
                self.events.append(("write", a[0], txt))
                if isinstance(a[0], Sink):
                    a[0].parts.append(txt)
                return ok([])
            return UNKNOWN
        if c.endswith("Formatter::write_str") or c.endswith("Formatter::write_char") or (end in ("write_str", "write_char") and "fmt::Write" in c):
            piece = a[1] if len(a) > 1 else None
            piece = chr(piece) if isinstance(piece, int) and not isinstance(piece, bool) else piece
            self.events.append(("write", a[0], piece))
            if isinstance(a[0], Sink):
                a[0].parts.append(piece)
            return ok([])
        if c.endswith("Formatter::pad") and len(a) > 1:
            self.events.append(("write", a[0], a[1]))
            if isinstance(a[0], Sink):
                a[0].parts.append(a[1])
            return ok([])
        return NOT

    def display(self, value, ty, kind="display"):
        """text of `value` as its Display / Debug impl in the crate prints it: Text with holes for opaque parts"""
        if isinstance(value, Text):
            return value
        if value is UNKNOWN or not isinstance(value, (Enum, list, str, int, bool, float)):
            return Text([Hole(value, ty, kind)]).flat()            # an opaque token prints as itself
        if isinstance(value, float):
            from . import rustfloat
            txt_ = rustfloat.fmt(value, kind, 64 if "f64" in (ty or "") else 32)
            return txt_ if txt_ is not None else Text([Hole(value, ty, kind)]).flat()
        if isinstance(value, (str,)):
            return value if kind == "display" else repr(value)
        if isinstance(value, bool):
            return "true" if value else "false"
        if isinstance(value, int):
            if ty == "char":
                return chr(value)
            tyn = (ty or "").replace("&", "").replace("mut ", "").strip()
            if tyn in PRIM_INTS:
                return str(value)
            if "dyn " in tyn or not tyn or tyn in ("T", "U", "V"):
                # a character and an integer are the same abstract value: printed through a type that does not say which
                # (`&dyn Display`), the text is not known
                return Text([Hole(value, ty, kind)]).flat()
            return str(value)
        base = mir.norm(ty).split("<")[0] if ty else ""
        if isinstance(value, Enum) and getattr(value, "adt", None):
            base = value.adt              # the abstract value knows its type better than a generic `T`
        trait = "std::fmt::Display" if kind == "display" else "std::fmt::Debug"
        cands = [f for f in self.fb.all(self.crate) if f.trait and f.name.endswith("::fmt") and trait in f.name and f.self_ty and
                 base and (mir.norm(f.self_ty).split("<")[0] == base or mir.norm(f.self_ty).split("<")[0].endswith("::" + base.rsplit("::", 1)[-1]))]
        if base.startswith("std::boxed::Box") and "<" in ty:
            return self.display(value, ty[ty.index("<") + 1:-1], kind)
        if len(cands) == 1 and len(self.stack) < 20:
            sink = Sink()
            self.run(cands[0], [value, sink])
            return Text(sink.parts).flat()
        return Text([Hole(value, ty, kind)]).flat()

    def render(self, fa, sink=None):
        parts = []
        for p in fa.parts:
            if isinstance(p, FmtArg):
                parts.append(self.display(p.value, p.ty, p.kind))
            else:
                parts.append(p)
        return Text(parts).flat()

    def _operand(self, env, o):
        if o["k"] == "const":
            cc = o["c"]
            if "fn" in cc:
                return FnItem(mir.norm(cc["fn"].get("resolved") or cc["fn"]["def"]))
            if cc.get("bytes") is not None and cc.get("val") is None:
                return Bytes(cc["bytes"])
            pb = cc.get("promoted_body")
            if pb is not None and cc.get("val") is None:
                try:
                    pf = mir.Func({"path": "promoted", "raw": "promoted", "kind": "Promoted", "vis": "Private", "span": "", "mir": pb}, "lib")
                    kind, b, e2 = absint.run_fragment(pf, 0, {}, oracle=lambda *x: None, max_visits=1)
                    v = e2.get(0, UNKNOWN)
                    if v is not UNKNOWN:
                        return absint.deref(v)
                except Exception:
                    pass
            ps = cc.get("promoted_strs")
            if ps and len(ps) == 1 and cc.get("val") is None:
                return ps[0]
        return absint.operand(env, o)

    # ------------------------------------------------------------------ std models
    def _model(self, c, a, tt, g):
        a0 = a[0] if a else None
        end = c.rsplit("::", 1)[-1]

        def m(*names):
            return any(c == n or c.endswith(n) for n in names)
        # ---- a real number given as a value (binary32: the crate's only instantiation of its real type)
        if isinstance(a0, float) and len(a) == 1 and end in FLOAT_UNARY and ("f32" in c or "Float" in c or "f64" in c or "num_traits" in c or "ToPrimitive" in c or "Real" in c):
            import math as _m
            from .rustfloat import f32 as _f32
            x = a0
            if end in ("floor", "ceil", "round", "trunc", "abs", "fract", "neg", "sqrt", "signum"):
                if x != x or x in (float("inf"), float("-inf")):
                    return x if end != "fract" else float("nan")
                return _f32({"floor": _m.floor, "ceil": _m.ceil, "trunc": _m.trunc, "abs": abs, "neg": lambda v_: -v_,
                             "round": lambda v_: _m.copysign(_m.floor(abs(v_) + 0.5), v_), "fract": lambda v_: v_ - _m.trunc(v_),
                             "sqrt": lambda v_: _m.sqrt(v_) if v_ >= 0 else float("nan"),
                             "signum": lambda v_: _m.copysign(1.0, v_)}[end](x)) if not (end in ("floor", "ceil", "trunc", "round") and x == 0) else x
            if end == "is_nan":
                return x != x
            if end == "is_infinite":
                return x in (float("inf"), float("-inf"))
            if end == "is_finite":
                return x == x and x not in (float("inf"), float("-inf"))
            if end == "is_sign_negative":
                return _m.copysign(1.0, x) < 0
            if end == "is_sign_positive":
                return _m.copysign(1.0, x) > 0
            if end in ("to_i32", "to_i64", "to_u32", "to_usize", "to_i16", "to_u8", "to_u64", "to_isize"):
                lo_, hi_ = PRIM_INTS[end[3:]]
                if x != x or x in (float("inf"), float("-inf")):
                    return none()
                t_ = _m.trunc(x)
                return some(int(t_)) if lo_ <= t_ <= hi_ else none()
            if end in ("to_f32", "to_f64"):
                return some(x)
        if "num::NonZero" in c and end == "new" and len(a) == 1:
            # NonZero::new(n): Some(n) unless n is zero; the wrapper is its value (get / into are the identity)
            if isinstance(a0, int) and not isinstance(a0, bool):
                return some(a0) if a0 != 0 else none()
            if isinstance(a0, absint.Sym) and absint.SYM_COMPARE is not None:
                return none() if absint.SYM_COMPARE("eq", a0, 0) else some(a0)
            raise Stuck("NonZero::new on a value that is not known")
        if "num::NonZero" in c and end == "get" and len(a) == 1 and (isinstance(a0, absint.Sym) or (isinstance(a0, int) and not isinstance(a0, bool))):
            return a0
        if "<impl bool>" in c and end in ("then_some", "then") and len(a) == 2:
            if a0 is True:
                return some(a[1] if end == "then_some" else self.call_value(a[1], []))
            if a0 is False:
                return none()
            raise Stuck("bool::%s on a condition that is not known" % end)
        if len(a) == 2 and end in ("lt", "le", "gt", "ge", "eq", "ne") and c.rsplit("::", 1)[0].endswith(("cmp::PartialOrd", "cmp::PartialEq")) \
                and all(isinstance(x, (int, float)) and not isinstance(x, bool) for x in a) and any(isinstance(x, float) for x in a):
            x_, y_ = a
            return {"lt": x_ < y_, "le": x_ <= y_, "gt": x_ > y_, "ge": x_ >= y_, "eq": x_ == y_, "ne": x_ != y_}[end]
        if not a and end in FLOAT_CONSTS and ("Float" in c or "Real" in c or "Bounded" in c or "Zero" in c or "One" in c or "f32" in c):
            gens_ = [str(x) for x in (self.subst_generics(((tt or {}).get("fn") or {}).get("generics")) or []) if not str(x).startswith("'")]
            if not (gens_ and gens_[0] in PRIM_INTS) and not (gens_ and gens_[0] == "f64"):
                return FLOAT_CONSTS[end]        # binary32 (the crate's real type is instantiated with f32 only)
        if len(a) == 2 and end in ("add", "sub", "mul", "div") and c.startswith("std::ops::") and tt is not None and \
                ((tt.get("fn") or {}).get("resolved") is None or "f32" in c) and all(isinstance(x, (int, float)) and not isinstance(x, bool) for x in a) \
                and all(isinstance(x, float) for x in a):
            from .rustfloat import f32 as _f32
            x_, y_ = a
            try:
                return _f32({"add": x_ + y_, "sub": x_ - y_, "mul": x_ * y_, "div": (x_ / y_) if y_ != 0 else (
                    float("nan") if (x_ == 0 or x_ != x_) else __import__("math").copysign(float("inf"), x_) * __import__("math").copysign(1.0, y_))}[end])
            except OverflowError:
                return float("inf")
        if end == "from" and "NumCast" in c and len(a) == 1 and isinstance(a0, (int, float)) and not isinstance(a0, bool):
            gens_ = [str(x) for x in (self.subst_generics(((tt or {}).get("fn") or {}).get("generics")) or []) if not str(x).startswith("'")]
            dst_ = gens_[0] if gens_ else ""
            from .rustfloat import f32 as _f32
            if dst_ in PRIM_INTS:
                lo_, hi_ = PRIM_INTS[dst_]
                if isinstance(a0, float):
                    import math as _m
                    if a0 != a0 or a0 in (float("inf"), float("-inf")) or not lo_ <= _m.trunc(a0) <= hi_:
                        return none()
                    return some(int(_m.trunc(a0)))
                return some(a0) if lo_ <= a0 <= hi_ else none()
            if dst_ == "f64":
                return some(float(a0))
            return some(_f32(a0))             # f32, or the crate's real-number parameter (instantiated with f32 only)
        # ---- pass-through (std wrappers only: an impl written in the crate, e.g. Deref for Located<T>, is followed instead)
        lf = self.fb.by_path(c, self.crate)
        if lf is not None and isinstance(a0, (Enum, list)) and (end in ("into", "from") or (not lf.derived and end in (
                "deref", "deref_mut", "as_ref", "as_mut", "borrow", "borrow_mut", "to_string"))):
            return NOT
        if c.endswith("<impl str>::parse") or c.endswith("str::parse"):
            # text -> number, for the integer / float type the call (or the generic helper it sits in) is instantiated with
            gens = ((tt or {}).get("fn") or {}).get("generics") or []
            prims = ("i8", "i16", "i32", "i64", "u8", "u16", "u32", "u64", "usize", "isize", "f32", "f64")
            ty = gens[0] if gens and gens[0] in prims else next((x for fr in reversed(self.gen_stack) for x in reversed(fr) if x in prims), None)
            if ty is None and g is not None and tt is not None:
                dty = g.local_ty(tt["dest"]["local"]) or ""
                ty = next((p_ for p_ in prims if "Result<%s" % p_ in dty), None)
            if not isinstance(a0, str) or ty is None:
                return UNKNOWN
            if ty.startswith("f"):
                try:
                    float(a0)
                    return ok(("real", a0)) if a0.strip() == a0 and a0 not in ("", "+", "-") else err(("error-token", "ParseFloatError"))
                except ValueError:
                    return err(("error-token", "ParseFloatError"))
            try:
                v = int(a0) if a0.strip() == a0 and "_" not in a0 else None
            except ValueError:
                v = None
            bits = {"i8": 8, "i16": 16, "i32": 32, "i64": 64, "isize": 64, "u8": 8, "u16": 16, "u32": 32, "u64": 64, "usize": 64}[ty]
            lo, hi = (0, 2 ** bits) if ty.startswith("u") else (-2 ** (bits - 1), 2 ** (bits - 1))
            if v is None or not lo <= v < hi or (ty.startswith("u") and a0.startswith("-")):
                return err(("error-token", "ParseIntError"))
            return ok(v)
        if end in ("try_from", "try_into") and tt is not None and len(a) == 1:
            gens = [str(x) for x in ((tt.get("fn") or {}).get("generics") or [])]
            if len(gens) == 2 and gens[0] in PRIM_INTS and gens[1] in PRIM_INTS and isinstance(a0, int) and not isinstance(a0, bool):
                dst = gens[0] if end == "try_from" else gens[1]
                lo_, hi_ = PRIM_INTS[dst]
                return ok(a0) if lo_ <= a0 <= hi_ else err(("error-token", "TryFromIntError"))
        if "core::num::<impl " in c or "std::num::<impl " in c:
            r = self._int_model(c, end, a)
            if r is not NOT:
                return r
        if end == "from_fn" and ("iter::sources::" in c or c.startswith("std::iter::from_fn")) and len(a) == 1 and isinstance(a0, (Closure, FnItem)):
            # an iterator whose next() is the closure: asked again after a None it runs the closure again (it is not fused)
            return FromFn(self, a0)
        if end == "fuse" and "Iterator" in c and len(a) == 1 and isinstance(a0, FromFn):
            a0.fused = True
            return a0
        if end in ("repeat", "repeat_with") and ("iter::sources::" in c or c.startswith("std::iter::repeat")) and len(a) == 1:
            # an endless source: only ever consumed through a bounding adaptor (take / take_while / zip / map_while)
            def _forever(v=a0, with_=(end == "repeat_with")):
                n_ = 0
                while True:
                    n_ += 1
                    if n_ > 10000:
                        raise Stuck("an endless iterator is consumed without a bound")
                    yield (self.call_value(v, []) if with_ else v)
            return LazyIter(_forever())
        if "borrow::Cow" in c and end in ("deref", "as_ref", "borrow", "into_owned", "to_mut"):
            # Cow::Borrowed(x) / Cow::Owned(x): references are transparent, both stand for x
            v0 = absint.deref(a0)
            if isinstance(v0, Enum) and len(v0.fields) == 1:
                return v0.fields[0]
            return UNKNOWN
        if end == "clone" and tt is not None and isinstance(a0, (Enum, list)):
            # a clone of the crate's cons list is consumed destructively (into_pair_iter / pop take the cells apart in place), so it
            # must not share its spine with the original; every other clone keeps sharing (identity of skeletons matters to the tables)
            g0 = " ".join(str(x) for x in ((tt.get("fn") or {}).get("generics") or []))
            if "pair::GenericPair<" in g0 and (g0.startswith("parser::pair::GenericPair<") or g0.startswith("std::boxed::Box<parser::pair::GenericPair<")):
                return copy_spine(a0)
            if "rc::Rc" not in c and "rc::Rc<" not in g0[:20] and has_cells(a0):
                return copy_cells(a0)          # (a derived Clone of something that holds a list: the cells are not shared)
        if end in ("from", "into") and isinstance(a0, int) and not isinstance(a0, bool) and tt is not None and ("string::String" in c or "convert::Into" in c):
            gens_ = [str(x) for x in (self.subst_generics((tt.get("fn") or {}).get("generics")) or []) if not str(x).startswith("'")]
            if ("From<char>" in c and "String" in c) or (len(gens_) == 2 and {gens_[0], gens_[1]} == {"char", "std::string::String"}):
                return chr(a0)                       # String::from(c) / c.into(): the one-character string
        if end == "to_string" and "ToString" in c and isinstance(a0, int) and not isinstance(a0, bool) and tt is not None:
            gens_ = [str(x) for x in (self.subst_generics((tt.get("fn") or {}).get("generics")) or []) if not str(x).startswith("'")]
            if gens_ and gens_[0].replace("&", "").strip() == "char":
                return chr(a0)                       # a character as a one-character string
            if gens_ and gens_[0].replace("&", "").strip() in PRIM_INTS:
                return str(a0)
        if end == "to_string" and "ToString" in c and isinstance(a0, (Enum, list)) and tt is not None:
            gens = [str(x) for x in (self.subst_generics((tt.get("fn") or {}).get("generics")) or []) if not str(x).startswith("'")]
            ty = gens[0].replace("&", "").strip() if gens else ""
            txt = self.display(a0, ty)
            if isinstance(txt, (str, Text)) and not (isinstance(txt, Text) and len(txt.parts) == 1 and isinstance(txt.parts[0], Hole) and txt.parts[0].value is a0):
                return txt
        if m("std::ops::Deref>::deref", "std::ops::DerefMut>::deref_mut", "std::ops::Deref::deref", "std::ops::DerefMut::deref_mut",
             "std::convert::AsRef::as_ref", "std::convert::AsMut::as_mut", "std::borrow::Borrow::borrow", "std::clone::Clone::clone", "std::convert::AsRef>::as_ref", "std::convert::AsMut>::as_mut",
             "std::borrow::Borrow>::borrow", "std::borrow::BorrowMut>::borrow_mut", "std::rc::Rc::new", "std::boxed::Box::new",
             "RefCell::borrow", "RefCell::borrow_mut", "RefCell::new", "std::string::ToString>::to_string", "std::borrow::ToOwned>::to_owned",
             "String::as_str", "str>::to_string", "str>::to_owned", "String::as_mut_str", "std::mem::take_placeholder",
             "Vec::as_slice", "Vec<T, A>::as_slice", "Vec::as_mut_slice", "Vec<T, A>::as_mut_slice", "SmallVec::as_slice", "SmallVec<A>::as_slice") or \
                (end == "clone" and ("Clone" in c or "clone::impls" in c)) or \
                (end in ("into", "from") and len(a) == 1 and ("convert::Into" in c or "convert::From" in c)):
            if end in ("into", "from") and tt is not None:
                # `impl From<T> for Option<T>`: t.into() is Some(t)
                gens = [str(x) for x in (self.subst_generics((tt.get("fn") or {}).get("generics")) or []) if not str(x).startswith("'")]
                if len(gens) == 2:
                    src_, dst_ = (gens[0], gens[1]) if end == "into" else (gens[1], gens[0])
                    if "::" in dst_ and not dst_.startswith("std::") and not dst_.startswith("core::") and src_ != dst_:
                        # `t.into()` through the blanket impl: the crate's `impl From<T> for U` builds the value
                        import re as _re
                        strip_ = lambda t_: _re.sub(r"'[a-z_]+,? ?", "", (t_ or "").replace("ruschm::", "")).replace(" ", "").replace("&mut", "").replace("&", "")
                        cands_ = [f_ for f_ in self.fb.all(self.crate) if f_.name.endswith("::from") and f_.trait and "convert::From" in f_.trait and
                                  f_.self_ty and strip_(f_.self_ty) == strip_(dst_) and f_.arg_count == 1 and strip_(f_.local_ty(1)) == strip_(src_)]
                        if len(cands_) == 1:
                            return self.run(cands_[0], [a0])
                    if dst_.startswith("std::option::Option<") and not src_.startswith("std::option::Option<") and dst_ == "std::option::Option<%s>" % src_:
                        return some(a0)
            return a0
        if m("Option::as_ref", "Option<T>::as_ref", "Option::as_mut", "Option<T>::as_mut", "Option::as_deref", "Option<T>::as_deref",
             "Option::cloned", "Option<T>::cloned", "Option<&T>::cloned", "Option::copied", "Option<&T>::copied", "Option<T>::copied",
             "Option::as_deref_mut"):
            return a0
        if end in ("from_u32", "from_digit") and ("char::" in c) and isinstance(a0, int) and not isinstance(a0, bool):
            if end == "from_u32":
                # Unicode scalar values only: the surrogate range and everything above 0x10FFFF is None
                return some(a0) if (0 <= a0 < 0xD800 or 0xE000 <= a0 <= 0x10FFFF) else none()
            if len(a) > 1 and isinstance(a[1], int):
                if a[1] > 36:
                    raise Stuck("char::from_digit with a radix above 36 panics")
                return some(ord("0123456789abcdefghijklmnopqrstuvwxyz"[a0])) if 0 <= a0 < a[1] else none()
        if end == "from_u32_unchecked" and "char::" in c and isinstance(a0, int):
            return a0
        if "<impl char>" in c and isinstance(a0, int) and not isinstance(a0, bool) and end.startswith(("is_", "to_", "eq_ignore")):
            ch = chr(a0)
            asc = a0 < 128
            tbl = {
                "is_ascii_digit": asc and ch.isdigit(), "is_ascii_alphabetic": asc and ch.isalpha(), "is_ascii_alphanumeric": asc and ch.isalnum(),
                "is_ascii_whitespace": ch in " \t\n\r\x0c", "is_ascii_lowercase": asc and ch.islower(), "is_ascii_uppercase": asc and ch.isupper(),
                "is_ascii_punctuation": asc and (33 <= a0 <= 47 or 58 <= a0 <= 64 or 91 <= a0 <= 96 or 123 <= a0 <= 126),
                "is_ascii_hexdigit": asc and ch in "0123456789abcdefABCDEF", "is_ascii_control": a0 < 32 or a0 == 127, "is_ascii": asc,
                "is_ascii_graphic": 33 <= a0 <= 126,
                "is_alphabetic": ch.isalpha(), "is_numeric": ch.isnumeric(), "is_alphanumeric": ch.isalnum(), "is_whitespace": ch.isspace() or ch in "\x85",
                "is_lowercase": ch.islower(), "is_uppercase": ch.isupper(), "is_control": a0 < 32 or 127 <= a0 < 160,
            }
            if end in tbl:
                return bool(tbl[end])
            if end == "is_digit" and len(a) > 1 and isinstance(a[1], int):
                return ch.lower() in "0123456789abcdefghijklmnopqrstuvwxyz"[:a[1]]
            if end == "to_digit" and len(a) > 1 and isinstance(a[1], int):
                i = "0123456789abcdefghijklmnopqrstuvwxyz".find(ch.lower())
                return some(i) if 0 <= i < a[1] else none()
            if end in ("to_ascii_lowercase", "to_ascii_uppercase"):
                return ord(ch.lower() if "lower" in end else ch.upper()) if asc else a0
        if "<impl char>" in c and end in ("escape_default", "escape_debug", "escape_unicode") and isinstance(a0, int) and not isinstance(a0, bool):
            # the text the escape iterator yields (it is only ever printed or collected)
            ch = chr(a0)
            if end == "escape_unicode":
                return "\\u{%x}" % a0
            if ch in "\t\r\n":
                return {"\t": "\\t", "\r": "\\r", "\n": "\\n"}[ch]
            if ch in "'\"\\":
                return "\\" + ch
            if 0x20 <= a0 <= 0x7e:
                return ch
            if end == "escape_debug" and ch.isprintable():
                return ch
            return "\\u{%x}" % a0
        if c.startswith("either::Either::") and isinstance(a0, Enum) and len(a0.fields) == 1:
            # either::Either { Left(L) = 0, Right(R) = 1 }
            if end in ("left", "right"):
                return some(a0.fields[0]) if a0.variant == (0 if end == "left" else 1) else none()
            if end in ("is_left", "is_right"):
                return a0.variant == (0 if end == "is_left" else 1)
            if end in ("unwrap_left", "unwrap_right", "expect_left", "expect_right"):
                if a0.variant == (0 if "left" in end else 1):
                    return a0.fields[0]
                self.events.append(("panic", "Either::%s on the other variant" % end, g.name if g else "?"))
                return UNKNOWN
            if end in ("as_ref", "as_mut"):
                return a0
            if end == "flip":
                e = Enum(1 - a0.variant, list(a0.fields))
                return e
        if m("Box::new_uninit", "Box::<T>::new_uninit"):
            # `vec![a, b]` is lowered to: an uninitialised boxed array (MaybeUninit { uninit, value: ManuallyDrop { value:
            # MaybeDangling(array) } }), a store of the array into it, box_assume_init_into_vec_unsafe
            return [UNKNOWN, [[UNKNOWN]]]
        if m("box_assume_init_into_vec_unsafe"):
            try:
                arr = a0[1][0][0]
            except Exception:
                return UNKNOWN
            return list(arr) if isinstance(arr, list) else UNKNOWN
        if "<impl str>::" in c and isinstance(a0, str):
            WS = " \t\n\r\x0b\x0c"
            if end == "trim":
                return a0.strip(WS)
            if end == "trim_start":
                return a0.lstrip(WS)
            if end == "trim_end":
                return a0.rstrip(WS)
            if end in ("trim_end_matches", "trim_start_matches", "trim_matches") and len(a) > 1:
                pat = chr(a[1]) if isinstance(a[1], int) and not isinstance(a[1], bool) else a[1]
                if isinstance(pat, str) and pat:
                    t_ = a0
                    if end in ("trim_start_matches", "trim_matches"):
                        while t_.startswith(pat):
                            t_ = t_[len(pat):]
                    if end in ("trim_end_matches", "trim_matches"):
                        while t_.endswith(pat):
                            t_ = t_[:-len(pat)]
                    return t_
                return UNKNOWN
            if end in ("starts_with", "ends_with", "contains") and len(a) > 1:
                pat = chr(a[1]) if isinstance(a[1], int) and not isinstance(a[1], bool) else a[1]
                if isinstance(pat, str):
                    return {"starts_with": a0.startswith(pat), "ends_with": a0.endswith(pat), "contains": pat in a0}[end]
                return UNKNOWN
            if end in ("to_lowercase", "to_uppercase", "to_ascii_lowercase", "to_ascii_uppercase"):
                return a0.lower() if "lower" in end else a0.upper()
            if end in ("replace", "replacen") and len(a) >= 3:
                pat = chr(a[1]) if isinstance(a[1], int) and not isinstance(a[1], bool) else a[1]
                if isinstance(pat, str) and pat and isinstance(a[2], str):
                    return a0.replace(pat, a[2]) if end == "replace" else (a0.replace(pat, a[2], a[3]) if len(a) > 3 and isinstance(a[3], int) else UNKNOWN)
                return UNKNOWN
            if end in ("strip_prefix", "strip_suffix") and len(a) > 1:
                pat = chr(a[1]) if isinstance(a[1], int) and not isinstance(a[1], bool) else a[1]
                if isinstance(pat, str):
                    if end == "strip_prefix":
                        return some(a0[len(pat):]) if a0.startswith(pat) else none()
                    return some(a0[:len(a0) - len(pat)]) if a0.endswith(pat) else none()
                return UNKNOWN
            if end == "split_once" and len(a) > 1:
                pat = chr(a[1]) if isinstance(a[1], int) and not isinstance(a[1], bool) else a[1]
                if isinstance(pat, str) and pat:
                    i = a0.find(pat)
                    return some([a0[:i], a0[i + len(pat):]]) if i >= 0 else none()
                return UNKNOWN
            if end == "lines":
                parts_ = a0.split("\n")
                if parts_ and parts_[-1] == "":
                    parts_.pop()
                return Iter([p_[:-1] if p_.endswith("\r") else p_ for p_ in parts_])
            if end in ("split", "split_terminator", "split_inclusive", "rsplit") and len(a) > 1:
                pat = chr(a[1]) if isinstance(a[1], int) and not isinstance(a[1], bool) else a[1]
                if isinstance(pat, str) and pat:
                    parts_ = a0.split(pat)
                    if end == "split_terminator" and parts_ and parts_[-1] == "":
                        parts_.pop()
                    if end == "split_inclusive":
                        parts_ = [p_ + pat for p_ in parts_[:-1]] + ([parts_[-1]] if parts_[-1] else [])
                    if end == "rsplit":
                        parts_ = list(reversed(parts_))
                    return Iter(parts_)
                return UNKNOWN
            if end in ("find", "rfind") and len(a) > 1:
                # (byte offsets, as in Rust)
                pat = chr(a[1]) if isinstance(a[1], int) and not isinstance(a[1], bool) else a[1]
                if isinstance(pat, str) and pat:
                    i = a0.find(pat) if end == "find" else a0.rfind(pat)
                    return some(len(a0[:i].encode("utf-8"))) if i >= 0 else none()
                return UNKNOWN
            if end in ("matches", "rmatches") and len(a) > 1:
                pat = chr(a[1]) if isinstance(a[1], int) and not isinstance(a[1], bool) else a[1]
                if isinstance(pat, str) and pat:
                    return Iter([pat] * a0.count(pat))
                return UNKNOWN
            if end == "split_whitespace":
                return Iter(a0.split())
            if end == "chars":
                return Iter([ord(ch_) for ch_ in a0])
            if end == "is_empty":
                return a0 == ""
            if end == "len":
                return len(a0.encode("utf-8"))
            if end == "repeat" and len(a) > 1 and isinstance(a[1], int):
                return a0 * a[1]
        if c.endswith("itertools::process_results") and len(a) == 2:
            # itertools::process_results(iter of Result<T, E>, |ok_values| ..): the closure sees the Ok payloads up to the first Err
            src = a0 if isinstance(a0, Iter) else (Iter(a0) if type(a0) is list else (self.materialize(a0) if isinstance(a0, Enum) else None))
            if src is None:
                raise Stuck("process_results over a source that cannot be enumerated")
            failed = []

            def g_ok():
                for x in drain(src):
                    if not isinstance(x, Enum):
                        raise Stuck("process_results: item undecided")
                    if x.variant == 1:
                        failed.append(x.fields[0] if x.fields else UNKNOWN)
                        return
                    yield x.fields[0] if x.fields else UNKNOWN
            r = self.call_value(a[1], [LazyIter(g_ok())])
            return err(failed[0]) if failed else ok(r)
        if not a and c.startswith("<") and c.endswith(" as std::default::Default>::default"):
            # Default::default() of a std container / primitive, named by the impl's own type
            dv_ = _default_of_type(c[1:c.index(" as ")])
            if dv_ is not UNKNOWN:
                return dv_
        if m("std::hint::must_use", "std::convert::identity", "std::hint::black_box"):
            return a0
        if m("std::mem::drop", "std::ops::Drop>::drop"):
            return []
        # ---- `?`
        if m("std::ops::Try>::branch"):
            if isinstance(a0, Enum):
                if "option::Option" in c or is_opt(a0):
                    return Enum(0, list(a0.fields)) if a0.variant == 1 else Enum(1, [none()])
                if a0.variant == 0:
                    return Enum(0, list(a0.fields))
                return Enum(1, [err(a0.fields[0] if a0.fields else UNKNOWN)])     # Break(residual = Err(e))
            return UNKNOWN
        if m("FromResidual>::from_residual"):
            if "option::Option" in c:
                return none()
            pay = a0.fields[0] if isinstance(a0, Enum) and a0.fields else UNKNOWN
            return err(pay)
        # ---- Option
        if "option::Option" in c or "Option<" in c:
            if not isinstance(a0, Enum):
                return UNKNOWN if end in OPTION_METHODS else NOT
            is_some = a0.variant == 1
            x = a0.fields[0] if is_some and a0.fields else None
            if end == "map":
                return some(self.call_value(a[1], [x])) if is_some else none()
            if end == "and_then":
                return self.call_value(a[1], [x]) if is_some else none()
            if end == "ok_or":
                return ok(x) if is_some else err(a[1])
            if end == "ok_or_else":
                return ok(x) if is_some else err(self.call_value(a[1], []))
            if end == "unwrap_or":
                return x if is_some else a[1]
            if end == "unwrap_or_else":
                return x if is_some else self.call_value(a[1], [])
            if end == "unwrap_or_default":
                return x if is_some else _default_of_type((((tt or {}).get("fn") or {}).get("generics") or [""])[0])
            if end == "map_or":
                return self.call_value(a[2], [x]) if is_some else a[1]
            if end == "map_or_else":
                return self.call_value(a[2], [x]) if is_some else self.call_value(a[1], [])
            if end == "transpose":
                if not is_some:
                    return ok(none())
                if isinstance(x, Enum):
                    return ok(some(x.fields[0])) if x.variant == 0 else err(x.fields[0] if x.fields else UNKNOWN)
                return UNKNOWN
            if end == "is_some":
                return is_some
            if end == "is_none":
                return not is_some
            if end == "zip" and len(a) == 2:
                if not is_some:
                    return none()
                if isinstance(a[1], Enum):
                    return some([x, a[1].fields[0]]) if (a[1].variant == 1 and a[1].fields) else none()
                raise Stuck("Option::zip with an option that is not known")
            if end == "xor" and len(a) == 2 and isinstance(a[1], Enum):
                other = a[1].variant == 1
                return a0 if (is_some and not other) else (a[1] if (other and not is_some) else none())
            if end in ("or",):
                return a0 if is_some else a[1]
            if end == "or_else":
                return a0 if is_some else self.call_value(a[1], [])
            if end == "filter":
                if not is_some:
                    return none()
                r = self.call_value(a[1], [x])
                return a0 if r is True else (none() if r is False else UNKNOWN)
            if end in ("unwrap", "expect"):
                if not is_some:
                    self.events.append(("panic", "%s on None" % end, g.name if g else "?"))
                    return UNKNOWN
                return x
            if end == "take":
                cp = some(x) if is_some else none()
                a0.variant, a0.fields, a0.name = 0, [], "None"
                return cp
            if end in ("get_or_insert", "get_or_insert_with", "insert") and len(a) == 2:
                # (the option itself is changed in place; what is handed back is the value it now holds)
                if end == "insert" or not is_some:
                    v_ = a[1] if end != "get_or_insert_with" else self.call_value(a[1], [])
                    a0.variant, a0.fields, a0.name = 1, [v_], "Some"
                return a0.fields[0]
            if end == "replace":
                cp = some(x) if is_some else none()
                a0.variant, a0.fields, a0.name = 1, [a[1]], "Some"
                return cp
            if end == "into_iter" or end == "iter":
                return Iter([x] if is_some else [])
            if end == "eq":
                return veq(a0, a[1])
        # ---- Result
        if "result::Result" in c:
            if not isinstance(a0, Enum):
                return UNKNOWN if end in RESULT_METHODS else NOT
            is_ok = a0.variant == 0
            x = a0.fields[0] if a0.fields else None
            if end == "map":
                return ok(self.call_value(a[1], [x])) if is_ok else a0
            if end == "map_err":
                return a0 if is_ok else err(self.call_value(a[1], [x]))
            if end == "transpose":
                if not is_ok:
                    return some(err(x))
                if isinstance(x, Enum):
                    return some(ok(x.fields[0])) if x.variant == 1 else none()
                return UNKNOWN
            if end == "and_then":
                return self.call_value(a[1], [x]) if is_ok else a0
            if end == "or_else":
                return a0 if is_ok else self.call_value(a[1], [x])
            if end == "ok":
                return some(x) if is_ok else none()
            if end == "err":
                return none() if is_ok else some(x)
            if end == "is_ok":
                return is_ok
            if end == "is_err":
                return not is_ok
            if end == "unwrap_or":
                return x if is_ok else a[1]
            if end == "unwrap_or_default":
                return x if is_ok else _default_of_type((((tt or {}).get("fn") or {}).get("generics") or [""])[0])
            if end == "unwrap_or_else":
                return x if is_ok else self.call_value(a[1], [x])
            if end in ("unwrap", "expect"):
                if not is_ok:
                    self.events.append(("panic", "%s on Err" % end, g.name if g else "?"))
                    return UNKNOWN
                return x
        # ---- closures and fn items
        if m("std::ops::Fn>::call", "std::ops::FnMut>::call_mut", "std::ops::FnOnce>::call_once", "std::ops::Fn::call",
             "std::ops::FnMut::call_mut", "std::ops::FnOnce::call_once"):
            args = a[1] if len(a) > 1 and isinstance(a[1], list) else []
            return self.call_value(a0, args)
        # ---- iterators
        if end == "into_iter" and ("IntoIterator" in c):
            if self.fb.by_path(c, self.crate) is not None and isinstance(a0, Enum):
                return NOT                  # an iterator type of the crate: follow its own into_iter
            if isinstance(a0, Enum) and getattr(a0, "name", None) in ("Range", "RangeInclusive") and len(a0.fields) >= 2 \
                    and all(isinstance(x, int) and not isinstance(x, bool) for x in a0.fields[:2]) and abs(a0.fields[1] - a0.fields[0]) < 64:
                return Iter(range(a0.fields[0], a0.fields[1] + (1 if a0.name == "RangeInclusive" else 0)))
            if c.startswith("<I as ") or c.startswith("<&mut I as "):
                return a0                   # the blanket impl for iterators: identity
            if isinstance(a0, (Iter, PeekableIt)) or (isinstance(a0, Enum) and getattr(a0, "adt", None) and "iter" in (getattr(a0, "adt", "") or "").lower()):
                return a0
            if isinstance(a0, Enum) and getattr(a0, "name", None) in ("Range", "RangeInclusive") and len(a0.fields) >= 2 \
                    and all(isinstance(x, int) and not isinstance(x, bool) for x in a0.fields[:2]) and abs(a0.fields[1] - a0.fields[0]) < 64:
                hi = a0.fields[1] + (1 if a0.name == "RangeInclusive" else 0)
                return Iter(range(a0.fields[0], hi))
            if isinstance(a0, Map):
                return Iter([[k, v] for k, v in a0.d.values()])
            if isinstance(a0, list):
                return Iter(a0)
            return UNKNOWN
        if m("<impl [T]>::iter_mut", "Vec::iter_mut", "SmallVec::iter_mut"):
            # elements that are themselves containers are aliased; scalar elements get a slot pointer
            if not isinstance(a0, list):
                return UNKNOWN
            absint.SLOT_PTR[0] = ListSlot
            for i, x in enumerate(a0):
                if isinstance(x, (list, Enum)):
                    absint.SLOT_OF[id(x)] = (a0, i)
            return Iter([x if isinstance(x, (list, Enum, Map)) else ListSlot(a0, i) for i, x in enumerate(a0)])
        if m("<impl [T]>::iter", "SmallVec::iter", "Vec::iter"):
            return Iter(a0) if isinstance(a0, list) else UNKNOWN
        if m("HashMap::iter", "HashMap::into_iter", "HashMap::drain"):
            return Iter([[k, v] for k, v in a0.d.values()]) if isinstance(a0, Map) else UNKNOWN
        if m("HashMap::keys", "HashSet::iter"):
            return Iter([k for k, v in a0.d.values()]) if isinstance(a0, Map) else UNKNOWN
        if m("HashMap::values"):
            return Iter([v for k, v in a0.d.values()]) if isinstance(a0, Map) else UNKNOWN
        if m("std::iter::successors", "iter::sources::successors::successors"):
            items, cur = [], a0
            for _ in range(12):
                if not isinstance(cur, Enum):
                    raise Stuck("successors: undecided")
                if cur.variant == 0:
                    break
                items.append(cur.fields[0])
                cur = self.call_value(a[1], [cur.fields[0]])
            return Iter(items)
        if m("std::iter::once"):
            return Iter([a0])
        if m("std::iter::empty"):
            return Iter([])
        if m("<impl str>::chars"):
            return Iter([ord(ch) for ch in a0]) if isinstance(a0, str) else UNKNOWN
        if "Iterator" in c or "iter::" in c or "Itertools" in c or "Peekable" in c:
            r = self._iter_model(c, end, a, tt, g)
            if r is not NOT:
                return r
        # ---- slices / vectors
        if end in ("join", "concat") and ("slice::" in c or "str::" in c or "Join" in c) and type(a0) is list:
            # [String]::join(sep) / concat(): the pieces may be texts with holes
            if end == "concat" and all(type(x) is list for x in a0):
                return [y for x in a0 for y in x]                   # [Vec<T>]::concat(): the vectors one after the other
            sep = a[1] if end == "join" and len(a) > 1 else ""
            sep = chr(sep) if isinstance(sep, int) and not isinstance(sep, bool) else sep
            if not isinstance(sep, str) or not all(isinstance(x, (str, Text)) for x in a0):
                raise Stuck("join of pieces that are not text (%r)" % (a0[:2],))
            parts = []
            for i, it in enumerate(a0):
                if i and sep:
                    parts.append(sep)
                parts.append(it)
            return Text(parts).flat()
        if m("<impl [T]>::len", "Vec::len", "SmallVec::len", "String::len", "<impl str>::len"):
            return len(a0) if isinstance(a0, (list, str)) else UNKNOWN
        if m("HashMap::len", "HashSet::len"):
            return len(a0.d) if isinstance(a0, Map) else UNKNOWN
        if m("<impl [T]>::is_empty", "Vec::is_empty", "SmallVec::is_empty", "String::is_empty", "<impl str>::is_empty"):
            return (len(a0) == 0) if isinstance(a0, (list, str)) else UNKNOWN
        if m("HashMap::is_empty", "HashSet::is_empty"):
            return (len(a0.d) == 0) if isinstance(a0, Map) else UNKNOWN
        if m("<impl [T]>::get", "Vec::get") and isinstance(a0, list) and len(a) == 2 and isinstance(a[1], Enum) and \
                getattr(a[1], "name", None) in ("Range", "RangeFrom", "RangeTo", "RangeFull", "RangeInclusive", "RangeToInclusive") and \
                all(isinstance(x, int) and not isinstance(x, bool) for x in a[1].fields):
            # a sub-slice: Some when the bounds are in order and inside the slice, None otherwise (what indexing would panic on)
            fs_, n_ = a[1].fields, len(a0)
            lo_, hi_ = {"Range": lambda: (fs_[0], fs_[1]), "RangeFrom": lambda: (fs_[0], n_), "RangeTo": lambda: (0, fs_[0]),
                        "RangeFull": lambda: (0, n_), "RangeInclusive": lambda: (fs_[0], fs_[1] + 1),
                        "RangeToInclusive": lambda: (0, fs_[0] + 1)}[a[1].name]()
            if not (0 <= lo_ <= hi_ <= n_):
                return none()
            return some(list(a0[lo_:hi_]))
        if m("<impl [T]>::get", "<impl [T]>::get_mut", "Vec::get", "Vec::get_mut"):
            if isinstance(a0, list) and isinstance(a[1], int) and not isinstance(a[1], bool):
                if not 0 <= a[1] < len(a0):
                    return none()
                return some(ListSlot(a0, a[1])) if end == "get_mut" else some(a0[a[1]])
            return UNKNOWN
        if m("std::ops::Index>::index", "std::ops::Index::index") and isinstance(a0, str) and len(a) == 2 and isinstance(a[1], Enum) and \
                getattr(a[1], "name", None) in ("Range", "RangeFrom", "RangeTo", "RangeFull", "RangeInclusive", "RangeToInclusive") and \
                all(isinstance(x, int) and not isinstance(x, bool) for x in a[1].fields):
            # text[lo..hi] with byte offsets: a panic when out of range, out of order or not on a character boundary
            bs_ = a0.encode("utf-8")
            fs_, n_ = a[1].fields, len(bs_)
            lo_, hi_ = {"Range": lambda: (fs_[0], fs_[1]), "RangeFrom": lambda: (fs_[0], n_), "RangeTo": lambda: (0, fs_[0]),
                        "RangeFull": lambda: (0, n_), "RangeInclusive": lambda: (fs_[0], fs_[1] + 1),
                        "RangeToInclusive": lambda: (0, fs_[0] + 1)}[a[1].name]()
            try:
                if not (0 <= lo_ <= hi_ <= n_):
                    raise ValueError
                return bs_[lo_:hi_].decode("utf-8") if (bs_[:lo_].decode("utf-8") is not None and bs_[hi_:].decode("utf-8") is not None) else UNKNOWN
            except (ValueError, UnicodeDecodeError):
                self.events.append(("panic", "string slice out of range or not on a character boundary", g.name if g else "?"))
                return UNKNOWN
        if m("std::ops::Index>::index", "std::ops::IndexMut>::index_mut", "std::ops::Index::index", "std::ops::IndexMut::index_mut"):
            if isinstance(a0, Map) and len(a) == 2:
                e_ = a0.d.get(key_of(a[1]))
                if e_ is None:
                    self.events.append(("panic", "map[key] on an absent key", g.name if g else "?"))
                    return UNKNOWN
                return e_[1]
            if isinstance(a0, list) and isinstance(a[1], int) and not isinstance(a[1], bool):
                if not 0 <= a[1] < len(a0):
                    self.events.append(("panic", "index out of bounds", g.name if g else "?"))
                    return UNKNOWN
                return ListSlot(a0, a[1]) if end == "index_mut" else a0[a[1]]
            return UNKNOWN
        if m("<impl [T]>::first", "<impl [T]>::first_mut"):
            return (some(a0[0]) if a0 else none()) if isinstance(a0, list) else UNKNOWN
        if m("<impl [T]>::last", "<impl [T]>::last_mut"):
            return (some(a0[-1]) if a0 else none()) if isinstance(a0, list) else UNKNOWN
        if m("<impl [T]>::split_last"):
            return (some([a0[-1], list(a0[:-1])]) if a0 else none()) if isinstance(a0, list) else UNKNOWN
        if m("<impl [T]>::split_first"):
            return (some([a0[0], list(a0[1:])]) if a0 else none()) if isinstance(a0, list) else UNKNOWN
        if m("Vec::new", "SmallVec::new", "Vec::with_capacity", "SmallVec::with_capacity", "String::new"):
            return [] if "String" not in c else ""
        if m("Vec::push", "SmallVec::push"):
            if isinstance(a0, list):
                a0.append(a[1])
                return []
            return UNKNOWN
        if m("Vec::pop", "SmallVec::pop"):
            if isinstance(a0, list):
                return some(a0.pop()) if a0 else none()
            return UNKNOWN
        if m("Vec as std::iter::Extend>::extend", "SmallVec as std::iter::Extend>::extend", "Vec::extend"):
            if isinstance(a0, list):
                src = a[1].rest() if isinstance(a[1], Iter) else (list(a[1]) if isinstance(a[1], list) else None)
                if src is None and isinstance(a[1], Enum) and is_opt(a[1]):
                    src = list(a[1].fields[:1]) if a[1].variant == 1 else []          # an Option is an iterator of 0 or 1 items
                if src is None and isinstance(a[1], Enum) and self.has_local_next(a[1]):
                    mat = self.materialize(a[1])
                    src = mat.rest() if mat is not None else None
                if src is None and isinstance(a[1], Enum) and getattr(a[1], "adt", None):
                    # a collection type of the crate: extend calls its IntoIterator impl
                    adt_ = a[1].adt
                    cands = [f_ for f_ in self.fb.all(self.crate) if f_.name.endswith("::into_iter") and f_.trait and "IntoIterator" in f_.trait and
                             f_.self_ty and mir.norm(f_.self_ty).split("<")[0] == adt_]
                    if len(cands) == 1:
                        it_ = self.run(cands[0], [a[1]])
                        mat = self.materialize(it_) if not isinstance(it_, list) else Iter(it_)
                        src = mat.rest() if mat is not None else None
                if src is None:
                    raise Stuck("Vec::extend with a source that cannot be enumerated (%r)" % (a[1],))
                a0.extend(src)
                return []
            return UNKNOWN
        if m("Vec::retain", "SmallVec::retain", "Vec::retain_mut"):
            if isinstance(a0, list):
                keep = []
                for x in list(a0):
                    r = self.call_value(a[1], [x])
                    if r is True:
                        keep.append(x)
                    elif r is not False:
                        raise Stuck("retain predicate undecided")
                a0[:] = keep
                return []
            return UNKNOWN
        if m("Vec::clear", "SmallVec::clear"):
            if isinstance(a0, list):
                del a0[:]
                return []
            return UNKNOWN
        if m("Vec::truncate", "SmallVec::truncate"):
            if isinstance(a0, list) and isinstance(a[1], int):
                del a0[a[1]:]
                return []
            if isinstance(a0, list):
                raise Stuck("Vec::truncate to an unknown length")
            return UNKNOWN
        if m("Vec::insert", "SmallVec::insert"):
            if isinstance(a0, list) and isinstance(a[1], int) and 0 <= a[1] <= len(a0):
                a0.insert(a[1], a[2])
                return []
            if isinstance(a0, list):
                raise Stuck("Vec::insert at an unknown / out-of-range index")
            return UNKNOWN
        if m("Vec::remove", "SmallVec::remove"):
            if isinstance(a0, list) and isinstance(a[1], int) and 0 <= a[1] < len(a0):
                return a0.pop(a[1])
            if isinstance(a0, list):
                raise Stuck("Vec::remove at an unknown / out-of-range index")
            return UNKNOWN
        if m("Vec::swap_remove", "SmallVec::swap_remove"):
            if isinstance(a0, list) and isinstance(a[1], int) and not isinstance(a[1], bool) and 0 <= a[1] < len(a0):
                x_ = a0[a[1]]
                last_ = a0.pop()
                if a[1] < len(a0):
                    a0[a[1]] = last_              # the last element takes the freed slot
                return x_
            if isinstance(a0, list):
                raise Stuck("Vec::swap_remove at an unknown / out-of-range index")
            return UNKNOWN
        if m("Vec::truncate", "SmallVec::truncate"):
            if isinstance(a0, list) and isinstance(a[1], int) and not isinstance(a[1], bool):
                del a0[a[1]:]
                return []
            return UNKNOWN
        if m("Vec::clear", "SmallVec::clear"):
            if isinstance(a0, list):
                del a0[:]
                return []
            return UNKNOWN
        if m("<impl [T]>::swap") and isinstance(a0, list) and len(a) == 3 and all(isinstance(x, int) and not isinstance(x, bool) for x in a[1:]):
            if 0 <= a[1] < len(a0) and 0 <= a[2] < len(a0):
                a0[a[1]], a0[a[2]] = a0[a[2]], a0[a[1]]
                return []
            raise Stuck("slice::swap out of range")
        if m("<impl [T]>::reverse") and isinstance(a0, list):
            a0.reverse()
            return []
        if m("<impl [T]>::sort", "<impl [T]>::sort_unstable"):
            # total order of concrete strings / integers only (Rust's Ord on str is bytewise = Python's order on str for ASCII)
            vals = [plain_of(x) for x in a0] if isinstance(a0, list) else None
            if vals is not None and (all(isinstance(v, str) for v in vals) or all(isinstance(v, int) and not isinstance(v, bool) for v in vals)):
                order = sorted(range(len(a0)), key=lambda i: vals[i])
                a0[:] = [a0[i] for i in order]
                return []
            return UNKNOWN
        if m("<impl [T]>::binary_search"):
            # std's algorithm (its result on a slice that is not sorted is whatever these steps give)
            vals = [plain_of(x) for x in a0] if isinstance(a0, list) else None
            x = plain_of(a[1]) if len(a) > 1 else None
            if vals is not None and isinstance(x, (str, int)) and all(type(v) is type(x) for v in vals):
                size, base = len(vals), 0
                if size == 0:
                    return err(0)
                while size > 1:
                    half = size // 2
                    mid = base + half
                    base = base if vals[mid] > x else mid
                    size -= half
                if vals[base] == x:
                    return ok(base)
                return err(base + (1 if vals[base] < x else 0))
            return UNKNOWN
        if m("Vec::dedup"):
            vals = [plain_of(x) for x in a0] if isinstance(a0, list) else None
            if vals is not None and all(isinstance(v, (str, int)) for v in vals):
                keep = [x for i, x in enumerate(a0) if i == 0 or vals[i] != vals[i - 1]]
                a0[:] = keep
                return []
            return UNKNOWN
        if m("<impl [T]>::reverse"):
            if isinstance(a0, list):
                a0.reverse()
                return []
            return UNKNOWN
        if m("HashMap::clear", "HashSet::clear"):
            if isinstance(a0, Map):
                a0.d.clear()
                return []
            return UNKNOWN
        if m("<impl [T]>::contains", "Vec::contains"):
            if isinstance(a0, list):
                rs = [veq(x, a[1]) for x in a0]
                return True if any(r is True for r in rs) else (UNKNOWN if any(r is UNKNOWN for r in rs) else False)
            return UNKNOWN
        # ---- maps / sets
        if m("HashMap::new", "HashSet::new", "HashMap::with_capacity", "HashSet::with_capacity"):
            return Map()
        if m("HashMap as std::iter::Extend>::extend", "HashSet as std::iter::Extend>::extend", "HashMap::extend", "HashSet::extend"):
            if isinstance(a0, Map):
                src = a[1].rest() if isinstance(a[1], Iter) else ([[k, v] for k, v in a[1].d.values()] if isinstance(a[1], Map) else
                                                                  (list(a[1]) if isinstance(a[1], list) else None))
                if src is None:
                    return UNKNOWN
                for it in src:
                    if "HashSet" in c:
                        a0.d[key_of(it)] = (it, True)
                    elif isinstance(it, list) and len(it) == 2:
                        a0.d[key_of(it[0])] = (it[0], it[1])
                    else:
                        return UNKNOWN
                return []
            return UNKNOWN
        if m("HashMap::entry", "BTreeMap::entry"):
            if not isinstance(a0, Map):
                return UNKNOWN
            # the Entry enum as it is (code may match on Occupied / Vacant): the payload is the entry token
            occ = key_of(a[1]) in a0.d
            e_ = Enum(0 if occ else 1, [EntryTok(a0, a[1])])
            e_.name, e_.adt = ("Occupied" if occ else "Vacant"), "std::collections::hash_map::Entry"
            return e_
        if "hash_map::Entry" in c or "map::Entry" in c or "OccupiedEntry" in c or "VacantEntry" in c or "btree_map::Entry" in c:
            et = a0.fields[0] if isinstance(a0, Enum) and a0.fields and isinstance(a0.fields[0], EntryTok) else a0
            if isinstance(et, EntryTok):
                k = key_of(et.key)
                if end in ("or_insert", "or_insert_with", "or_default", "or_insert_with_key"):
                    if k not in et.map.d:
                        if end == "or_insert":
                            v = a[1]
                        elif end == "or_insert_with":
                            v = self.call_value(a[1], [])
                        elif end == "or_insert_with_key":
                            v = self.call_value(a[1], [et.key])
                        else:
                            v = UNKNOWN
                        et.map.d[k] = (et.key, v)
                    return et.map.d[k][1]
                if end == "and_modify":
                    if k in et.map.d:
                        self.call_value(a[1], [et.map.d[k][1]])
                    return a0
                if end in ("key", "into_key"):
                    return et.key
                if end in ("get", "get_mut", "into_mut") and k in et.map.d:
                    return et.map.d[k][1]
                if end in ("insert", "insert_entry") and len(a) > 1:
                    old_ = et.map.d.get(k)
                    et.map.d[k] = (et.key, a[1])
                    if "VacantEntry" in c or old_ is None:
                        return a[1] if end == "insert" else a0       # VacantEntry::insert returns &mut V
                    return old_[1]                                    # OccupiedEntry::insert returns the old value
                if end in ("remove", "remove_entry") and k in et.map.d:
                    old_ = et.map.d.pop(k)
                    return old_[1] if end == "remove" else [old_[0], old_[1]]
            return UNKNOWN
        if m("HashMap::insert"):
            if isinstance(a0, Map):
                old = a0.d.get(key_of(a[1]))
                a0.d[key_of(a[1])] = (a[1], a[2])
                return some(old[1]) if old else none()
            return UNKNOWN
        if m("HashSet::insert"):
            if isinstance(a0, Map):
                new = key_of(a[1]) not in a0.d
                a0.d[key_of(a[1])] = (a[1], True)
                return new
            return UNKNOWN
        if m("HashMap::get", "HashMap::get_mut"):
            if isinstance(a0, Map):
                e = a0.d.get(key_of(a[1]))
                return some(e[1]) if e else none()
            return NOT
        if m("HashMap::contains_key", "HashSet::contains"):
            if isinstance(a0, Map):
                return key_of(a[1]) in a0.d
            return NOT
        if m("HashMap::remove"):
            if isinstance(a0, Map):
                e = a0.d.pop(key_of(a[1]), None)
                return some(e[1]) if e else none()
            return NOT
        if m("HashSet::remove"):
            if isinstance(a0, Map):
                return a0.d.pop(key_of(a[1]), None) is not None
            return NOT
        if m("HashSet::take", "HashSet::get", "HashSet::replace", "HashMap::remove_entry", "HashMap::get_key_value"):
            if isinstance(a0, Map):
                meth_ = c.rsplit("::", 1)[-1]
                if meth_ == "take":
                    e = a0.d.pop(key_of(a[1]), None)
                    return some(e[0]) if e else none()
                if meth_ == "get":
                    e = a0.d.get(key_of(a[1]))
                    return some(e[0]) if e else none()
                if meth_ == "replace":
                    e = a0.d.get(key_of(a[1]))
                    a0.d[key_of(a[1])] = (a[1], True)
                    return some(e[0]) if e else none()
                if meth_ == "remove_entry":
                    e = a0.d.pop(key_of(a[1]), None)
                    return some([e[0], e[1]]) if e else none()
                e = a0.d.get(key_of(a[1]))
                return some([e[0], e[1]]) if e else none()
            return NOT
        if m("HashMap::retain", "HashSet::retain") and len(a) == 2:
            if isinstance(a0, Map):
                # keeps the entries the predicate accepts (each asked once, in no particular order)
                for k_ in list(a0.d):
                    kk_, vv_ = a0.d[k_]
                    keep_ = self.call_value(a[1], [kk_, vv_] if "HashMap" in c else [kk_])
                    if keep_ is False:
                        del a0.d[k_]
                    elif keep_ is not True:
                        raise Stuck("retain: the predicate's answer for an entry is not known")
                return []
            raise Stuck("retain on a map that is not known")
        # ---- the larger / smaller of two integers or of two values of a field-less enum (derived Ord: the order of the variants)
        if end in ("max", "min") and (c in ("std::cmp::max", "std::cmp::min", "core::cmp::max", "core::cmp::min") or c.endswith("cmp::Ord>::max")
                                      or c.endswith("cmp::Ord>::min") or c.endswith("cmp::Ord::max") or c.endswith("cmp::Ord::min")) and len(a) == 2:
            def rank_(x):
                if isinstance(x, bool):
                    return None
                if isinstance(x, int):
                    return x
                if isinstance(x, Enum) and not x.fields and getattr(x, "adt", None):
                    g_ = [f_ for f_ in self.fb.all(self.crate) if f_.trait and "cmp::Ord" in f_.trait and f_.self_ty and
                          mir.norm(f_.self_ty).split("<")[0] == x.adt]
                    return x.variant if g_ and all(f_.derived for f_ in g_) else None
                return None
            ra_, rb_ = rank_(a0), rank_(a[1])
            if ra_ is not None and rb_ is not None and type(a0) is type(a[1]):
                # (max returns the second argument when they compare equal, min the first)
                if end == "max":
                    return a[1] if rb_ >= ra_ else a0
                return a0 if ra_ <= rb_ else a[1]
        # ---- comparisons
        if end in ("eq", "ne") and ("PartialEq" in c or "cmp::impls" in c or "str::traits" in c) and len(a) == 2:
            r = veq(a0, a[1])
            if r is UNKNOWN or isinstance(a0, (Enum, list)) and self.fb.by_path(c, self.crate) is not None:
                return NOT if self.fb.by_path(c, self.crate) is not None else UNKNOWN
            return r if end == "eq" else (not r)
        if end in ("lt", "le", "gt", "ge") and "PartialOrd" in c and len(a) == 2:
            if isinstance(a0, int) and isinstance(a[1], int):
                return {"lt": a0 < a[1], "le": a0 <= a[1], "gt": a0 > a[1], "ge": a0 >= a[1]}[end]
            return NOT
        return NOT

    def _int_model(self, c, end, a):
        """methods of the primitive integer types on concrete values (`core::num::<impl i64>::abs` ...); anything else: NOT"""
        import re as _re
        mt = _re.search(r"<impl ([iu])(8|16|32|64|128|size)>", c)
        if not mt:
            return NOT
        signed = mt.group(1) == "i"
        bits = 64 if mt.group(2) == "size" else int(mt.group(2))
        lo, hi = (-(1 << (bits - 1)), (1 << (bits - 1)) - 1) if signed else (0, (1 << bits) - 1)
        if end == "from_str_radix" and len(a) == 2 and isinstance(a[0], str) and isinstance(a[1], int):
            try:
                v = int(a[0], a[1]) if a[0].strip() == a[0] and "_" not in a[0] else None
            except ValueError:
                v = None
            return ok(v) if v is not None and lo <= v <= hi and not (not signed and a[0].startswith("-")) else err(("error-token", "ParseIntError"))
        if not a or not all(isinstance(x, int) and not isinstance(x, bool) for x in a):
            return NOT
        x = a[0]
        y = a[1] if len(a) > 1 else None

        def wrap(v):
            v &= (1 << bits) - 1
            return v - (1 << bits) if signed and v > hi else v

        def chk(v):
            return some(v) if v is not None and lo <= v <= hi else none()

        def tdiv(p, q):
            r = abs(p) // abs(q)
            return r if (p < 0) == (q < 0) else -r

        def exact(v):
            if v is None or not lo <= v <= hi:
                raise Stuck("%s overflows / divides by zero on %r (a panic in a checked build)" % (c, a))
            return v
        binop = {"add": lambda: x + y, "sub": lambda: x - y, "mul": lambda: x * y,
                 "div": lambda: tdiv(x, y) if y else None, "rem": lambda: (x - y * tdiv(x, y)) if y else None,
                 "pow": lambda: x ** y if y >= 0 else None, "neg": lambda: -x, "abs": lambda: abs(x),
                 "div_euclid": lambda: ((x - (x % abs(y))) // y) if y else None, "rem_euclid": lambda: (x % abs(y)) if y else None}
        for pfx in ("checked_", "wrapping_", "saturating_", "overflowing_", ""):
            if end.startswith(pfx) and end[len(pfx):] in binop and (pfx or end in ("abs", "pow", "div_euclid", "rem_euclid")):
                op = end[len(pfx):]
                if op not in ("neg", "abs") and y is None:
                    return NOT
                v = binop[op]()
                if pfx == "checked_":
                    return chk(v)
                if pfx == "wrapping_":
                    return wrap(v) if v is not None else NOT
                if pfx == "saturating_":
                    return max(lo, min(hi, v)) if v is not None else NOT
                if pfx == "overflowing_":
                    return [wrap(v), not lo <= v <= hi] if v is not None else NOT
                return exact(v)
        if end == "unsigned_abs":
            return abs(x)
        if end == "signum":
            return (x > 0) - (x < 0)
        if end == "is_negative":
            return x < 0
        if end == "is_positive":
            return x > 0
        if end == "abs_diff" and y is not None:
            return abs(x - y)
        if end in ("min_value", "max_value"):
            return lo if end == "min_value" else hi
        return NOT

    def local_next(self, it):
        """`next` of an iterator implemented in the crate (found through the abstract value's type), or NOT"""
        adt = getattr(it, "adt", None) if isinstance(it, Enum) else None
        if not adt:
            return NOT
        cands = [f for f in self.fb.all(self.crate) if f.name.endswith("::next") and f.trait and "Iterator" in f.trait and f.self_ty and
                 mir.norm(f.self_ty).split("<")[0] == adt]
        if len(cands) != 1:
            return NOT
        if self.intercept is not None:
            synth = {"k": "call", "fn": {"def": cands[0].name, "resolved": cands[0].name, "generics": [], "local": True}, "args": [], "argtys": [],
                     "dest": {"local": 0, "proj": []}, "span": ""}
            r = self.intercept(self, cands[0].name, [it], synth, None)
            if r is not NOT:
                return r
        gm = getattr(it, "gmap", None)
        gens_ = [gm.get(n_, n_) for n_ in (getattr(cands[0], "generic_params", None) or [])] if gm else None
        return self.run(cands[0], [it], generics=gens_)

    def has_local_next(self, it):
        adt = getattr(it, "adt", None) if isinstance(it, Enum) else None
        if not adt:
            return False
        return len([f for f in self.fb.all(self.crate) if f.name.endswith("::next") and f.trait and "Iterator" in f.trait and f.self_ty and
                    mir.norm(f.self_ty).split("<")[0] == adt]) == 1

    def step(self, it):
        if isinstance(it, Iter):
            return it.next()
        if isinstance(it, PeekableIt):
            if it.peeked is not None:
                r, it.peeked = it.peeked, None
                return r
            return self.step(it.inner)
        return self.local_next(it)

    def materialize(self, it, bound=40):
        """the remaining items of an abstract iterator as an Iter that steps it on demand (None if it cannot be stepped)"""
        if isinstance(it, Iter):
            return it
        if isinstance(it, PeekableIt):
            inner_ok = isinstance(it.inner, Iter) or self.has_local_next(it.inner)
            if not inner_ok:
                return None
        elif not self.has_local_next(it):
            return None

        def gen():
            for _ in range(bound):
                r = self.step(it)
                if r is NOT or not isinstance(r, Enum):
                    raise Stuck("cannot step the iterator %r" % (getattr(it, "adt", it),))
                if r.variant == 0:
                    return
                yield r.fields[0]
            raise Stuck("iterator longer than the bound %d" % bound)
        return LazyIter(gen())

    def _iter_model(self, c, end, a, tt, g):
        a0 = a[0] if a else None
        if isinstance(a0, Enum) and getattr(a0, "name", None) in ("Range", "RangeInclusive") and len(a0.fields) >= 2 and end in ITER_METHODS \
                and "Iterator" in c:
            # a range used as an iterator directly: (0..n).for_each(..), (a..b).map(..)
            lo, hi = a0.fields[0], a0.fields[1]
            if all(isinstance(x, int) and not isinstance(x, bool) for x in (lo, hi)) and abs(hi - lo) < 64:
                a0 = Iter(range(lo, hi + (1 if a0.name == "RangeInclusive" else 0)))
                a = [a0] + list(a[1:])
            else:
                raise Stuck("iteration over a range with unknown bounds")
        if end == "peekable" and (isinstance(a0, (Iter, PeekableIt)) or (isinstance(a0, Enum) and getattr(a0, "adt", None))):
            return a0 if isinstance(a0, PeekableIt) else PeekableIt(a0)
        if isinstance(a0, PeekableIt):
            if end in ("peek", "peek_mut"):
                if a0.peeked is None:
                    a0.peeked = self.step(a0.inner)
                    if a0.peeked is NOT:
                        a0.peeked = None
                        return UNKNOWN
                return a0.peeked
            if end == "next":
                r = self.step(a0)
                return UNKNOWN if r is NOT else r
            if end in ("next_if", "next_if_eq") and len(a) > 1:
                if a0.peeked is None:
                    a0.peeked = self.step(a0.inner)
                    if a0.peeked is NOT:
                        a0.peeked = None
                        return UNKNOWN
                pk = a0.peeked
                if not isinstance(pk, Enum):
                    return UNKNOWN
                if pk.variant == 0:
                    return none()
                take = self.call_value(a[1], [pk.fields[0]]) if end == "next_if" else veq(pk.fields[0], a[1])
                if take is True:
                    a0.peeked = None
                    return pk
                if take is False:
                    return none()
                raise Stuck("next_if predicate undecided")
        if end in ("by_ref", "fuse", "cloned", "copied", "into_iter") and "Iterator" in c and isinstance(a0, Enum) and self.has_local_next(a0):
            return a0                       # an adaptor that changes nothing we track, around an iterator implemented in the crate
        if not isinstance(a0, Iter) and end in ITER_METHODS and end != "next" and \
                (isinstance(a0, PeekableIt) or (isinstance(a0, Enum) and getattr(a0, "adt", None))):
            mat = self.materialize(a0)
            if mat is not None:
                a = [mat] + list(a[1:])
                a0 = mat
        if end == "next" and "RangeFrom" in c and isinstance(a0, Enum) and a0.fields and isinstance(a0.fields[0], int) and not isinstance(a0.fields[0], bool):
            v = a0.fields[0]                          # `for i in 0..`: the counter lives in the range value
            if v > 10000:
                raise Stuck("unbounded counting loop")
            a0.fields[0] = v + 1
            return some(v)
        if end == "next" and c.startswith("<&mut I as ") and not isinstance(a0, Iter):
            r = self.step(a0)                         # `(&mut iterator).next()`: the iterator itself
            return UNKNOWN if r is NOT else r
        if end == "next":
            if isinstance(a0, Iter):
                return a0.next()
            return NOT
        if end in ("next_back", "nth", "nth_back") and isinstance(a0, Iter):
            if isinstance(a0, LazyIter):
                a0.items, a0.pos, a0.gen = a0.rest(), 0, iter(())          # a double-ended walk needs the items
                a0.__class__ = Iter
            rem = a0.items[a0.pos:]
            if end == "next_back":
                if not rem:
                    return none()
                a0.items = a0.items[:a0.pos] + rem[:-1]
                return some(rem[-1])
            k = a[1] if len(a) > 1 else None
            if not isinstance(k, int) or isinstance(k, bool):
                raise Stuck("%s with an unknown index" % end)
            if end == "nth":
                a0.pos = min(len(a0.items), a0.pos + k + 1)
                return some(rem[k]) if k < len(rem) else none()
            if k < len(rem):
                a0.items = a0.items[:a0.pos] + rem[:len(rem) - k - 1]
                return some(rem[len(rem) - k - 1])
            a0.items = a0.items[:a0.pos]
            return none()
        if not isinstance(a0, Iter):
            if end in ITER_METHODS and not (self.fb.by_path(c, self.crate)):
                if any(isinstance(x, (Closure, FnItem)) for x in a[1:]):
                    # a closure would have run (possibly with effects on the state we track): do not pretend it did not
                    raise Stuck("%s over an iterator that cannot be enumerated (%r)" % (end, a0))
                return UNKNOWN
            return NOT
        if end == "map":
            return LazyIter(self.call_value(a[1], [x]) for x in drain(a0))
        if end == "filter":
            def g_filter():
                for x in drain(a0):
                    r = self.call_value(a[1], [x])
                    if r is True:
                        yield x
                    elif r is not False:
                        raise Stuck("filter predicate undecided")
            return LazyIter(g_filter())
        if end == "filter_map":
            def g_fmap():
                for x in drain(a0):
                    r = self.call_value(a[1], [x])
                    if not isinstance(r, Enum):
                        raise Stuck("filter_map result undecided")
                    if r.variant == 1:
                        yield r.fields[0]
            return LazyIter(g_fmap())
        if end == "all_equal":
            # itertools: every element equals the first one
            first = None
            for i, x in enumerate(drain(a0)):
                if i == 0:
                    first = x
                    continue
                r = self.invoke("std::cmp::PartialEq::eq", [first, x])
                if r is False:
                    return False
                if r is not True:
                    raise Stuck("all_equal: comparison undecided")
            return True
        if end in ("flatten", "flat_map"):
            def g_flat():
                for x in drain(a0):
                    if end == "flat_map":
                        x = self.call_value(a[1], [x])
                    x = absint.deref(x)
                    if isinstance(x, Iter):
                        for y in drain(x):
                            yield y
                    elif type(x) is list:
                        for y in x:
                            yield y
                    elif isinstance(x, Enum) and (is_opt(x) or is_res(x)):
                        good = (x.variant == 1) if is_opt(x) else (x.variant == 0)
                        if good:
                            yield x.fields[0]
                    elif isinstance(x, Enum) and self.has_local_next(x):
                        for y in drain(self.materialize(x)):
                            yield y
                    else:
                        raise Stuck("flatten over an item that cannot be enumerated (%r)" % (x,))
            return LazyIter(g_flat())
        if end == "map_while":
            def g_mw():
                for x in drain(a0):
                    r = self.call_value(a[1], [x])
                    if not isinstance(r, Enum):
                        raise Stuck("map_while result undecided")
                    if r.variant != 1:
                        return
                    yield r.fields[0]
            return LazyIter(g_mw())
        if end == "take_while":
            def g_tw():
                for x in drain(a0):
                    r = self.call_value(a[1], [x])
                    if r is True:
                        yield x
                    elif r is False:
                        return
                    else:
                        raise Stuck("take_while predicate undecided")
            return LazyIter(g_tw())
        if end == "enumerate":
            return LazyIter([i, x] for i, x in enumerate(drain(a0)))
        if end in ("tuple_windows", "tuples") and "itertools" in c:
            # itertools: overlapping (tuple_windows) / disjoint (tuples) tuples of neighbours; the arity is the tuple type asked for
            gens = [str(x) for x in (((tt or {}).get("fn") or {}).get("generics") or [])]
            tup = next((g_ for g_ in gens if g_.startswith("(")), None)
            if tup is None:
                raise Stuck("%s: tuple arity unknown" % end)
            depth_, n_ = 0, 1
            for ch in tup[1:-1]:
                depth_ += ch in "(<["
                depth_ -= ch in ")>]"
                n_ += (ch == "," and depth_ == 0)
            if tup[1:-1].rstrip().endswith(","):
                n_ -= 1

            def g_tw_(n_=n_, disjoint=(end == "tuples")):
                buf = []
                for x in drain(a0):
                    buf.append(x)
                    if len(buf) == n_:
                        yield list(buf)
                        buf = [] if disjoint else buf[1:]
            return LazyIter(g_tw_())
        if end == "rev":
            return Iter(list(reversed(a0.rest())))
        if end in ("by_ref", "peekable", "fuse", "cloned", "copied", "into_iter"):
            return a0
        if end == "skip":
            r = a0.rest()
            return Iter(r[a[1]:]) if isinstance(a[1], int) else UNKNOWN
        if end == "take":
            if not isinstance(a[1], int):
                return UNKNOWN
            import itertools as _it
            return LazyIter(_it.islice(drain(a0), a[1]))
        if end == "zip":
            # lazy on both sides, the first source asked first (an item of the first source is lost when the second is exhausted:
            # std's behaviour, and Python's zip has it too)
            src2 = a[1]
            if isinstance(src2, Iter):
                o = drain(src2)
            elif isinstance(src2, list):
                o = iter(list(src2))
            else:
                mat2 = self.materialize(src2) if isinstance(src2, Enum) else None
                if mat2 is None and isinstance(src2, Enum) and getattr(src2, "adt", None):
                    cands2 = [f_ for f_ in self.fb.all(self.crate) if f_.name.endswith("::into_iter") and f_.trait and "IntoIterator" in f_.trait and
                              f_.self_ty and mir.norm(f_.self_ty).split("<")[0] == src2.adt]
                    if len(cands2) == 1:
                        it2 = self.run(cands2[0], [src2])
                        mat2 = Iter(it2) if isinstance(it2, list) else self.materialize(it2)
                if mat2 is None:
                    raise Stuck("zip with a second source that cannot be enumerated (%r)" % (src2,))
                o = drain(mat2)
            return LazyIter([x, y] for x, y in zip(drain(a0), o))
        if end == "chain":
            o = a[1].rest() if isinstance(a[1], Iter) else (a[1] if isinstance(a[1], list) else None)
            if o is None:
                return UNKNOWN
            import itertools as _it
            return LazyIter(_it.chain(drain(a0), iter(list(o))))
        if end in ("collect", "from_iter", "collect_vec"):
            dty = (g.local_ty(tt["dest"]["local"]) or "") if (g is not None and tt is not None) else ""
            if end == "collect" and tt is not None:
                # collecting into a type of the crate: its own FromIterator impl builds the value
                gens = self.subst_generics((tt.get("fn") or {}).get("generics")) or []
                target = str(gens[1]) if len(gens) > 1 else dty
                base = mir.norm(target).split("<")[0] if target else ""
                if base and not base.startswith("std::") and "::" in base:
                    cands = [f for f in self.fb.all(self.crate) if f.name.endswith("::from_iter") and f.trait and "FromIterator" in f.trait and
                             f.self_ty and mir.norm(f.self_ty).split("<")[0] == base]
                    if len(cands) == 1:
                        return self.run(cands[0], [a0], generics=self.unify_impl_generics(cands[0], target, [str(gens[0])] if gens else []))
            def collect_into(ty, items):
                """FromIterator for Result<C, E> / Option<C> (short-circuiting on the first Err / None, as std does), else the container"""
                if ty.startswith("std::result::Result<"):
                    out = []
                    for x in items:
                        if not isinstance(x, Enum):
                            raise Stuck("collect into a Result: an item is undecided")
                        if x.variant == 1:
                            return err(x.fields[0] if x.fields else UNKNOWN)
                        out.append(x.fields[0])
                    return ok(collect_into(ty[len("std::result::Result<"):], out))
                if ty.startswith("std::option::Option<"):
                    out = []
                    for x in items:
                        if not isinstance(x, Enum):
                            raise Stuck("collect into an Option: an item is undecided")
                        if x.variant == 0:
                            return none()
                        out.append(x.fields[0])
                    return some(collect_into(ty[len("std::option::Option<"):], out))
                return self._container(ty, items if isinstance(items, list) else list(items))
            lazy = dty.startswith("std::result::Result<") or dty.startswith("std::option::Option<")
            return collect_into(dty, drain(a0) if lazy else a0.rest())
        if end in ("sum", "product") and len(a) == 1:
            # of integers, or of Results / Options of integers (stops at the first Err / None and hands it over)
            dty = (g.local_ty(tt["dest"]["local"]) or "") if (g is not None and tt is not None) else ""
            wrap = "Result" if dty.startswith("std::result::Result<") else ("Option" if dty.startswith("std::option::Option<") else None)
            acc = 0 if end == "sum" else 1
            for x in drain(a0):
                if wrap:
                    if not isinstance(x, Enum):
                        raise Stuck("%s over an element that is not known" % end)
                    good = (x.variant == 0) if wrap == "Result" else (x.variant == 1)
                    if not good:
                        return x
                    x = x.fields[0] if x.fields else UNKNOWN
                if not isinstance(x, (int, float)) or isinstance(x, bool):
                    raise Stuck("%s over an element that is not a known number" % end)
                acc = acc + x if end == "sum" else acc * x
            return (ok(acc) if wrap == "Result" else some(acc)) if wrap else acc
        if end in ("min", "max") and len(a) == 1:
            # of known integers (Iterator::min / max hand back the first / the last of several equal extremes: the same number)
            xs = [x for x in drain(a0)]
            if not all(isinstance(x, int) and not isinstance(x, bool) for x in xs):
                raise Stuck("%s over an element that is not a known integer" % end)
            return some(min(xs) if end == "min" else max(xs)) if xs else none()
        if end == "count":
            return len(a0.rest())
        if end == "last":
            r = a0.rest()
            return some(r[-1]) if r else none()
        if end == "for_each":
            for x in drain(a0):
                self.call_value(a[1], [x])
            return []
        if end == "fold":
            acc = a[1]
            for x in drain(a0):
                acc = self.call_value(a[2], [acc, x])
            return acc
        if end == "rfold":
            acc = a[1]
            rest_ = [x for x in drain(a0)]             # (the iterator is consumed; the steps run from its back)
            for x in reversed(rest_):
                acc = self.call_value(a[2], [acc, x])
            return acc
        if end == "try_fold":
            acc = a[1]
            for x in drain(a0):
                r = self.call_value(a[2], [acc, x])
                if not isinstance(r, Enum):
                    raise Stuck("try_fold step undecided")
                good = (r.variant == 1) if is_opt(r) else (r.variant == 0)
                if not good:
                    return r
                acc = r.fields[0] if r.fields else UNKNOWN
            dty = (g.local_ty(tt["dest"]["local"]) or "") if (g is not None and tt is not None) else ""
            return some(acc) if dty.startswith("std::option::Option<") else ok(acc)
        if end == "try_for_each":
            for x in drain(a0):
                r = self.call_value(a[1], [x])
                if not isinstance(r, Enum):
                    raise Stuck("try_for_each step undecided")
                good = (r.variant == 1) if is_opt(r) else (r.variant == 0)
                if not good:
                    return r
            dty = (g.local_ty(tt["dest"]["local"]) or "") if (g is not None and tt is not None) else ""
            return some([]) if dty.startswith("std::option::Option<") else ok([])
        if end in ("any", "all"):
            res = end == "all"
            for x in drain(a0):
                r = self.call_value(a[1], [x])
                if r is UNKNOWN or not isinstance(r, bool):
                    raise Stuck("%s predicate undecided" % end)
                if end == "any" and r:
                    return True
                if end == "all" and not r:
                    return False
            return res
        if end in ("find", "position", "find_map"):
            for i, x in enumerate(drain(a0)):
                r = self.call_value(a[1], [x])
                if end == "find_map":
                    if isinstance(r, Enum) and r.variant == 1:
                        return r
                    if not isinstance(r, Enum):
                        raise Stuck("find_map undecided")
                    continue
                if r is True:
                    return some(x if end == "find" else i)
                if r is not False:
                    raise Stuck("%s predicate undecided" % end)
            return none()
        return NOT

    def _container(self, ty, items):
        if "HashMap<" in ty[:60] or "HashSet<" in ty[:60]:
            if "HashSet<" in ty[:60]:
                return Map((x, True) for x in items)
            return Map((x[0], x[1]) for x in items if isinstance(x, list) and len(x) == 2)
        return list(items)


class Bytes:
    def __init__(self, bs):
        self.bs = bs


class Tok_float:
    """a real number printed with a width / precision / flag: its text is not modelled"""
    def __init__(self, v):
        self.v = v

    def __repr__(self):
        return "<real %r formatted with a spec>" % self.v


class FmtArg:
    def __init__(self, kind, value, ty):
        self.kind, self.value, self.ty = kind, value, ty


class FmtArguments:
    def __init__(self, parts):
        self.parts = parts


class Sink:
    """a Formatter / writer that collects what is written to it"""
    def __init__(self):
        self.parts = []

    def text(self):
        return Text(self.parts).flat()


class Hole:
    """a part of a printed text that is the rendering of an opaque value"""
    def __init__(self, value, ty="", kind="display"):
        self.value, self.ty, self.kind = value, ty, kind

    def __repr__(self):
        return "{%r}" % (self.value,)


class Text:
    """printed text with holes; .flat() gives a plain str when there are no holes"""
    def __init__(self, parts):
        self.parts = []
        for p in parts:
            if isinstance(p, Text):
                self.parts += p.parts
            elif isinstance(p, str) and self.parts and isinstance(self.parts[-1], str):
                self.parts[-1] += p
            elif isinstance(p, (str, Hole)):
                self.parts.append(p)
            else:
                self.parts.append(Hole(p))

    def flat(self):
        if all(isinstance(p, str) for p in self.parts):
            return "".join(self.parts)
        return self

    def __repr__(self):
        return "Text(%s)" % "".join(p if isinstance(p, str) else repr(p) for p in self.parts)


class ListSlot(absint.Ptr):
    """&mut to one element of an abstract vector"""
    def __init__(self, lst, i):
        self.lst, self.i = lst, i

    def get(self):
        return self.lst[self.i]

    def set(self, v):
        self.lst[self.i] = v


class EntryTok:
    def __init__(self, m, key):
        self.map, self.key = m, key


class PeekableIt:
    """std::iter::Peekable around an abstract iterator"""
    def __init__(self, inner):
        self.inner, self.peeked = inner, None


class FnItem:
    def __init__(self, name):
        self.name = name

    def __repr__(self):
        return "fn:" + self.name.rsplit("::", 1)[-1]


OPTION_METHODS = {"transpose", "map", "and_then", "ok_or", "ok_or_else", "unwrap_or", "unwrap_or_else", "map_or", "map_or_else", "is_some",
                  "is_none", "or", "or_else", "filter", "unwrap", "expect", "take", "replace", "unwrap_or_default", "zip", "xor", "get_or_insert",
                  "get_or_insert_with", "insert"}
RESULT_METHODS = {"transpose", "map", "map_err", "and_then", "or_else", "ok", "err", "is_ok", "is_err", "unwrap_or", "unwrap_or_else", "unwrap",
                  "expect", "unwrap_or_default"}
FLOAT_UNARY = ("floor", "ceil", "round", "trunc", "abs", "fract", "neg", "sqrt", "signum", "is_nan", "is_infinite", "is_finite",
               "is_sign_negative", "is_sign_positive", "to_i32", "to_i64", "to_u32", "to_usize", "to_i16", "to_u8", "to_u64", "to_isize",
               "to_f32", "to_f64")
FLOAT_CONSTS = {"max_value": 3.4028234663852886e38, "min_value": -3.4028234663852886e38, "infinity": float("inf"), "neg_infinity": float("-inf"),
                "nan": float("nan"), "zero": 0.0, "one": 1.0, "epsilon": 1.1920928955078125e-07, "min_positive_value": 1.1754943508222875e-38,
                "neg_zero": -0.0}
PRIM_INTS = {"i8": (-2 ** 7, 2 ** 7 - 1), "i16": (-2 ** 15, 2 ** 15 - 1), "i32": (-2 ** 31, 2 ** 31 - 1), "i64": (-2 ** 63, 2 ** 63 - 1),
             "isize": (-2 ** 63, 2 ** 63 - 1), "i128": (-2 ** 127, 2 ** 127 - 1), "u8": (0, 2 ** 8 - 1), "u16": (0, 2 ** 16 - 1), "u32": (0, 2 ** 32 - 1),
             "u64": (0, 2 ** 64 - 1), "usize": (0, 2 ** 64 - 1), "u128": (0, 2 ** 128 - 1)}


def _default_of_type(ty):
    """Default::default() of a type named in a call's generic arguments (primitives and the std containers)"""
    ty = str(ty or "").strip()
    if ty in PRIM_INTS:
        return 0
    if ty == "bool":
        return False
    if ty in ("std::string::String", "&str", "String"):
        return ""
    if ty.startswith(("std::vec::Vec<", "smallvec::SmallVec<", "std::collections::VecDeque<")) or ty in ("std::vec::Vec", "smallvec::SmallVec", "std::collections::VecDeque"):
        return []
    if ty.startswith("std::option::Option<") or ty == "std::option::Option":
        return none()
    if ty.startswith(("std::collections::HashMap", "std::collections::HashSet", "std::collections::BTreeMap", "std::collections::BTreeSet")):
        return Map()
    return UNKNOWN
ITER_METHODS = {"tuple_windows", "tuples", "map", "filter", "filter_map", "map_while", "take_while", "flatten", "flat_map", "all_equal", "enumerate", "rev", "skip", "take", "zip", "chain", "collect", "count", "last",
                "for_each", "fold", "rfold", "sum", "product", "min", "max", "try_fold", "try_for_each", "any", "all", "find", "position", "find_map", "next", "next_back", "nth", "nth_back"}
