"""Semantics of the scope-chain primitives (LexicalScope::get / get_mut / set / define) by abstract evaluation on a concrete
chain of three frames F0 (innermost) -> F1 -> F2, for every subset of frames that bind the name.  Recursion of the primitive on
its parent is followed (inlined), a loop over the chain is unrolled: the verdict does not depend on how the walk is written.

   set    : exactly one store, into the binding of the innermost frame that has the name, of the given value; Ok;
            no store and Err when no frame has it; never an insert
   get(_mut): Some(binding of the innermost frame that has the name) / None
   define : exactly one insert, into F0, of (name, value)"""
from . import mir, absint
from .mir import callee, callee_matches

SCOPE = "environment::LexicalScope::"


class Tok:
    def __init__(self, kind, tag):
        self.kind, self.tag = kind, tag

    def __repr__(self):
        return "%s:%s" % (self.kind, self.tag)


PASS = ("RefCell::borrow", "RefCell::borrow_mut", "std::ops::Deref>::deref", "std::ops::DerefMut>::deref_mut",
        "std::convert::AsRef>::as_ref", "std::option::Option::as_ref", "Option<T>::as_ref", "std::option::Option::as_deref",
        "Option<T>::as_deref", "std::borrow::Borrow>::borrow", "std::borrow::BorrowMut>::borrow_mut", "Ref::map", "RefMut::map",
        "std::option::Option::as_mut", "Option<T>::as_mut", "std::clone::Clone>::clone")


def chain(n):
    fr = None
    for i in reversed(range(n)):
        par = absint.Enum(1, [fr]) if fr is not None else absint.Enum(0, [])
        fr = [par, Tok("defs", i)]
    return fr


def walk(fb, name, found, n=3):
    f = fb.find(SCOPE + name)
    NAME, VALUE = Tok("name", "name"), Tok("value", "value")
    ev = {"lookups": [], "stores": [], "inserts": [], "other": []}
    budget = [12]

    def run(scope):
        if budget[0] <= 0:
            raise absint.Loop("recursion budget")
        budget[0] -= 1

        def oracle(ff, bb, tt, env):
            c = callee(tt) or ""
            a = [absint.operand(env, x) for x in tt["args"]]
            a0 = a[0] if a else None
            if c == f.name:
                return run(a0)
            if c.startswith(SCOPE):
                ev["other"].append(c.rsplit("::", 1)[-1])
                return None
            if c.endswith("HashMap::contains_key"):
                if isinstance(a0, Tok) and a0.kind == "defs":
                    ev["lookups"].append(a0.tag)
                    return a0.tag in found if a[1] is NAME else absint.UNKNOWN
                return absint.UNKNOWN
            if c.endswith("HashMap::get") or c.endswith("HashMap::get_mut"):
                if isinstance(a0, Tok) and a0.kind == "defs":
                    ev["lookups"].append(a0.tag)
                    if a[1] is not NAME:
                        return absint.UNKNOWN
                    r = absint.Enum(1, [Tok("slot", a0.tag)]) if a0.tag in found else absint.Enum(0, [])
                    r.name = "Some" if a0.tag in found else "None"
                    return r
                return absint.UNKNOWN
            if callee_matches(tt, "HashMap::insert", "HashMap::entry", "HashMap::remove"):
                ev["inserts"].append((c.rsplit("::", 1)[-1], a0.tag if isinstance(a0, Tok) else None,
                                      a[1] is NAME if len(a) > 1 else None, a[2] is VALUE if len(a) > 2 else None))
                return absint.Enum(0, [])
            if c.endswith("std::ops::Try>::branch"):
                if isinstance(a0, absint.Enum):
                    if "option::Option" in c:
                        return absint.Enum(0, list(a0.fields)) if a0.variant == 1 else absint.Enum(1, [absint.Enum(0, [])])
                    return absint.Enum(a0.variant, list(a0.fields))
                return absint.UNKNOWN
            if c.endswith("FromResidual>::from_residual"):
                if "option::Option" in c:
                    r = absint.Enum(0, [])
                    r.name = "None"
                    return r
                r = absint.Enum(1, [absint.UNKNOWN])
                r.name = "Err"
                return r
            if c.endswith("Option<T>::unwrap") or c.endswith("Option::unwrap") or c.endswith("Option::expect"):
                return a0.fields[0] if isinstance(a0, absint.Enum) and a0.variant == 1 and a0.fields else absint.UNKNOWN
            if callee_matches(tt, *PASS):
                return a0
            return None

        def on_store(target, place, val, b):
            if isinstance(target, Tok) and target.kind == "slot":
                ev["stores"].append((target.tag, val is VALUE))
        env = {1: scope, 2: NAME, 3: VALUE}
        kind, b, env2 = absint.run_fragment(f, 0, env, oracle=oracle, max_visits=n + 2, on_store=on_store)
        return env2.get(0)
    try:
        res = run(chain(n))
    except (absint.Stuck, absint.Loop) as e:
        return {"stuck": str(e), **ev}
    out = dict(ev)
    if isinstance(res, absint.Enum):
        out["result"] = getattr(res, "name", None) or str(res.variant)
        toks = []

        def coll(v, d=0):
            if isinstance(v, Tok):
                toks.append((v.kind, v.tag))
            elif isinstance(v, absint.Enum) and d < 6:
                for x in v.fields:
                    coll(x, d + 1)
            elif isinstance(v, list) and d < 6:
                for x in v:
                    coll(x, d + 1)
        coll(res)
        out["result_binding"] = sorted({t for k, t in toks if k in ("slot", "defs")})
    else:
        out["result"] = repr(res)
        out["result_binding"] = []
    return out


def subsets(n=3):
    for m in range(1 << n):
        yield frozenset(i for i in range(n) if m >> i & 1)


def table(ctx, fb, rule, name, n=3):
    """check the primitive against the innermost-binding semantics; returns number of rows"""
    f = fb.find(SCOPE + name)
    from .ctx import where_of
    rows = 0
    for found in subsets(n):
        rows += 1
        r = walk(fb, name, found, n)
        inner = min(found) if found else None
        key = "%s/bound-in=%s" % (name, sorted(found))
        ctx.inst(rule, key, {k: (v if not isinstance(v, list) else [list(x) if isinstance(x, tuple) else x for x in v]) for k, v in r.items()})
        if "stuck" in r:
            ctx.oblige(False)
            ctx.report(rule, key, "cannot follow LexicalScope::%s on a chain where frames %s bind the name (%s)" % (name, sorted(found), r["stuck"]), where_of(f))
            continue
        if name == "set":
            ok = r["stores"] == ([(inner, True)] if found else []) and not r["inserts"] and not r["other"] and \
                r["result"] == ("Ok" if found else "Err")
            want = ("one store of the value into the binding of frame %s, Ok" % inner) if found else "no store, Err"
            got = "stores %s inserts %s result %s%s" % (r["stores"], r["inserts"], r["result"], (" calls " + str(r["other"])) if r["other"] else "")
        elif name in ("get", "get_mut"):
            ok = (r["result"] == "Some" and r["result_binding"] == [inner]) if found else r["result"] == "None"
            ok = ok and not r["stores"] and not r["inserts"] and not r["other"]
            want = ("Some(binding of frame %s)" % inner) if found else "None"
            got = "%s %s" % (r["result"], r["result_binding"])
        else:  # define
            ok = r["inserts"] == [("insert", 0, True, True)] and not r["stores"] and not r["other"]
            want = "one insert of (name, value) into frame 0"
            got = "inserts %s stores %s%s" % (r["inserts"], r["stores"], (" calls " + str(r["other"])) if r["other"] else "")
        ctx.oblige(ok)
        if not ok:
            ctx.report(rule, key, "LexicalScope::%s with the name bound in frames %s of F0->F1->F2: %s; expected %s" % (
                name, sorted(found), got, want), where_of(f))
    return rows
