"""Semantics of the scope-chain primitives (LexicalScope::get / get_mut / set / define) by abstract evaluation on a concrete
chain of three frames F0 (innermost) -> F1 -> F2, for every subset of frames that bind the name.  Recursion of the primitive on
its parent is followed (inlined), a loop over the chain is unrolled: the verdict does not depend on how the walk is written.

   set    : exactly one store, into the binding of the innermost frame that has the name, of the given value; Ok;
            no store and Err when no frame has it; never an insert
   get(_mut): Some(binding of the innermost frame that has the name) / None
   define : exactly one insert, into F0, of (name, value)"""
from . import mir, absint
from .mir import callee, callee_matches

SCOPE = "environment::LexicalScope::"


class Tok:
    def __init__(self, kind, tag):
        self.kind, self.tag = kind, tag

    def __repr__(self):
        return "%s:%s" % (self.kind, self.tag)


PASS = ("RefCell::borrow", "RefCell::borrow_mut", "std::ops::Deref>::deref", "std::ops::DerefMut>::deref_mut",
        "std::convert::AsRef>::as_ref", "std::option::Option::as_ref", "Option<T>::as_ref", "std::option::Option::as_deref",
        "Option<T>::as_deref", "std::borrow::Borrow>::borrow", "std::borrow::BorrowMut>::borrow_mut", "Ref::map", "RefMut::map",
        "std::option::Option::as_mut", "Option<T>::as_mut", "std::clone::Clone>::clone",
        # a copy of the name is still the name
        "std::string::ToString>::to_string", "std::borrow::ToOwned>::to_owned", "std::convert::From>::from",
        "std::convert::Into>::into", "str>::to_string", "str>::to_owned", "String::as_str")


def chain(n):
    fr = None
    for i in reversed(range(n)):
        par = absint.Enum(1, [fr]) if fr is not None else absint.Enum(0, [])
        fr = [par, Tok("defs", i)]
    return fr


def walk(fb, name, found, n=3):
    from . import machine
    from .machine import NOT
    f = fb.find(SCOPE + name)
    NAME, VALUE = Tok("name", "name"), Tok("value", "value")
    ev = {"lookups": [], "stores": [], "inserts": [], "other": [], "panics": []}

    def is_name(x):
        return x is NAME

    def intercept(mc, c, a, tt, g):
        a0 = a[0] if a else None
        if c.startswith(SCOPE) and c.rsplit("::", 1)[-1] in ("define", "set", "get", "get_mut") and c != f.name and g.name == f.name:
            ev["other"].append(c.rsplit("::", 1)[-1])       # one primitive written through another: followed, and noted
            return NOT
        if isinstance(a0, Tok) and a0.kind == "defs":
            if c.endswith("HashMap::contains_key"):
                ev["lookups"].append(a0.tag)
                return (a0.tag in found) if is_name(a[1]) else absint.UNKNOWN
            if c.endswith("HashMap::is_empty"):
                return a0.tag not in found            # (a frame of `found` binds the name: it binds something)
            if c.endswith("HashMap::len"):
                return 1 if a0.tag in found else 0
            if c.endswith("HashMap::get") or c.endswith("HashMap::get_mut"):
                ev["lookups"].append(a0.tag)
                if not is_name(a[1]):
                    return absint.UNKNOWN
                return machine.some(Tok("slot", a0.tag)) if a0.tag in found else machine.none()
            if callee_matches(tt, "std::ops::Index>::index", "std::ops::Index::index") and len(a) > 1:
                # map[name]: the slot, or a panic when the frame does not bind the name
                ev["lookups"].append(a0.tag)
                if not is_name(a[1]):
                    return absint.UNKNOWN
                if a0.tag not in found:
                    mc.events.append(("panic", "map[key] on an absent key", g.name if g else "?"))
                    return absint.UNKNOWN
                return Tok("slot", a0.tag)
            if c.endswith("HashMap::entry") and len(a) > 1:
                # the entry API: Occupied / Vacant as the frame binds the name or not; what is done with the entry is recorded below
                ev["lookups"].append(a0.tag)
                if not is_name(a[1]):
                    return absint.UNKNOWN
                e = absint.Enum(0 if a0.tag in found else 1, [Tok("entry", a0.tag)])
                e.name = "Occupied" if a0.tag in found else "Vacant"
                return e
            if callee_matches(tt, "HashMap::insert", "HashMap::entry", "HashMap::remove"):
                ev["inserts"].append((c.rsplit("::", 1)[-1], a0.tag, is_name(a[1]) if len(a) > 1 else None,
                                      a[2] is VALUE if len(a) > 2 else None))
                return machine.some(Tok("old-value", a0.tag)) if (len(a) > 1 and is_name(a[1]) and a0.tag in found) else machine.none()
            if callee_matches(tt, "Ref::map", "RefMut::map", "Ref::map_val") and len(a) > 1:
                return mc.call_value(a[1], [a0])
        if isinstance(a0, Tok) and a0.kind == "slot" and c in ("std::mem::replace", "core::mem::replace") and len(a) == 2:
            # the slot's value exchanged for another one: a store into the slot
            ev["stores"].append((a0.tag, a[1] is VALUE))
            return Tok("old-value", a0.tag)
        end = c.rsplit("::", 1)[-1]
        ent = a0 if isinstance(a0, Tok) and a0.kind == "entry" else (
            a0.fields[0] if isinstance(a0, absint.Enum) and a0.fields and isinstance(a0.fields[0], Tok) and a0.fields[0].kind == "entry" else None)
        if ent is not None and ("Entry" in c or "entry::" in c):
            occupied = ent.tag in found
            if end in ("insert", "insert_entry") and len(a) > 1:
                ev["inserts"].append(("insert", ent.tag, True, a[1] is VALUE))
                return Tok("slot", ent.tag) if end == "insert" and not occupied else (Tok("old-value", ent.tag) if end == "insert" else ent)
            if end in ("or_insert", "or_insert_with", "or_default", "or_insert_with_key"):
                if not occupied:
                    v = a[1] if end == "or_insert" else (mc.call_value(a[1], []) if end == "or_insert_with" else absint.UNKNOWN)
                    ev["inserts"].append(("insert", ent.tag, True, v is VALUE))
                return Tok("slot", ent.tag)
            if end in ("get_mut", "into_mut", "get"):
                return Tok("slot", ent.tag)
            if end == "and_modify" and len(a) > 1:
                if occupied:
                    mc.call_value(a[1], [Tok("slot", ent.tag)])
                return a0
            if end == "key":
                return NAME
            if end in ("remove", "remove_entry"):
                ev["inserts"].append(("remove", ent.tag, True, None))
                return Tok("old-value", ent.tag)
        return NOT

    def on_store(target, place, val, b):
        if isinstance(target, Tok) and target.kind == "slot":
            ev["stores"].append((target.tag, val is VALUE))
    mc = machine.Machine(fb, intercept=intercept, max_visits=n + 2, budget=60, on_store=on_store)
    head = chain(n)
    try:
        res = mc.run(f, [head, NAME, VALUE][:max(1, f.arg_count)] if f.arg_count <= 3 else [head, NAME, VALUE] + [absint.UNKNOWN] * (f.arg_count - 3))
    except (absint.Stuck, absint.Loop) as e:
        return {"stuck": str(e), **ev}
    ev["panics"] = [e[1] + " in " + e[2] for e in mc.events if e[0] == "panic"]
    out = dict(ev)
    out["_value"], out["_head"] = res, head
    if isinstance(res, absint.Enum):
        out["result"] = getattr(res, "name", None) or str(res.variant)
        names = set()

        def kinds(v, d=0):
            if isinstance(v, absint.Enum) and d < 8:
                if getattr(v, "name", None):
                    names.add(v.name)
                for x in v.fields:
                    kinds(x, d + 1)
            elif isinstance(v, list) and d < 8:
                for x in v:
                    kinds(x, d + 1)
        kinds(res)
        out["result_variants"] = sorted(names)
        toks = []

        def coll(v, d=0):
            if isinstance(v, Tok):
                toks.append((v.kind, v.tag))
            elif isinstance(v, absint.Enum) and d < 6:
                for x in v.fields:
                    coll(x, d + 1)
            elif isinstance(v, list) and d < 6:
                for x in v:
                    coll(x, d + 1)
        coll(res)
        out["result_binding"] = sorted({t for k, t in toks if k in ("slot", "defs")})
    else:
        out["result"] = repr(res)
        out["result_binding"] = []
    return out


def ancestor_writers(fb, n=3):
    """every method of LexicalScope (whatever it is called) run on the chain F0 -> F1 -> F2 with the name bound in every subset of
    frames: {method: [effects on a frame other than F0]} for those that write (insert / remove / store) a frame they were not
    called on, and {method: why} for those that cannot be followed"""
    writers, unfollowed = {}, {}
    for f in fb.all("lib"):
        if not f.name.startswith(SCOPE) or "{closure" in f.name or f.derived or f.name.count("::") != SCOPE.count("::"):
            continue
        if f.arg_count < 1 or "LexicalScope" not in (f.local_ty(1) or ""):
            continue
        meth = f.name[len(SCOPE):]
        for found in subsets(n):
            r = walk(fb, meth, found, n)
            if "stuck" in r:
                unfollowed[meth] = r["stuck"]
                break
            eff = [("%s of the name" % x[0] if x[2] else x[0], x[1]) for x in r["inserts"] if x[1] != 0] + \
                  [("store", fr) for fr, _ in r["stores"] if fr != 0]
            if eff:
                writers.setdefault(meth, [])
                writers[meth] += [(sorted(found), e) for e in eff if (sorted(found), e) not in writers[meth]][:2]
    return writers, unfollowed


def subsets(n=3):
    for m in range(1 << n):
        yield frozenset(i for i in range(n) if m >> i & 1)


def rule_new_child(ctx, fb, rule, n=3):
    """LexicalScope::new_child(P) on a chain P -> F1 -> F2 where every subset of the frames binds something: the new frame's parent is
    P itself — also when P binds nothing (yet): definitions made in P later must be visible from the child.  -> rows decided"""
    from .ctx import where_of
    try:
        f = fb.find(SCOPE + "new_child")
    except mir.AnchorMissing as e:
        ctx.undecided(rule, "new_child", str(e))
        return 0
    rows = 0
    for found in subsets(n):
        key = "new_child/frames-that-bind-something=%s" % sorted(found)
        r = walk(fb, "new_child", found, n)
        if "stuck" in r:
            ctx.undecided(rule, key, "cannot follow LexicalScope::new_child (%s)" % r["stuck"], where_of(f))
            continue
        v, head = r.get("_value"), r.get("_head")
        fields = v.fields if isinstance(v, absint.Enum) else (v if isinstance(v, list) else None)
        par = None
        for x in (fields or []):
            if isinstance(x, absint.Enum) and x.variant == 1 and x.fields:
                par = x.fields[0]
        if fields is None or par is None:
            ctx.undecided(rule, key, "the frame new_child builds is not a (parent, table) pair with a parent (%r)" % (v,), where_of(f))
            continue
        rows += 1
        good = par is head
        ctx.inst(rule, key, {"parent_is_the_argument": bool(good)})
        ctx.oblige(bool(good))
        if not good:
            which = None
            fr, i = head, 0
            while isinstance(fr, list) and i < n:
                if par is fr:
                    which = i
                nxt_ = fr[0]
                fr = nxt_.fields[0] if isinstance(nxt_, absint.Enum) and nxt_.variant == 1 and nxt_.fields else None
                i += 1
            ctx.report(rule, key, "new_child(P), with the frames %s of the chain P -> F1 -> F2 binding something, hangs the new frame on %s instead "
                       "of P: names defined in P after the child was made (internal definitions of the body a closure was made in) are "
                       "invisible from it" % (sorted(found), ("frame %d of the chain" % which) if which is not None else "another frame"), where_of(f))
    return rows


def table(ctx, fb, rule, name, n=3):
    """check the primitive against the innermost-binding semantics; returns number of rows"""
    f = fb.find(SCOPE + name)
    from .ctx import where_of
    rows = 0
    for found in subsets(n):
        rows += 1
        r = walk(fb, name, found, n)
        inner = min(found) if found else None
        key = "%s/bound-in=%s" % (name, sorted(found)) + ("" if n == 3 else "/chain-of-%d" % n)
        ctx.inst(rule, key, {k: (v if not isinstance(v, list) else [list(x) if isinstance(x, tuple) else x for x in v]) for k, v in r.items()
                             if not k.startswith("_")})
        if "stuck" in r:
            ctx.undecided(rule, key, "cannot follow LexicalScope::%s on a chain where frames %s bind the name (%s)" % (name, sorted(found), r["stuck"]), where_of(f))
            continue
        if name == "set":
            # overwriting by re-inserting under the same name into the frame that already binds it is the same effect
            effects = r["stores"] + [(fr, v) for (how, fr, k, v) in r["inserts"] if how == "insert" and k and fr in found]
            other_ins = [x for x in r["inserts"] if not (x[0] == "insert" and x[2] and x[1] in found)]
            ok = effects == ([(inner, True)] if found else []) and not other_ins and \
                r["result"] == ("Ok" if found else "Err")
            want = ("one store of the value into the binding of frame %s, Ok" % inner) if found else "no store, Err"
            got = "stores %s inserts %s result %s%s" % (r["stores"], r["inserts"], r["result"], (" calls " + str(r["other"])) if r["other"] else "")
        elif name in ("get", "get_mut"):
            ok = (r["result"] == "Some" and r["result_binding"] == [inner]) if found else r["result"] == "None"
            ok = ok and not r["stores"] and not r["inserts"]
            want = ("Some(binding of frame %s)" % inner) if found else "None"
            got = "%s %s" % (r["result"], r["result_binding"])
        else:  # define
            # (overwriting the binding the innermost frame already has, in place, is the same effect as inserting over it)
            ok = (r["inserts"] == [("insert", 0, True, True)] and not r["stores"]) or \
                 (0 in found and not r["inserts"] and r["stores"] == [(0, True)])
            want = "one insert of (name, value) into frame 0"
            got = "inserts %s stores %s%s" % (r["inserts"], r["stores"], (" calls " + str(r["other"])) if r["other"] else "")
        if r.get("panics"):
            ok = False
            got += " PANICS: %s" % r["panics"]
        ctx.oblige(ok)
        if not ok:
            ctx.report(rule, key, "LexicalScope::%s with the name bound in frames %s of %s: %s; expected %s" % (
                name, sorted(found), "->".join("F%d" % i for i in range(n)), got, want), where_of(f))
    return rows
