"""Decision tables of the evaluator core, by abstract evaluation (machine.py) on symbolic expression skeletons.

The sub-forms of the skeleton are opaque markers; evaluating a marker is an *event* that yields a token "the value of <tag>"
(or, per scenario, a procedure value / a non-procedure value / an error).  Frames are tokens too: `new_child(p)` is an event
yielding a fresh frame token whose parent is p; define / set / get on a frame token are events answered per scenario.  The
tables therefore state, for every expression of the given shape and every outcome of the sub-evaluations, what is evaluated,
in which environment, how often, what is applied to what, which frame is written and what is returned — independently of
how the evaluator is split into helpers, of recursion vs loops and of match vs combinators.

Shared by C01 (once / dispatch / scope), C02 (trampoline), C03 (fresh frame), C08 (arity, non-procedure, unbound) and C15
(offender location)."""
from . import mir, absint, machine
from .absint import Enum, UNKNOWN
from .machine import NOT, Machine, ok, err, some, none
from .mir import callee, callee_matches

INTERP = "interpreter::interpreter::Interpreter::"
SCOPE = "environment::LexicalScope::"


class Tok:
    def __init__(self, kind, tag, **kw):
        self.kind, self.tag = kind, tag
        self.__dict__.update(kw)

    def __repr__(self):
        return "%s<%s>" % (self.kind, self.tag)


class World:
    def __init__(self, fb):
        self.fb = fb
        self.ev = dict((n, i) for i, n in fb.variants("parser::parser::ExpressionBody"))
        self.val = dict((n, i) for i, n in fb.variants("values::Value"))
        self.proc = dict((n, i) for i, n in fb.variants("values::Procedure"))
        self.pf = dict((n, i) for i, n in fb.variants("parser::parser::ParameterFormalsBody"))
        self.gp = dict((n, i) for i, n in fb.variants("parser::pair::GenericPair"))
        self.ee = fb.find(INTERP + "eval_expression")
        self.ete = fb.find(INTERP + "eval_tail_expression")
        self.ap = fb.find(INTERP + "apply_procedure")
        self.asp = fb.find(INTERP + "apply_scheme_procedure")
        if not getattr(self.asp, "missing", False) and self.asp.arg_count != 5:
            # same name, another signature: it cannot be stubbed with the pinned argument layout — follow it like any helper
            self.asp = mir.MissingFunc(INTERP + "apply_scheme_procedure")
        self.epc = fb.find(INTERP + "eval_procedure_call")
        self.nloc = 0

    def loc(self):
        self.nloc += 1
        return some([100 + self.nloc, 1])

    def named(self, adt_map, name, fields, label=None):
        e = Enum(adt_map[name], fields)
        e.name = label or name
        return e

    def sym(self, tag):
        return [self.named(self.ev, "Symbol", [tag]), self.loc()]

    def call(self, op, args):
        return [self.named(self.ev, "ProcedureCall", [op, list(args)]), self.loc()]

    def cond(self, t, c, a=None):
        return [self.named(self.ev, "Conditional", [[t, c, some(a) if a is not None else none()]]), self.loc()]

    def assign(self, name, e):
        return [self.named(self.ev, "Assignment", [name, e]), self.loc()]

    def lam(self, sp):
        return [self.named(self.ev, "Procedure", [sp]), self.loc()]

    def formals(self, fixed, rest=None):
        tail = [self.named(self.pf, "Name", [rest]), self.loc()] if rest else \
            [self.named(self.pf, "Pair", [self.named(self.gp, "Empty", [])]), self.loc()]
        for n in reversed(fixed):
            car = [self.named(self.pf, "Name", [n]), self.loc()]
            tail = [self.named(self.pf, "Pair", [self.named(self.gp, "Some", [car, tail])]), self.loc()]
        return tail

    def scheme_procedure(self, formals, defs, body):
        return [formals, [[[n, e], self.loc()] for n, e in defs], list(body)]

    def user(self, sp, env):
        return self.named(self.proc, "User", [sp, env])

    def procedure_value(self, p):
        return self.named(self.val, "Procedure", [p])

    def tag_of(self, x):
        try:
            if isinstance(x, list) and isinstance(x[0], Enum) and x[0].variant == self.ev["Symbol"] and isinstance(x[0].fields[0], str):
                return x[0].fields[0]
        except Exception:
            pass
        return None


class Frame(Tok):
    n = 0

    def __init__(self, parent, label=None):
        Frame.n += 1
        Tok.__init__(self, "frame", label or "f%d" % Frame.n, parent=parent)
        self.defs = machine.Map()          # what `define` has put into this frame during the run (name -> value)

    def field_view(self, e):
        """what a direct read of a field of the scope sees (code that walks the chain itself instead of calling a method)"""
        if e.get("name") == "parent":
            return some(self.parent) if self.parent is not None else none()
        if e.get("name") == "definitions":
            return self.defs
        return absint.UNKNOWN


def contains(v, pred, depth=10):
    if depth < 0:
        return False
    if pred(v):
        return True
    if isinstance(v, Enum):
        return any(contains(x, pred, depth - 1) for x in v.fields)
    if isinstance(v, (list, tuple)):
        return any(contains(x, pred, depth - 1) for x in v)
    return False


def find_enum(v, name, depth=10):
    out = []

    def go(x, d):
        if d < 0:
            return
        if isinstance(x, Enum):
            if getattr(x, "name", None) == name:
                out.append(x)
            for y in x.fields:
                go(y, d - 1)
        elif isinstance(x, (list, tuple)):
            for y in x:
                go(y, d - 1)
    go(v, depth)
    return out


class Run:
    """one abstract run with the common intercepts; `answers` maps marker tag -> what evaluating it yields
    (default: Ok(value-of tag)); events are recorded in order."""

    def __init__(self, w, answers=None, truths=None, lookups=None, set_result=None, follow=(), tail_answers=None, epc_answers=None,
                 asp_answers=None, stub_eval_all=False, apply_answers=None, builtin_answers=None):
        self.stub_eval_all = stub_eval_all
        self.apply_answers = list(apply_answers or [])
        self.builtin_answers = list(builtin_answers or [])
        self.rc_count = 1
        self.w = w
        self.answers = answers or {}
        self.truths = truths or {}
        self.lookups = lookups or {}
        self.set_result = set_result
        self.follow = set(follow)
        self.tail_answers = tail_answers or {}
        self.epc_answers = list(epc_answers or [])
        self.asp_answers = list(asp_answers) if asp_answers is not None else None
        self.events = []
        self.marks = {}
        self.define_result = None      # what LexicalScope::define hands back (frame, name) -> value; default: nothing (unit)
        self.mc = Machine(w.fb, intercept=self.intercept, max_visits=8, budget=300)

    def mark(self, obj, tag):
        self.marks[id(obj)] = (obj, tag)
        return obj

    def tag(self, x):
        m = self.marks.get(id(x))
        if m is not None and m[0] is x:
            return m[1]
        return self.w.tag_of(x)

    def value_of(self, tag):
        if tag in self.answers:
            a_ = self.answers[tag]
            return a_() if callable(a_) else a_
        return ok(Tok("value-of", tag))

    def intercept(self, mc, c, a, tt, g):
        w = self.w
        a0 = a[0] if a else None
        if c in (w.ee.name, w.ete.name) and c not in self.follow_now(g, c, a0):
            tag = self.tag(a0)
            if tag is not None:
                envv = a[1] if len(a) > 1 else None
                if c == w.ee.name:
                    self.events.append(("eval", tag, envv))
                    return self.value_of(tag)
                self.events.append(("tail", tag, envv))
                if tag in self.tail_answers:
                    return self.tail_answers[tag]
                r = Enum(1, [Tok("value-of", tag)])
                r.name = "Value"
                return ok(r)
            if self.stub_eval_all and c == w.ee.name:
                # a compound form handed to eval_expression: an event of its own (it is evaluated on the Rust stack)
                d = self.describe(a0)
                self.events.append(("eval", d, a[1] if len(a) > 1 else None))
                return ok(Tok("value-of", d))
            return NOT
        if c == w.ap.name and w.ap.name not in self.follow:
            self.events.append(("apply", a0, a[1] if len(a) > 1 else None, a[2] if len(a) > 2 else None))
            if self.apply_answers:
                return self.apply_answers.pop(0)
            return ok(Tok("result-of-apply", "r"))
        if c == w.asp.name and w.asp.name not in self.follow:
            self.events.append(("apply-user",) + tuple(a))
            if self.asp_answers:
                return self.asp_answers.pop(0)
            r = Enum(1, [Tok("value-of", "body")])
            r.name = "Value"
            return ok(r)
        if c == "values::BuiltinProcedureBody::apply" or c.endswith("BuiltinProcedureBody::apply"):
            self.events.append(("apply-builtin",) + tuple(a))
            if self.builtin_answers:
                return self.builtin_answers.pop(0)
            return ok(Tok("value-of", "builtin-result"))
        if c == w.epc.name and w.epc.name not in self.follow:
            self.events.append(("eval-tail-call",) + tuple(a))
            if self.epc_answers:
                a_ = self.epc_answers.pop(0)
                return a_() if callable(a_) else a_
            return UNKNOWN
        if c.endswith("Rc::strong_count") or c.endswith("Rc::weak_count"):
            if isinstance(a0, Frame) and c.endswith("strong_count"):
                # procedures the frame itself binds that are closed over it hold it as well (an internal procedure definition)
                return self.rc_count + sum(1 for v_ in a0.defs.d.values() for u in find_enum(v_[1], "User")
                                           if len(u.fields) > 1 and u.fields[1] is a0)
            return self.rc_count
        if c.endswith("Rc::ptr_eq"):
            return a0 is a[1]
        if c.endswith("Value::as_boolean"):
            if isinstance(a0, Tok) and a0.tag in self.truths:
                self.events.append(("as_boolean", a0.tag))
                return self.truths[a0.tag]
            if isinstance(a0, Enum):
                return NOT                      # a real value: the crate's own as_boolean decides
            return UNKNOWN
        if c == SCOPE + "new_child":
            fr = Frame(a0)
            self.events.append(("new_child", fr, a0))
            return fr
        if c == SCOPE + "new":
            fr = Frame(None)
            self.events.append(("new", fr))
            return fr
        if c == SCOPE + "define":
            self.events.append(("define", a0, a[1], a[2]))
            back = self.define_result(a0, a[1]) if self.define_result is not None else []
            if isinstance(a0, Frame):
                a0.defs.d[machine.key_of(a[1])] = (a[1], a[2])
            return back
        if c == SCOPE + "set":
            self.events.append(("set", a0, a[1], a[2]))
            return self.set_result if self.set_result is not None else ok([])
        if c in (SCOPE + "get", SCOPE + "get_mut"):
            self.events.append(("get", a0, a[1]))
            if a[1] in self.lookups:
                return self.lookups[a[1]]
            if isinstance(a[1], str) and a[1] in self.truths:
                # a marker looked up as a variable (an evaluator that inspects a variable test in place): bound to the marker's value
                return some(Tok("value-of", a[1]))
            if isinstance(a[1], str) and a[1] in self.answers:
                v_ = self.value_of(a[1])
                if isinstance(v_, Enum) and getattr(v_, "name", None) == "Ok" and v_.fields:
                    return some(v_.fields[0])
            return UNKNOWN
        if c.endswith("FromIterator>::from_iter") and "GenericPair" in c:
            items = a0.rest() if isinstance(a0, machine.Iter) else (a0 if isinstance(a0, list) else None)
            return Tok("list-of", "rest", items=items)
        if callee_matches(tt, "itertools::Itertools::join", "itertools::join", "alloc::fmt::format", "std::fmt::format"):
            return Tok("text", "text")
        return NOT

    def describe(self, x):
        w = self.w
        try:
            if isinstance(x, list) and isinstance(x[0], Enum):
                n = getattr(x[0], "name", "?")
                if n == "ProcedureCall":
                    return "call:" + str(w.tag_of(x[0].fields[0]))
                if n == "Conditional":
                    return "if:" + str(w.tag_of(x[0].fields[0][0]))
                return n
        except Exception:
            pass
        return "?"

    def follow_now(self, g, c, a0):
        return ()

    def run(self, f, args):
        return self.mc.run(f, args)


# ================================================================================================ eval_expression tables


def call_table(w, n_args=3):
    """(OP A1..An) evaluated by eval_expression: rows of (scenario, verdict dict)"""
    rows = []
    env = Frame(None, "caller-env")
    for scenario in ("procedure", "non-procedure", "operand-error"):
        op = w.sym("OP")
        args = [w.sym("A%d" % i) for i in range(1, n_args + 1)]
        expr = w.call(op, args)
        ptok = Tok("procedure", "P")
        answers = {}
        if scenario == "non-procedure":
            answers["OP"] = ok(w.named(w.val, "Boolean", [True]))
        else:
            answers["OP"] = ok(w.procedure_value(ptok))
        if scenario == "operand-error":
            answers["A2"] = err(Tok("error", "E2"))
        r = Run(w, answers=answers)
        try:
            res = r.run(w.ee, [expr, env])
        except (absint.Stuck, absint.Loop) as e:
            rows.append((scenario, {"stuck": str(e)}))
            continue
        evals = [e for e in r.events if e[0] == "eval"]
        applies = [e for e in r.events if e[0] == "apply"]
        d = {"evaluated": [e[1] for e in evals], "envs_ok": all(e[2] is env for e in evals), "applies": len(applies),
             "result": res, "expr": expr, "op": op}
        if applies:
            ap = applies[0]
            d["applied_is_operator_value"] = ap[1] is ptok
            av = ap[2]
            d["apply_args"] = [getattr(x, "tag", None) if isinstance(x, Tok) else None for x in av] if isinstance(av, list) else None
            d["apply_env_ok"] = ap[3] is env
            d["apply_after_evals"] = r.events.index(ap) > max([r.events.index(e) for e in evals] or [-1])
        rows.append((scenario, d))
    return rows


def symbol_table(w):
    rows = []
    env = Frame(None, "caller-env")
    for found in (True, False):
        expr = w.sym("x")
        bound = Tok("binding", "x")
        r = Run(w, lookups={"x": some(bound) if found else none()})
        try:
            res = r.run(w.ee, [expr, env])
        except (absint.Stuck, absint.Loop) as e:
            rows.append((found, {"stuck": str(e)}))
            continue
        gets = [e for e in r.events if e[0] == "get"]
        rows.append((found, {"result": res, "lookups": len(gets), "lookup_env_ok": all(e[1] is env for e in gets), "bound": bound, "expr": expr}))
    return rows


def assignment_table(w):
    rows = []
    env = Frame(None, "caller-env")
    for outcome in ("ok", "unbound"):
        expr = w.assign("x", w.sym("E"))
        e_unbound = Tok("error", "unbound-from-set")
        r = Run(w, set_result=ok([]) if outcome == "ok" else err(e_unbound))
        try:
            res = r.run(w.ee, [expr, env])
        except (absint.Stuck, absint.Loop) as e:
            rows.append((outcome, {"stuck": str(e)}))
            continue
        sets = [e for e in r.events if e[0] == "set"]
        evals = [e for e in r.events if e[0] == "eval"]
        rows.append((outcome, {"result": res, "sets": [(s[1] is env, s[2], isinstance(s[3], Tok) and s[3].tag == "E") for s in sets],
                               "evaluated": [e[1] for e in evals], "defines": len([e for e in r.events if e[0] == "define"]),
                               "error": e_unbound}))
    return rows


def lambda_table(w, shape="root"):
    """a lambda expression evaluated in (root) a frame without parent, (empty-frame) a frame that binds nothing yet — the frame of a
    thunk, a `begin` body, a procedure whose internal definitions come later — under a parent that binds something, (bound-frame) a
    frame with a binding under such a parent: the closure captures THAT frame"""
    outer = Frame(None, "enclosing-env")
    outer.defs.d["g"] = ("g", Tok("value", "G"))
    env = Frame(None, "creation-env") if shape == "root" else Frame(outer, "creation-env")
    if shape == "bound-frame":
        env.defs.d["v"] = ("v", Tok("value", "V"))
    sp = w.scheme_procedure(w.formals(["a"]), [], [w.sym("B")])
    expr = w.lam(sp)
    r = Run(w)
    try:
        res = r.run(w.ee, [expr, env])
    except (absint.Stuck, absint.Loop) as e:
        return {"stuck": str(e)}
    users = find_enum(res, "User")
    return {"result": res, "captures_creation_env": bool(users) and all(len(u.fields) > 1 and u.fields[1] is env for u in users),
            "same_code": bool(users) and all(u.fields[0] is sp or u.fields[0] == sp for u in users),
            "events": [e[0] for e in r.events], "new_frames": len([e for e in r.events if e[0] in ("new_child", "new")])}


# ================================================================================================ application tables


def application_table(w):
    """apply_procedure on a user procedure (lambda FORMALS (define d D) B1 B2) closed over CENV, with k arguments.
    rows: (formals kind, k) -> dict"""
    rows = []
    for kind, fixed, rest in (("fixed2", ["a", "b"], None), ("rest", ["a"], "r"), ("thunk", [], None), ("fixed2+procedure-definition", ["a", "b"], None),
                              ("fixed1", ["a"], None), ("fixed3", ["a", "b", "c"], None), ("rest-only", [], "r"), ("fixed2-rest", ["a", "b"], "r"),
                              ("fixed4", ["a", "b", "c", "e"], None),
                              # the captured environment is a frame that binds nothing (yet) below one that does — the body of a `begin` /
                              # `let ()` / clause, or a body whose internal definitions are still being evaluated — and one that binds
                              # something: the new frame hangs on the captured frame itself, whatever that frame holds at the moment
                              ("thunk@empty-child", [], None), ("fixed1@empty-child", ["a"], None), ("fixed1@binding-child", ["a"], None),
                              # bodies WITHOUT internal definitions (a fast path may tell them apart): whatever binds a parameter — a rest
                              # parameter alone included — binds it in a frame of the call's own.  (A parameterless procedure without
                              # definitions binds nothing: whether it gets a frame cannot be observed, so there is no such row.)
                              ("rest-only!nodefs", [], "r"), ("fixed1!nodefs", ["a"], None), ("rest!nodefs", ["a"], "r")):
        for k in (range(0, 4) if kind in ("fixed2", "rest", "thunk") else (2,) if "+" in kind else (len(fixed),) if "@" in kind else
                  (len(fixed), len(fixed) + 2) if ("!" in kind and rest is not None) else (len(fixed),) if "!" in kind else range(0, 6)):
            cenv = Frame(None, "closure-env")
            if "@" in kind:
                outer = Frame(None, "outer-env")
                outer.defs.d["outer-name"] = ("outer-name", Tok("value-of", "outer-value"))
                cenv = Frame(outer, "closure-env")
                if kind.endswith("binding-child"):
                    cenv.defs.d["inner-name"] = ("inner-name", Tok("value-of", "inner-value"))
            caller = Frame(None, "caller-env")
            d_marker, b1, b2 = w.sym("D"), w.sym("B1"), w.sym("B2")
            defs_ = [("d", d_marker)] if "!" not in kind else []
            if "+" in kind:
                # an internal definition whose value is a procedure (closed over the body frame): it stays bound in that frame after
                # the body has produced its value — closures made in the body may outlive the call and look it up by name
                defs_ = [("d", d_marker), ("helper", w.lam(w.scheme_procedure(w.formals(["y"]), [], [w.sym("H1")])))]
            sp = w.scheme_procedure(w.formals(fixed, rest), defs_, [b1, b2])
            proc = w.user(sp, cenv)
            args = [Tok("arg", "V%d" % i) for i in range(1, k + 1)]
            r = Run(w, follow=[w.asp.name])
            if "+" in kind:
                # (real values throughout: code that looks at what the frame holds can be followed)
                num_ = dict((n_, i_) for i_, n_ in w.fb.variants("values::Number"))
                args = [w.named(w.val, "Boolean", [True]), w.named(w.val, "Number", [w.named(num_, "Integer", [7])])]
                # (the body's value is a real value too: code that looks at what the call returns before it lets go of the frame)
                tv = Enum(1, [w.named(w.val, "Boolean", [True])])
                tv.name = "Value"
                r = Run(w, follow=[w.asp.name], answers={"D": ok(w.named(w.val, "Boolean", [False]))}, tail_answers={"B2": ok(tv)})
                # somebody besides the call holds the frame (a closure made in the body that left it another way than as the value):
                # only then can anybody see what the frame binds afterwards — a frame nobody holds may be emptied
                r.rc_count = 2
            try:
                res = r.run(w.ap, [proc, list(args), caller])
            except (absint.Stuck, absint.Loop) as e:
                rows.append(((kind, k), {"stuck": str(e)}))
                continue
            frames = [e for e in r.events if e[0] == "new_child"]
            defines = [e for e in r.events if e[0] == "define"]
            evals = [e for e in r.events if e[0] in ("eval", "tail")]
            accept = k == len(fixed) or (rest is not None and k >= len(fixed))
            d = {"accepts": accept, "result": res, "frames": len(frames),
                 "frame_parent_is_closure_env": bool(frames) and all(f[2] is cenv for f in frames),
                 "defines": [(e[1] is (frames[0][1] if frames else None), e[2], e[3]) for e in defines],
                 "evals": [(e[0], e[1], e[2] is (frames[0][1] if frames else None)) for e in evals],
                 "order": [(e[0], e[1] if e[0] in ("eval", "tail") else (e[2] if e[0] == "define" else None)) for e in r.events
                           if e[0] in ("eval", "tail", "define", "new_child")],
                 "args": args, "panics": [e for e in r.mc.events if e[0] == "panic"], "visited": set(r.mc.visited),
                 "fixed": list(fixed), "rest": rest}
            if "+" in kind and frames:
                d["bound_after"] = sorted(str(v_[0]) for v_ in frames[0][1].defs.d.values())
                # names the frame binds to a procedure closed over that very frame: frame -> procedure -> frame
                d["closed_over_own_frame"] = sorted(str(v_[0]) for v_ in frames[0][1].defs.d.values()
                                                    if any(len(u.fields) > 1 and u.fields[1] is frames[0][1] for u in find_enum(v_[1], "User")))
            rows.append(((kind, k), d))
    return rows


def thunk_call_table(w):
    """eval_expression on ((lambda () (define d D) B1 B2)) — what a `let` without bindings, `begin` and the clause bodies expand to — in
    the frame E: the internal definition belongs to a frame of the call's own, never to E"""
    E = Frame(None, "caller-frame")
    sp = w.scheme_procedure(w.formals([]), [("d", w.sym("D"))], [w.sym("B1"), w.sym("B2")])
    form = w.call(w.lam(sp), [])
    r = Run(w, follow=[w.ap.name, w.asp.name])
    try:
        res = r.run(w.ee, [form, E])
    except (absint.Stuck, absint.Loop) as e:
        return {"stuck": str(e)}
    defines = [e for e in r.events if e[0] == "define"]
    return {"result": res, "E": E, "defines": [(e[1], e[2]) for e in defines],
            "evals": [(e[1], e[2]) for e in r.events if e[0] in ("eval", "tail")]}


def rule_thunk_call(ctx, rule):
    fb = ctx.fb()
    w = tables(fb)["w"]
    d = thunk_call_table(w)
    key = "call/((lambda () (define d D) B1 B2))"
    where = mir_where(w.ee)
    if "stuck" in d:
        ctx.undecided(rule, key, "abstract evaluation could not follow the evaluator on this case (%s)" % d["stuck"], where)
        return 0
    E = d["E"]
    in_caller = [n for fr, n in d["defines"] if fr is E]
    in_child = [n for fr, n in d["defines"] if isinstance(fr, Frame) and fr is not E and fr.parent is E]
    body_in_caller = [t for t, fr in d["evals"] if fr is E and t in ("D", "B1", "B2")]
    if not in_caller and not body_in_caller and "d" not in in_child:
        ctx.undecided(rule, key, "cannot see where the internal definition of a parameterless lambda called in place is bound (%r)" % (d["defines"],), where)
        return 0
    good = not in_caller and not body_in_caller
    ctx.inst(rule, key, {"internal_definition_in_own_frame": good})
    ctx.oblige(good)
    if not good:
        ctx.report(rule, key, "evaluating ((lambda () (define d D) B1 B2)) in a frame E %s; expected a child frame of E made for the call "
                   "(the body of a `let` without bindings is a region of its own: its definitions must not touch the variables of the enclosing scope)" % (
                       "binds %s in E itself" % in_caller if in_caller else "evaluates %s in E itself" % body_in_caller), where)
    return 1


def trampoline_table(w):
    """apply_procedure where the first application ends in a pending tail call to (P2 args2): the next turn must apply P2 to
    args2 with P2's own arity checked again; nothing of turn 1 is reused."""
    rows = []
    for second, k2 in (("user-ok", 1), ("user-arity", 2), ("builtin", 1), ("self-arity", 2), ("same-code-other-env", 1), ("thunk-ok", 0)):
        cenv1, cenv2, caller = Frame(None, "closure-env-1"), Frame(None, "closure-env-2"), Frame(None, "caller-env")
        sp1 = w.scheme_procedure(w.formals(["a"]), [], [w.sym("B1")])
        sp2 = w.scheme_procedure(w.formals(["x"]), [], [w.sym("B2")])
        if second == "thunk-ok":
            # the tail-called procedure has no parameters and no definitions (a named thunk): it still runs under ITS closure
            # environment, in a frame of its own — not in the frame the tail call was made from
            sp2 = w.scheme_procedure(w.formals([]), [], [w.sym("B2")])
        p1 = w.user(sp1, cenv1)
        if second == "builtin":
            params2 = w.formals(["x"])
            p2 = w.named(w.proc, "Builtin", [[Tok("name", "builtin-name"), params2, Tok("body", "builtin-body")]])
        elif second == "self-arity":
            p2, sp2, cenv2 = p1, sp1, cenv1          # the procedure tail-calls itself, with one argument too many
        elif second == "same-code-other-env":
            # two closures of ONE lambda expression (a procedure made twice by the same maker): equal code, different captured
            # environments; the second turn belongs to the second closure
            sp2 = sp1
            p2 = w.user(sp1, cenv2)
        else:
            p2 = w.user(sp2, cenv2)
        args2 = [Tok("arg", "W%d" % i) for i in range(1, k2 + 1)]
        tail_env = Frame(None, "frame-of-turn-1")
        operands2 = [w.sym("X%d" % i) for i in range(1, k2 + 1)]
        tc = Enum(0, [Enum(0, [w.sym("OP2"), operands2, tail_env])])
        tc.name = "TailCall"
        tc.fields[0].name = "Ref"
        val = Enum(1, [Tok("value-of", "final")])
        val.name = "Value"
        # (when the function that evaluates a pending call is not there to be stubbed, the pending call's operator and operands are
        # evaluated for real: their values are the second procedure and its arguments)
        leaf_answers = dict([("OP2", ok(w.procedure_value(p2)))] + [("X%d" % (i + 1), ok(a_)) for i, a_ in enumerate(args2)])
        if getattr(w.asp, "missing", False):
            # no apply_scheme_procedure to stub: both turns are followed through whatever code applies a user procedure; the
            # body of the first procedure is the single form TAILCALL (its tail evaluation hands back the pending call), the
            # body of the second is B2
            sp1[2][:] = [w.sym("TAILCALL")]

            class _Once(dict):
                # (two closures of one lambda share the body: its tail form is a pending call the first time, a value the second)
                n = 0

                def __contains__(self, k):
                    return k in ("TAILCALL", "B2")

                def __getitem__(self, k):
                    if k == "B2":
                        return ok(val)
                    _Once.n += 1
                    return ok(tc) if _Once.n == 1 else ok(val)
            r = Run(w, answers=leaf_answers, epc_answers=[ok([p2, list(args2)])])
            r.tail_answers = _Once()          # (assigned afterwards: an empty dict subclass is falsy)
        else:
            r = Run(w, answers=leaf_answers, asp_answers=[ok(tc), ok(val)], epc_answers=[ok([p2, list(args2)])])
        try:
            res = r.run(w.ap, [p1, [Tok("arg", "V1")], caller])
        except (absint.Stuck, absint.Loop) as e:
            rows.append((second, {"stuck": str(e)}))
            continue
        real = None
        if second in ("user-arity", "self-arity") and not getattr(w.asp, "missing", False):
            # the same with the code that applies a user procedure followed for real: an argument count checked while the parameters
            # are bound (inside that code) counts as checked
            sp1r = w.scheme_procedure(w.formals(["a"]), [], [w.sym("TAILCALL")])
            sp2r = sp1r if second == "self-arity" else w.scheme_procedure(w.formals(["x"]), [], [w.sym("B2")])
            p1r = w.user(sp1r, cenv1)
            p2r = p1r if second == "self-arity" else w.user(sp2r, cenv2)
            seen_tail = [0]

            class _OnceR(dict):
                def __contains__(self, k):
                    return k in ("TAILCALL", "B2")

                def __getitem__(self, k):
                    if k == "B2":
                        return ok(val)
                    seen_tail[0] += 1
                    return ok(tc) if seen_tail[0] == 1 else ok(val)
            la2 = dict(leaf_answers)
            la2["OP2"] = ok(w.procedure_value(p2r))
            r2 = Run(w, follow=[w.asp.name], answers=la2, epc_answers=[ok([p2r, list(args2)])])
            r2.tail_answers = _OnceR()
            try:
                res2 = r2.run(w.ap, [p1r, [Tok("arg", "V1")], caller])
                tails2 = [e[1] for e in r2.events if e[0] in ("tail", "eval") and e[1] in ("TAILCALL", "B2")]
                real = {"result": res2, "second_body_evaluated": tails2.count("B2") > 0 or tails2.count("TAILCALL") > 1}
            except (absint.Stuck, absint.Loop) as e:
                real = {"stuck": str(e)}
        au = [e for e in r.events if e[0] == "apply-user"]
        if getattr(w.asp, "missing", False):
            # one synthetic application record per frame created: (formals, defs, body, env, args) recovered from the events
            au = []
            frames = [e for e in r.events if e[0] == "new_child"]
            for e in frames:
                defs = [x for x in r.events if x[0] == "define" and x[1] is e[1]]
                tails = [x for x in r.events if x[0] == "tail" and x[2] is e[1]]
                spx = (sp1 if not au else sp2) if (tails and tails[0][1] == "TAILCALL") else (sp2 if (tails and tails[0][1] == "B2") else (sp1 if not au else [None, None, None]))
                au.append(("apply-user", spx[0], spx[1], spx[2], e[2], [x[3] for x in defs]))
        ab = [e for e in r.events if e[0] == "apply-builtin"]
        etc = [e for e in r.events if e[0] == "eval-tail-call"]
        if not etc and getattr(w.epc, "missing", False):
            # the pending call was evaluated by code followed for real: one record per evaluation of its operator
            ops_ = [e for e in r.events if e[0] == "eval" and e[1] == "OP2"]
            etc = [("eval-tail-call", tc.fields[0].fields[0], operands2, e[2]) for e in ops_]
        rows.append((second, {"result": res, "user_applications": au, "builtin_applications": ab, "tail_call_evals": etc,
                              "recursive_applies": len([e for e in r.events if e[0] == "apply"]),
                              "sp1": sp1, "sp2": sp2, "cenv1": cenv1, "cenv2": cenv2, "args2": args2, "tail_env": tail_env, "p2": p2,
                              "real": real}))
    # THREE turns; turns 2 and 3 are entered through tail calls whose operator is the same variable, bound to a different procedure
    # each time (a state machine that tail-calls its parameter `next`): every pending call's operator is evaluated anew
    # (and the same with the two pending calls being one and the same expression — one call site reached on consecutive turns, as in
    # (define (step next x) ... (next next ...)): neither the name nor the place of the call says which procedure is meant)
    for row_name, shared_site in (("same-operator-name-other-procedure", False), ("same-call-site-other-procedure", True)):
      if not getattr(w.asp, "missing", False):
        cenv1, cenv2, cenv3, caller = Frame(None, "closure-env-1"), Frame(None, "closure-env-2"), Frame(None, "closure-env-3"), Frame(None, "caller-env")
        sp1 = w.scheme_procedure(w.formals(["a"]), [], [w.sym("B1")])
        sp2 = w.scheme_procedure(w.formals(["x"]), [], [w.sym("B2")])
        sp3 = w.scheme_procedure(w.formals(["y"]), [], [w.sym("B3")])
        p1, p2, p3 = w.user(sp1, cenv1), w.user(sp2, cenv2), w.user(sp3, cenv3)
        a2, a3 = Tok("arg", "W2"), Tok("arg", "W3")
        envA, envB = Frame(None, "frame-of-turn-1"), Frame(None, "frame-of-turn-2")
        site = w.sym("NEXT")

        def pending(operand, envx, site=site, shared_site=shared_site):
            e = Enum(0, [Enum(0, [site if shared_site else w.sym("NEXT"), [w.sym(operand)], envx])])
            e.name = "TailCall"
            e.fields[0].name = "Ref"
            return e
        val = Enum(1, [Tok("value-of", "final")])
        val.name = "Value"
        nexts = [p2, p3]

        def next_value(nexts=nexts):
            return ok(w.procedure_value(nexts.pop(0) if len(nexts) > 1 else nexts[0]))
        r = Run(w, answers={"NEXT": next_value, "XA": ok(a2), "XB": ok(a3)},
                asp_answers=[ok(pending("XA", envA)), ok(pending("XB", envB)), ok(val)],
                epc_answers=[ok([p2, [a2]]), ok([p3, [a3]])])
        try:
            res = r.run(w.ap, [p1, [Tok("arg", "V1")], caller])
            au = [e for e in r.events if e[0] == "apply-user"]
            rows.append((row_name, {
                "result": res, "applied": [next((i + 1 for i, sp in enumerate((sp1, sp2, sp3)) if e[1] is sp[0] and e[3] is sp[2]), None) for e in au],
                "third_args_ok": len(au) == 3 and isinstance(au[2][5], list) and len(au[2][5]) == 1 and au[2][5][0] is a3,
                "third_env_ok": len(au) == 3 and (au[2][4] is cenv3 or (isinstance(au[2][4], Frame) and au[2][4].parent is cenv3)),
                "recursive_applies": len([e for e in r.events if e[0] == "apply"])}))
        except (absint.Stuck, absint.Loop) as e:
            rows.append((row_name, {"stuck": str(e)}))
    # the same with the real apply_scheme_procedure: the body's last form is a call, so the tail evaluator hands back a pending
    # call; it must come back to the trampoline unevaluated, be evaluated once there, and the callee must then run as an
    # ordinary application (fresh frame under ITS closure environment)
    for variant in ("real-body", "real-body/value-definition", "real-body/procedure-definition"):
        cenv1, cenv2, caller = Frame(None, "closure-env-1"), Frame(None, "closure-env-2"), Frame(None, "caller-env")
        defs = []
        if variant.endswith("value-definition"):
            defs = [("d", w.sym("D"))]
        elif variant.endswith("procedure-definition"):
            defs = [("helper", w.lam(w.scheme_procedure(w.formals(["y"]), [], [w.sym("H1")])))]
        sp1 = w.scheme_procedure(w.formals(["a"]), defs, [w.sym("B1"), w.sym("TAILCALL")])
        sp2 = w.scheme_procedure(w.formals(["x"]), [], [w.sym("C1")])
        p1, p2 = w.user(sp1, cenv1), w.user(sp2, cenv2)
        pend = w.sym("OP2")
        inner = Enum(0, [pend, [w.sym("X")], Frame(None, "frame-of-turn-1")])
        inner.name = "Ref"
        tc = Enum(0, [inner])
        tc.name = "TailCall"
        arg2 = Tok("arg", "W1")
        # (when there is no function evaluating a pending call to be stubbed, its operator and operand are evaluated for real)
        r = Run(w, follow=[w.asp.name], tail_answers={"TAILCALL": ok(tc)}, epc_answers=[ok([p2, [arg2]])],
                answers={"OP2": ok(w.procedure_value(p2)), "X": ok(arg2)})
        try:
            res = r.run(w.ap, [p1, [Tok("arg", "V1")], caller])
            frames = [e for e in r.events if e[0] == "new_child"]
            if not [e for e in r.events if e[0] == "eval-tail-call"] and getattr(w.epc, "missing", False):
                for e in [e for e in r.events if e[0] == "eval" and e[1] == "OP2"]:
                    r.events.insert(r.events.index(e), ("eval-tail-call", pend, [w.sym("X")], e[2]))
                r.events[:] = [e for e in r.events if not (e[0] == "eval" and e[1] in ("OP2", "X"))]
            rows.append((variant, {"result": res, "frames": [(f[2] is cenv1, f[2] is cenv2) for f in frames],
                                   "defines": [(e[2], e[3]) for e in r.events if e[0] == "define" and e[2] not in ("d", "helper")],
                                   "tail_call_evals": [e for e in r.events if e[0] == "eval-tail-call"],
                                   "pending_passed": any(e[0] == "eval-tail-call" and any(x is pend for x in e[1:]) for e in r.events),
                                   "recursive_applies": len([e for e in r.events if e[0] == "apply"]),
                                   "order": [(e[0], e[1] if e[0] in ("eval", "tail") else None) for e in r.events
                                             if e[0] in ("eval", "tail", "eval-tail-call", "new_child") and not (e[0] == "eval" and e[1] == "D")],
                                   "arg2": arg2}))
        except (absint.Stuck, absint.Loop) as e:
            rows.append((variant, {"stuck": str(e)}))
    # `let` in tail position: the pending call's operator evaluates to a closure MADE IN THE FRAME OF THE FINISHED TURN (what
    # ((lambda (v) body) init) in tail position is); its parameters are bound in a new child of that frame, never in the frame itself
    # (closures made there earlier keep seeing the old bindings)
    cenv1, caller = Frame(None, "closure-env-1"), Frame(None, "caller-env")
    sp1 = w.scheme_procedure(w.formals(["a"]), [], [w.sym("B1"), w.sym("TAILCALL")])
    sp2 = w.scheme_procedure(w.formals(["a"]), [], [w.sym("C1")])
    p1 = w.user(sp1, cenv1)
    arg2 = Tok("arg", "W1")
    r = Run(w, follow=[w.asp.name])
    state = {}

    def frame1():
        fr = [e[1] for e in r.events if e[0] == "new_child"]
        return fr[0] if fr else Frame(None, "?")

    def p2_():
        if "p2" not in state:
            state["p2"] = w.user(sp2, frame1())
        return state["p2"]

    class _TailLet(dict):
        def __contains__(self, k):
            return k == "TAILCALL"

        def __getitem__(self, k):
            inner = Enum(0, [w.sym("OP2"), [w.sym("X")], frame1()])
            inner.name = "Ref"
            tcx = Enum(0, [inner])
            tcx.name = "TailCall"
            return ok(tcx)
    r.tail_answers = _TailLet()
    r.epc_answers = [lambda: ok([p2_(), [arg2]])]
    r.answers = {"OP2": lambda: ok(w.procedure_value(p2_())), "X": ok(arg2)}
    try:
        res = r.run(w.ap, [p1, [Tok("arg", "V1")], caller])
        frames = [e for e in r.events if e[0] == "new_child"]
        defs = [e for e in r.events if e[0] == "define"]
        rows.append(("closure-made-in-the-finished-frame", {
            "result": res, "n_frames": len(frames), "second_parent_is_first_frame": len(frames) == 2 and frames[1][2] is frames[0][1],
            "define_frames": [next((i for i, f in enumerate(frames) if f[1] is e[1]), None) for e in defs],
            "recursive_applies": len([e for e in r.events if e[0] == "apply"])}))
    except (absint.Stuck, absint.Loop) as e:
        rows.append(("closure-made-in-the-finished-frame", {"stuck": str(e)}))
    # the whole path of one tail call with nothing stubbed but the evaluation of the leaves: body = ((OPX ARGX)) in tail position,
    # OPX evaluates to a second procedure.  Operator and operand are evaluated exactly once each (by whichever of the tail
    # evaluator / the trampoline does it), in the frame of the first application; then the callee runs as an ordinary application.
    cenv1, cenv2, caller = Frame(None, "closure-env-1"), Frame(None, "closure-env-2"), Frame(None, "caller-env")
    sp1 = w.scheme_procedure(w.formals(["a"]), [], [w.call(w.sym("OPX"), [w.sym("ARGX")])])
    sp2 = w.scheme_procedure(w.formals(["x"]), [], [w.sym("C1")])
    p1, p2 = w.user(sp1, cenv1), w.user(sp2, cenv2)
    argx = Tok("value-of", "ARGX")
    r = Run(w, answers={"OPX": ok(w.procedure_value(p2)), "ARGX": ok(argx)}, follow=[w.asp.name, w.epc.name])
    try:
        res = r.run(w.ap, [p1, [Tok("arg", "V1")], caller])
        frames = [e for e in r.events if e[0] == "new_child"]
        rows.append(("whole-tail-call", {
            "result": res, "evals": [(e[1], next((i for i, f in enumerate(frames) if f[1] is e[2]), None)) for e in r.events if e[0] == "eval"],
            "frames": [(f[2] is cenv1, f[2] is cenv2) for f in frames], "defines": [(e[2], e[3]) for e in r.events if e[0] == "define"],
            "tails": [e[1] for e in r.events if e[0] == "tail"], "argx": argx,
            "recursive_applies": len([e for e in r.events if e[0] == "apply"])}))
    except (absint.Stuck, absint.Loop) as e:
        evs = [(x[1]) for x in r.events if x[0] == "eval"]
        rows.append(("whole-tail-call", {"stuck": str(e), "evals_so_far": evs}))
    # the same with the operator a LAMBDA EXPRESSION written at the call (what `let`, `begin`, the clause bodies of `cond` / `case`
    # and the temporaries of `or` expand to), nothing stubbed but the leaves: body = ((lambda (P) C1) ARGX) in tail position.  The
    # lambda is evaluated in the frame of the first application, so its body runs in a NEW child of that frame — with a parameter
    # the frame does not bind yet (v) and with one it binds already (a)
    for pname in ("v", "a"):
        cenv1, caller = Frame(None, "closure-env-1"), Frame(None, "caller-env")
        sp2 = w.scheme_procedure(w.formals([pname]), [], [w.sym("C1")])
        sp1 = w.scheme_procedure(w.formals(["a"]), [], [w.call(w.lam(sp2), [w.sym("ARGX")])])
        p1 = w.user(sp1, cenv1)
        argx = Tok("value-of", "ARGX")
        r = Run(w, answers={"ARGX": ok(argx)}, follow=[w.asp.name, w.epc.name])
        row = "lambda-expression-in-tail-position/parameter-%s" % pname
        try:
            res = r.run(w.ap, [p1, [Tok("arg", "V1")], caller])
            frames = [e for e in r.events if e[0] == "new_child"]
            defs = [e for e in r.events if e[0] == "define"]
            rows.append((row, {
                "result": res, "n_frames": len(frames), "second_parent_is_first_frame": len(frames) == 2 and frames[1][2] is frames[0][1],
                "define_frames": [next((i for i, f in enumerate(frames) if f[1] is e[1]), None) for e in defs],
                "body_frame": [next((i for i, f in enumerate(frames) if f[1] is e[2]), None) for e in r.events if e[0] in ("tail", "eval") and e[1] == "C1"],
                "argx_frame": [next((i for i, f in enumerate(frames) if f[1] is e[2]), None) for e in r.events if e[0] == "eval" and e[1] == "ARGX"],
                "recursive_applies": len([e for e in r.events if e[0] == "apply"])}))
        except (absint.Stuck, absint.Loop) as e:
            rows.append((row, {"stuck": str(e)}))
    # a SELF tail call (the loop of the property): same code, same captured environment; whether or not anything else still
    # refers to the frame of the finished turn, the next turn is an ordinary application with a frame of its own
    for count in (1, 2):
        cenv, caller = Frame(None, "closure-env"), Frame(None, "caller-env")
        sp = w.scheme_procedure(w.formals(["n"]), [], [w.sym("B1"), w.sym("LOOP")])
        p = w.user(sp, cenv)
        arg2 = Tok("arg", "N2")
        turn = [0]
        r = Run(w, follow=[w.asp.name], epc_answers=[ok([p, [arg2]])], answers={"OPLOOP": ok(w.procedure_value(p)), "X": ok(arg2)})
        r.rc_count = count

        def tail_answer(run=r):
            pass
        # first turn: the tail form is a pending self call (carrying the frame of turn 1); second turn: a value
        class _Tail(dict):
            def __contains__(self, k):
                return k == "LOOP"

            def __getitem__(self, k):
                turn[0] += 1
                if turn[0] == 1:
                    fr = [e[1] for e in r.events if e[0] == "new_child"]
                    inner = Enum(0, [w.sym("OPLOOP"), [w.sym("X")], fr[-1] if fr else Frame(None, "?")])
                    inner.name = "Ref"
                    tcx = Enum(0, [inner])
                    tcx.name = "TailCall"
                    return ok(tcx)
                vv = Enum(1, [Tok("value-of", "LOOP-done")])
                vv.name = "Value"
                return ok(vv)
        r.tail_answers = _Tail()
        try:
            res = r.run(w.ap, [p, [Tok("arg", "N1")], caller])
            frames = [e for e in r.events if e[0] == "new_child"]
            defs = [e for e in r.events if e[0] == "define"]
            rows.append(("self-tail-call/refcount=%d" % count, {
                "result": res, "n_frames": len(frames), "parents_ok": all(f[2] is cenv for f in frames),
                "distinct_frames": len({id(f[1]) for f in frames}),
                "define_frames": [next((i for i, f in enumerate(frames) if f[1] is e[1]), None) for e in defs],
                "defines": [(e[2], e[3]) for e in defs], "arg2": arg2,
                "recursive_applies": len([e for e in r.events if e[0] == "apply"])}))
        except (absint.Stuck, absint.Loop) as e:
            rows.append(("self-tail-call/refcount=%d" % count, {"stuck": str(e)}))
    return rows


# ================================================================================================ verdicts

_TABLES = {}


def tables(fb):
    if id(fb) not in _TABLES:
        w = World(fb)
        _TABLES[id(fb)] = {"w": w, "call": call_table(w), "symbol": symbol_table(w), "assign": assignment_table(w),
                           "lambda": lambda_table(w), "application": application_table(w), "trampoline": trampoline_table(w)}
    return _TABLES[id(fb)]


def _err_kind(res, kind):
    """is `res` Err(Located{ErrorData::Logic(LogicError::<kind>(..))})"""
    return isinstance(res, Enum) and getattr(res, "name", None) == "Err" and bool(find_enum(res, kind))


def _locs_in(expr, depth=8):
    """all locations occurring inside an expression skeleton"""
    out = []

    def go(x, d):
        if d < 0:
            return
        if isinstance(x, list):
            if len(x) == 2 and isinstance(x[0], Enum) and is_opt_loc(x[1]):
                out.append(machine.key_of(x[1]))
            for y in x:
                go(y, d - 1)
        elif isinstance(x, Enum):
            for y in x.fields:
                go(y, d - 1)
    go(expr, depth)
    return out


def is_opt_loc(v):
    return isinstance(v, Enum) and getattr(v, "name", None) in ("Some", "None")


def _loc_ok(loc, expr):
    """an error location is acceptable if absent (the statement's location is used: C15-fallback) or inside the failing form"""
    if loc is None or (isinstance(loc, Enum) and loc.variant == 0):
        return True
    return machine.key_of(loc) in _locs_in(expr)


def _location_of(res):
    """the location field of the Located error inside Err(..)"""
    for loc in find_enum(res, "Located"):
        if len(loc.fields) > 1:
            return loc.fields[1]
    return None


class Verdict:
    def __init__(self, ctx, rule, where):
        self.ctx, self.rule, self.where = ctx, rule, where
        self.decided = 0

    def row(self, key, d, checks):
        """checks: list of (condition, message) — all must hold"""
        ctx = self.ctx
        if "stuck" in d:
            ctx.undecided(self.rule, key, "abstract evaluation could not follow the evaluator on this case (%s)" % d["stuck"], self.where)
            return
        bad = [m for c, m in checks if not c]
        if bad and contains(d.get("result"), lambda x: x is UNKNOWN or (isinstance(x, absint.Ptr) and absint.deref(x) is UNKNOWN)):
            # the outcome holds a value the machine does not know (something on the way was not modelled): whatever failed to
            # match may be that value — not evidence of anything
            ctx.undecided(self.rule, key, "abstract evaluation produced an outcome with unknown parts (%r): %s" % (d.get("result"), bad[0][:120]), self.where)
            return
        self.decided += 1
        ctx.inst(self.rule, key, {"verdict": "ok" if not bad else bad[0][:80]})
        ctx.oblige(not bad)
        for i, m in enumerate(bad[:2]):
            ctx.report(self.rule, key if i == 0 else "%s/%d" % (key, i), m, self.where)


def rule_once(ctx, rule):
    """(OP A1 A2 A3): every operand and the operator evaluated exactly once in the caller's environment, then one application
    of the operator's value to the operand values in order"""
    fb = ctx.fb()
    t = tables(fb)
    w = t["w"]
    v = Verdict(ctx, rule, mir_where(w.ee))
    for n_extra in (0, 1, 2, 5):
        if "call%d" % n_extra not in t:
            t["call%d" % n_extra] = [r_ for r_ in call_table(w, n_extra) if r_[0] == "procedure"]
    for sc, d, n in [(sc, d, 3) for sc, d in t["call"]] + [(sc, d, n_) for n_ in (0, 1, 2, 5) for sc, d in t["call%d" % n_]]:
        if sc != "procedure":
            continue
        names = ["A%d" % i for i in range(1, n + 1)]
        if n != 3:
            form = "(" + " ".join(["OP"] + names) + ")"
            v.row("call/" + form, d, [
                (sorted(d.get("evaluated", [])) == sorted(names + ["OP"]),
                 "evaluating %s evaluates %s (the operator and each operand must be evaluated exactly once)" % (form, d.get("evaluated"))),
                (d.get("envs_ok"), "operator/operands are evaluated in an environment other than the caller's"),
                (d.get("applies") == 1, "the call applies a procedure %s times (expected once)" % d.get("applies")),
                (d.get("applied_is_operator_value"), "what is applied is not the value of the operator expression"),
                (d.get("apply_args") == names, "the procedure is applied to %s, expected the %d operand values in order" % (d.get("apply_args"), n)),
                (d.get("apply_after_evals"), "the application happens before all operands are evaluated"),
                (contains(d.get("result"), lambda x: isinstance(x, Tok) and x.kind == "result-of-apply"),
                 "the value of the call is not the result of the application (%r)" % (d.get("result"),)),
            ])
            continue
        v.row("call/(OP A1 A2 A3)", d, [
            (sorted(d.get("evaluated", [])) == ["A1", "A2", "A3", "OP"],
             "evaluating (OP A1 A2 A3) evaluates %s (each of OP A1 A2 A3 must be evaluated exactly once)" % d.get("evaluated")),
            (d.get("envs_ok"), "operator/operands are evaluated in an environment other than the caller's"),
            (d.get("applies") == 1, "the call applies a procedure %s times (expected once)" % d.get("applies")),
            (d.get("applied_is_operator_value"), "what is applied is not the value of the operator expression"),
            (d.get("apply_args") == ["A1", "A2", "A3"], "the procedure is applied to %s, expected the operand values in order" % d.get("apply_args")),
            (d.get("apply_after_evals"), "the application happens before all operands are evaluated"),
            (contains(d.get("result"), lambda x: isinstance(x, Tok) and x.kind == "result-of-apply"),
             "the value of the call is not the result of the application (%r)" % (d.get("result"),)),
        ])
    return v.decided


def rule_call_errors(ctx, rule_nonproc, rule_loc=None):
    """operator value not a procedure -> Err(TypeMisMatch(_, Procedure)) at the operator's location, nothing applied;
    an operand's error is the call's error"""
    fb = ctx.fb()
    t = tables(fb)
    w = t["w"]
    v = Verdict(ctx, rule_nonproc, mir_where(w.ee))
    for sc, d in t["call"]:
        if sc == "non-procedure":
            res = d.get("result")
            tm = find_enum(res, "TypeMisMatch")
            v.row("call/non-procedure-operator", d, [
                (d.get("applies") == 0, "something is applied although the operator's value is not a procedure"),
                (_err_kind(res, "TypeMisMatch"), "calling a non-procedure yields %r, expected Err(TypeMisMatch(_, Procedure))" % (res,)),
                (bool(tm) and contains(tm[0], lambda x: isinstance(x, Enum) and getattr(x, "name", None) == "Procedure"),
                 "the TypeMisMatch error does not name the expected type Procedure"),
            ])
            if rule_loc and "stuck" not in d:
                loc = _location_of(res)
                absent = loc is None or (isinstance(loc, Enum) and loc.variant == 0)
                # at the operator (the statement says so); absent is acceptable (the failing form's location is supplied: C15-fallback)
                okl = absent or machine.key_of(loc) == machine.key_of(d["op"][1])
                ctx.inst(rule_loc, "call/non-procedure-operator/location", {"at_operator_or_absent": okl,
                                                                           "at_operator": loc is not None and machine.key_of(loc) == machine.key_of(d["op"][1])})
                ctx.oblige(okl)
                if not okl:
                    ctx.report(rule_loc, "ProcedureCall/location", "the non-procedure error is located at %r, not at the operator (%r): with "
                               "the operator on another line than the opening parenthesis the diagnostic points at the wrong place" % (
                                   loc, d["op"][1]), mir_where(w.ee))
        if sc == "operand-error":
            v.row("call/operand-error", d, [
                (d.get("applies") == 0, "the procedure is applied although an operand failed"),
                (isinstance(d.get("result"), Enum) and getattr(d["result"], "name", None) == "Err" and
                 contains(d["result"], lambda x: isinstance(x, Tok) and x.tag == "E2"),
                 "an operand's error is replaced or dropped: the call yields %r" % (d.get("result"),)),
            ])
    return v.decided


def rule_symbol(ctx, rule_unbound, rule_loc=None):
    fb = ctx.fb()
    t = tables(fb)
    w = t["w"]
    v = Verdict(ctx, rule_unbound, mir_where(w.ee))
    for found, d in t["symbol"]:
        res = d.get("result")
        if found:
            v.row("symbol/bound", d, [
                (d.get("lookups") == 1 and d.get("lookup_env_ok"), "a variable reference does not look the name up once in the current environment"),
                (isinstance(res, Enum) and getattr(res, "name", None) == "Ok" and contains(res, lambda x: x is d["bound"]),
                 "a bound variable evaluates to %r, expected (a copy of) its binding" % (res,)),
            ])
        else:
            ub = find_enum(res, "UnboundedSymbol")
            v.row("symbol/unbound", d, [
                (_err_kind(res, "UnboundedSymbol"), "an unbound variable evaluates to %r, expected Err(UnboundedSymbol)" % (res,)),
                (bool(ub) and ub[0].fields[:1] == ["x"], "the unbound-variable error does not name the variable"),
            ])
            if rule_loc and "stuck" not in d:
                loc = _location_of(res)
                okl = _loc_ok(loc, d["expr"])
                ctx.inst(rule_loc, "symbol/unbound/location", {"at_reference_or_statement": okl})
                ctx.oblige(okl)
                if not okl:
                    ctx.report(rule_loc, "Symbol/location", "the unbound-variable error is located at %r, which is not the location of "
                               "the reference" % (loc,), mir_where(w.ee))
    return v.decided


def rule_assignment(ctx, rule):
    fb = ctx.fb()
    t = tables(fb)
    w = t["w"]
    v = Verdict(ctx, rule, mir_where(w.ee))
    for outcome, d in t["assign"]:
        res = d.get("result")
        if outcome == "ok":
            v.row("set!/bound", d, [
                (d.get("evaluated") == ["E"], "(set! x E) evaluates %s, expected E once" % d.get("evaluated")),
                (d.get("sets") == [(True, "x", True)], "(set! x E) performs the assignments %s, expected one assignment of E's value to x "
                 "in the current environment" % d.get("sets")),
                (d.get("defines") == 0, "(set! x E) creates a binding"),
                (isinstance(res, Enum) and getattr(res, "name", None) == "Ok", "(set! x E) yields %r" % (res,)),
            ])
        else:
            v.row("set!/unbound", d, [
                (d.get("defines") == 0, "(set! x E) on an unbound x creates a binding"),
                (isinstance(res, Enum) and getattr(res, "name", None) == "Err" and contains(res, lambda x: x is d["error"]),
                 "the error of assigning an unbound variable is dropped or replaced: %r" % (res,)),
            ])
    return v.decided


def rule_lambda(ctx, rule):
    fb = ctx.fb()
    t = tables(fb)
    w = t["w"]
    v = Verdict(ctx, rule, mir_where(w.ee))
    for shape in ("root", "empty-frame", "bound-frame"):
        d = t["lambda"] if shape == "root" else lambda_table(w, shape)
        where_txt = {"root": "", "empty-frame": " (a frame that binds nothing yet, under a frame that does: definitions made in it later must be "
                                                "visible to the closure)", "bound-frame": " (a frame with a binding, under another)"}[shape]
        v.row("lambda/capture" + ("" if shape == "root" else "/" + shape), d, [
            (d.get("captures_creation_env"), "a lambda expression does not capture the environment it is evaluated in%s" % where_txt),
            (d.get("same_code"), "the closure's code is not the lambda expression's"),
            (d.get("new_frames") == 0, "evaluating a lambda expression creates a frame (the environment must be shared, not copied)"),
        ])
    return v.decided


def chain_items(v, limit=20):
    """the elements of a list value built as the crate's real cons chain: Value::Pair(Box(GenericPair::Some(car, cdr))) ... Empty"""
    items = []
    cur = v
    for _ in range(limit):
        if not (isinstance(cur, Enum) and len(cur.fields) == 1 and isinstance(cur.fields[0], Enum)):
            return None
        cell = cur.fields[0]
        if len(cell.fields) == 0:
            return items
        if len(cell.fields) != 2:
            return None
        items.append(cell.fields[0])
        cur = cell.fields[1]
    return None


def _expected_defines(kind, k, args, fixed=None, rest=None):
    if fixed is not None:
        out = [(n, args[i]) for i, n in enumerate(fixed)]
        if rest is not None:
            out.append((rest, args[len(fixed):]))
        return out
    if kind == "fixed2":
        return [("a", args[0]), ("b", args[1])]
    if kind == "rest":
        return [("a", args[0]), ("r", args[1:])]
    return []


def _formals_text(d, kind):
    if "fixed" not in d:
        return {"fixed2": "two fixed", "rest": "one fixed and a rest", "thunk": "no"}[kind]
    n = len(d["fixed"])
    return ("%d fixed" % n if n else "no fixed") + (" and a rest" if d["rest"] is not None else "") if (n or d["rest"] is not None) else "no"


def rule_application(ctx, rule, aspects):
    """aspects ⊆ {arity, frame, bind, order, nopanic}"""
    fb = ctx.fb()
    t = tables(fb)
    w = t["w"]
    v = Verdict(ctx, rule, mir_where(w.ap))
    for (kind, k), d in t["application"]:
        key = "apply/%s/%d-args" % (kind, k)
        if "stuck" in d:
            v.row(key, d, [])
            continue
        res = d["result"]
        accepted = not _err_kind(res, "ArgumentMissMatch") and isinstance(res, Enum) and getattr(res, "name", None) == "Ok"
        checks = []
        if "+" in kind:
            # the row with an internal procedure definition: only what the body frame holds after the body produced its value
            if "bind" not in aspects:
                continue
            ba = d.get("bound_after")
            v.row(key, d, [(accepted and ba is not None and {"a", "b", "d", "helper"} <= set(ba),
                            "after the body of a procedure with internal definitions has produced its value, its frame binds %s; expected "
                            "the parameters and every internal definition still bound (a closure made in the body that outlives the call "
                            "looks internal procedures up by name in that frame)" % (ba,))])
            continue
        if "arity" in aspects:
            checks.append((accepted == d["accepts"], "a procedure with %s parameters applied to %d argument(s) is %s" % (
                _formals_text(d, kind), k,
                "accepted" if accepted else "rejected (%r)" % (res,))))
            if not d["accepts"]:
                checks.append((_err_kind(res, "ArgumentMissMatch"), "the wrong argument count yields %r, expected Err(ArgumentMissMatch)" % (res,)))
                # (a frame of its own made, and parameters bound in it, before the count is found wrong is nothing a program can
                # see: the frame is dropped.  Evaluating a form of the procedure, or binding anywhere else, is.)
                checks.append((not d["evals"] and all(x[0] for x in d["defines"]),
                               "a rejected application already evaluated a form of the procedure, or bound names outside a frame of its own"))
        if d["accepts"] and accepted:
            exp = _expected_defines(kind, k, d["args"], d.get("fixed"), d.get("rest"))
            got = d["defines"]
            if "frame" in aspects:
                checks.append((d["frames"] == 1, "one application creates %d frames (expected exactly one)" % d["frames"]))
                checks.append((d["frame_parent_is_closure_env"], "the body frame is not a child of the environment the closure captured"))
                checks.append((all(x[0] for x in got) and all(e[2] for e in d["evals"]),
                               "parameters / internal definitions / body forms do not all use the one fresh frame"))
            nodefs = "!" in kind
            if "bind" in aspects:
                names = [x[1] for x in got]
                checks.append((names == [n for n, _ in exp] + ([] if nodefs else ["d"]), "the application binds %s, expected %s%s" % (
                    names, [n for n, _ in exp], "" if nodefs else " then the internal definition d")))
                for (n, want), g in zip(exp, got):
                    if isinstance(want, list):
                        items = getattr(g[2], "items", None) if isinstance(g[2], Tok) else None
                        if items is None:
                            items = chain_items(g[2])
                        if items is None:
                            lst = find_enum(g[2], "Pair")
                            items = getattr(lst[0].fields[0], "items", None) if lst and lst[0].fields and isinstance(lst[0].fields[0], Tok) else None
                            if items is None and lst and lst[0].fields and isinstance(lst[0].fields[0], list):
                                items = lst[0].fields[0]
                        checks.append((items is not None and len(items) == len(want) and all(a is b for a, b in zip(items, want)),
                                       "the rest parameter %s is bound to %r, expected the list of the remaining arguments" % (n, g[2])))
                    else:
                        checks.append((g[2] is want, "parameter %s is bound to %r, expected argument %r" % (n, g[2], want)))
                if not nodefs:
                    checks.append((len(got) > len(exp) and isinstance(got[len(exp)][2], Tok) and got[len(exp)][2].tag == "D",
                                   "the internal definition is not bound to the value of its expression"))
            if "order" in aspects and not nodefs:
                order = [x for x in d["order"] if x[0] != "new_child"]
                want_tail = [("eval", "D"), ("define", "d"), ("eval", "B1"), ("tail", "B2")]
                checks.append((order[-4:] == want_tail and all(x[0] == "define" for x in order[:-4]),
                               "order of effects in the body is %s, expected parameters bound, then the definition, then the body forms in "
                               "order with the last one in tail position" % order))
                checks.append((contains(res, lambda x: isinstance(x, Tok) and x.tag == "B2"),
                               "the value of the application is not the value of the last body form (%r)" % (res,)))
            if "nopanic" in aspects:
                checks.append((not d["panics"], "binding the arguments can panic: %s" % d["panics"]))
        v.row(key, d, checks)
    return v.decided


def body_error_table(w):
    """apply_procedure on (lambda (a) (define d D) B1 B2) where evaluating one of D / B1 / B2 fails: the application yields that
    error, and nothing after the failing form is evaluated or bound"""
    rows = []
    for failing in ("D", "B1", "B2"):
        cenv, caller = Frame(None, "closure-env"), Frame(None, "caller-env")
        sp = w.scheme_procedure(w.formals(["a"]), [("d", w.sym("D"))], [w.sym("B1"), w.sym("B2")])
        E = Tok("error", "error-of-" + failing)
        answers = {failing: err(E)}
        r = Run(w, follow=[w.asp.name], answers=answers, tail_answers={"B2": err(E)} if failing == "B2" else {})
        try:
            res = r.run(w.ap, [w.user(sp, cenv), [Tok("arg", "V1")], caller])
        except (absint.Stuck, absint.Loop) as e:
            rows.append((failing, {"stuck": str(e)}))
            continue
        rows.append((failing, {"result": res, "E": E, "order": [(e[0], e[1] if e[0] in ("eval", "tail") else e[2]) for e in r.events
                                                                if e[0] in ("eval", "tail", "define")]}))
    return rows


def rule_body_errors(ctx, rule):
    fb = ctx.fb()
    t = tables(fb)
    w = t["w"]
    if "body-errors" not in t:
        t["body-errors"] = body_error_table(w)
    v = Verdict(ctx, rule, mir_where(w.ap))
    full = [("define", "a"), ("eval", "D"), ("define", "d"), ("eval", "B1"), ("tail", "B2")]
    for failing, d in t["body-errors"]:
        key = "body-form-fails/%s" % failing
        if "stuck" in d:
            v.row(key, d, [])
            continue
        res = d["result"]
        cut = next(i for i, x in enumerate(full) if x[1] == failing) + 1
        checks = [
            (getattr(res, "name", None) == "Err" and contains(res, lambda x: x is d["E"]),
             "when evaluating %s fails inside a procedure body the application yields %r, expected that error" % (failing, res)),
            (d["order"] == full[:cut], "when %s fails the body is processed as %s, expected %s and nothing after the failing form "
             "(every form of a body is evaluated, in order, up to the first failure)" % (failing, d["order"], full[:cut])),
        ]
        v.row(key, d, checks)
    return v.decided


def apply_native_table(w):
    """the builtin `apply` (native base library) on (P a1 .. ak (l1 l2)) for k = 0..3, on (P a1 ()), on (P) alone, with a last argument
    that is not a list, and with a first argument that is not a procedure: what is handed to apply_procedure"""
    na = w.fb.find("interpreter::library::native::base::apply")

    def vlist(items):
        e0 = w.named(w.gp, "Empty", [])
        e0.adt = "parser::pair::GenericPair"
        v = w.named(w.val, "Pair", [e0])
        v.adt = "values::Value"
        for x in reversed(items):
            c = w.named(w.gp, "Some", [x, v])
            c.adt = "parser::pair::GenericPair"
            v = w.named(w.val, "Pair", [c])
            v.adt = "values::Value"
        return v
    rows = []
    cases = [("%d-leading+list-of-2" % k, k, 2, "list") for k in range(0, 4)] + [("1-leading+empty-list", 1, 0, "list"), ("procedure-only", 0, 0, "absent"),
             ("last-is-not-a-list", 1, 0, "atom"), ("first-is-not-a-procedure", 1, 2, "list/nonproc")]
    for label, k, n, last in cases:
        P = Tok("procedure", "P")
        A = [Tok("arg", "A%d" % i) for i in range(1, k + 1)]
        Ls = [Tok("arg", "L%d" % i) for i in range(1, n + 1)]
        first = w.procedure_value(P) if "nonproc" not in last else w.named(w.val, "Boolean", [True])
        first.adt = "values::Value"
        args = [first] + A
        if last.startswith("list"):
            args.append(vlist(Ls))
        elif last == "atom":
            atom = w.named(w.val, "Boolean", [False])
            atom.adt = "values::Value"
            args.append(atom)
        env = Frame(None, "caller-env")
        r = Run(w)
        try:
            res = r.run(na, [args, env])
        except (absint.Stuck, absint.Loop) as e:
            rows.append((label, {"stuck": str(e)}))
            continue
        ap = [e for e in r.events if e[0] == "apply"]
        rows.append((label, {"result": res, "applies": [(e[1], e[2], e[3]) for e in ap], "P": P, "want_args": A + Ls, "env": env, "kind": last}))
    return na, rows


def apply_native_builtin_table(w):
    """the builtin `apply` handed a REAL builtin procedure of two fixed parameters and a list of 1, 2, 3 elements: is the builtin's body
    entered, and with how many arguments?  (Bodies take their arguments with next().unwrap(): a body entered with fewer than its fixed
    parameters panics.)  rows: (n, dict)"""
    na = w.fb.find("interpreter::library::native::base::apply")

    def vlist(items):
        e0 = w.named(w.gp, "Empty", [])
        e0.adt = "parser::pair::GenericPair"
        v = w.named(w.val, "Pair", [e0])
        v.adt = "values::Value"
        for x in reversed(items):
            c = w.named(w.gp, "Some", [x, v])
            c.adt = "parser::pair::GenericPair"
            v = w.named(w.val, "Pair", [c])
            v.adt = "values::Value"
        return v
    rows = []
    for n in (1, 2, 3):
        body = Tok("body", "builtin-body")
        P = w.named(w.proc, "Builtin", [[Tok("name", "builtin-name"), w.formals(["x", "y"]), body]])
        P.adt = "values::Procedure"
        Ls = [Tok("arg", "L%d" % i) for i in range(1, n + 1)]
        first = w.procedure_value(P)
        first.adt = "values::Value"
        env = Frame(None, "caller-env")
        r = Run(w)
        try:
            res = r.run(na, [[first, vlist(Ls)], env])
        except (absint.Stuck, absint.Loop) as e:
            rows.append((n, {"stuck": str(e)}))
            continue
        rows.append((n, {"result": res, "through_apply_procedure": [e for e in r.events if e[0] == "apply"],
                         "body_entered": [e for e in r.events if e[0] == "apply-builtin"], "Ls": Ls,
                         "panics": [e for e in r.mc.events if e[0] == "panic"]}))
    return na, rows


def native_apply_entry(fb):
    """-> (verdict, why): True when `apply` never enters a builtin's body with an argument count its parameters do not allow (it goes
    through apply_procedure, or checks the count itself), False when it does, None when the table could not be followed"""
    t = tables(fb)
    try:
        if "apply-native-builtin" not in t:
            t["apply-native-builtin"] = apply_native_builtin_table(t["w"])
        na, rows = t["apply-native-builtin"]
    except mir.AnchorMissing as e:
        return None, str(e)
    for n, d in rows:
        if "stuck" in d:
            return None, "apply on a builtin and a list of %d: %s" % (n, d["stuck"])
        if d["panics"]:
            return False, "apply on a builtin of two parameters and a list of %d element(s) reaches a panic (%s)" % (n, d["panics"][0][1])
        for e in d["body_entered"]:
            got = e[2] if len(e) > 2 else None
            if n != 2 or not (isinstance(got, list) and len(got) == 2 and all(x is y for x, y in zip(got, d["Ls"]))):
                return False, "apply on a builtin of two parameters and a list of %d element(s) enters the builtin's body with %s" % (
                    n, ("%d argument(s)" % len(got)) if isinstance(got, list) else "arguments that are not the list's elements")
        if n == 2 and not d["body_entered"] and not d["through_apply_procedure"]:
            return False, "apply on a builtin and a list of as many elements as it has parameters applies nothing"
    return True, "apply on a builtin of two parameters and a list of 1 / 2 / 3 elements enters the body only with two arguments"


def rule_apply_native(ctx, rule):
    fb = ctx.fb()
    t = tables(fb)
    w = t["w"]
    try:
        if "apply-native" not in t:
            t["apply-native"] = apply_native_table(w)
        na, rows = t["apply-native"]
    except mir.AnchorMissing as e:
        ctx.undecided(rule, "apply", str(e))
        return 0
    v = Verdict(ctx, rule, mir_where(na))
    for label, d in rows:
        key = "apply/%s" % label
        if "stuck" in d:
            v.row(key, d, [])
            continue
        res, aps = d["result"], d["applies"]
        if d["kind"] in ("atom", "list/nonproc"):
            v.row(key, d, [(not aps, "something is applied although %s" % ("the last argument is not a list" if d["kind"] == "atom" else "the first argument is not a procedure")),
                           (_err_kind(res, "TypeMisMatch"), "apply yields %r, expected a type error" % (res,))])
            continue
        got = [x for x in aps[0][1]] if aps and isinstance(aps[0][1], list) else None
        v.row(key, d, [
            (len(aps) == 1, "apply applies a procedure %d times (expected once)" % len(aps)),
            (bool(aps) and aps[0][0] is d["P"], "what is applied is not the first argument"),
            (got is not None and len(got) == len(d["want_args"]) and all(x is y for x, y in zip(got, d["want_args"])),
             "the procedure is applied to %s, expected the leading arguments followed by the elements of the last (list) argument, in order: %s"
             % (got, d["want_args"])),
            (bool(aps) and aps[0][2] is d["env"], "the application does not run in the caller's environment"),
            (contains(res, lambda x: isinstance(x, Tok) and x.kind == "result-of-apply"), "the value of apply is not the result of the application (%r)" % (res,)),
        ])
    return v.decided


def _located(payload, loc):
    e = Enum(0, [payload, loc])
    e.name, e.adt = "Located", "error::Located"
    return e


def error_location_table(w):
    """an error that reaches the evaluator WITHOUT a location (a builtin's type / range / arity error): what location does it leave
    eval_expression / apply_procedure with?  Rows: the callee of a non-tail call fails; a builtin applied by apply_procedure fails;
    a form of a user procedure's body fails.  Each row also with an error that has a location of its own."""
    rows = []

    def real_payload(kind):
        """a real error value of the crate (code that looks at WHAT failed before deciding where it failed can be followed)"""
        fbv = lambda n_: dict((vn, vi) for vi, vn in w.fb.variants(n_))
        ed, le, ty = fbv("error::ErrorData"), fbv("interpreter::error::LogicError"), fbv("values::Type")
        if kind == "non-procedure":
            inner = w.named(le, "TypeMisMatch", ["5", w.named(ty, "Procedure", [])])
        else:
            inner = w.named(le, "UnboundedSymbol", ["x"])
        inner.adt = "interpreter::error::LogicError"
        e_ = w.named(ed, "Logic", [inner])
        e_.adt = "error::ErrorData"
        return e_
    sites = [(s_, "opaque") for s_ in ("call/callee-fails", "apply/builtin-fails", "apply/body-form-fails")]
    # ... and an operand of a call / of a pending tail call that fails with a REAL error of its own — "5 is not a procedure" raised by
    # an inner call, an unbound variable — already located where it happened
    for kind_ in ("non-procedure", "unbound"):
        sites += [("call/operand-fails", kind_), ("tail-call/operand-fails", kind_), ("call/callee-fails", kind_), ("apply/body-form-fails", kind_),
                  ("assignment/value-fails", kind_), ("conditional/test-fails", kind_)]
    for site, kind_ in sites:
        for own in ((False, True) if kind_ == "opaque" else (True,)):
            first_loc = w.nloc
            try:
                payload = Tok("error-data", "EC") if kind_ == "opaque" else real_payload(kind_)
            except Exception as e:
                rows.append((site + ("" if kind_ == "opaque" else "/" + kind_), own, {"stuck": "the error value could not be built (%s)" % e}))
                continue
            own_loc = some([7, 7]) if own else none()
            E = _located(payload, own_loc)
            caller, cenv = Frame(None, "caller-env"), Frame(None, "closure-env")
            label = site + ("" if kind_ == "opaque" else "/" + kind_)
            try:
                if site == "call/callee-fails":
                    expr = w.call(w.sym("OP"), [w.sym("A1")])
                    r = Run(w, answers={"OP": ok(w.procedure_value(Tok("procedure", "P")))}, apply_answers=[err(E)])
                    res = r.run(w.ee, [expr, caller])
                elif site == "call/operand-fails":
                    expr = w.call(w.sym("OP"), [w.sym("A1"), w.sym("A2")])
                    r = Run(w, answers={"OP": ok(w.procedure_value(Tok("procedure", "P"))), "A2": err(E)})
                    res = r.run(w.ee, [expr, caller])
                elif site == "assignment/value-fails":
                    # (set! x E) whose value expression fails with an error located where it happened
                    expr = w.assign("x", w.sym("E1"))
                    r = Run(w, answers={"E1": err(E)})
                    res = r.run(w.ee, [expr, caller])
                elif site == "conditional/test-fails":
                    expr = w.cond(w.sym("T1"), w.sym("C1"), w.sym("A1"))
                    r = Run(w, answers={"T1": err(E)})
                    res = r.run(w.ee, [expr, caller])
                elif site == "tail-call/operand-fails":
                    if getattr(w.epc, "missing", False) or getattr(w.asp, "missing", False):
                        raise absint.Stuck("no function evaluates a pending call / applies a user procedure on this tree")
                    sp = w.scheme_procedure(w.formals(["a"]), [], [w.sym("B1")])
                    inner_ = Enum(0, [w.sym("OP2"), [w.sym("X1"), w.sym("X2")], Frame(None, "frame-of-turn-1")])
                    inner_.name = "Ref"
                    tc_ = Enum(0, [inner_])
                    tc_.name = "TailCall"
                    r = Run(w, follow=[w.epc.name], asp_answers=[ok(tc_)],
                            answers={"OP2": ok(w.procedure_value(Tok("procedure", "P2"))), "X2": err(E)})
                    res = r.run(w.ap, [w.user(sp, cenv), [Tok("arg", "V1")], caller])
                elif site == "apply/builtin-fails":
                    p = w.named(w.proc, "Builtin", [[Tok("name", "builtin-name"), w.formals(["x"]), Tok("body", "builtin-body")]])
                    r = Run(w, builtin_answers=[err(E)])
                    res = r.run(w.ap, [p, [Tok("arg", "V1")], caller])
                else:
                    sp = w.scheme_procedure(w.formals(["a"]), [], [w.sym("B1"), w.sym("B2")])
                    r = Run(w, follow=[w.asp.name], answers={"B1": err(E)})
                    res = r.run(w.ap, [w.user(sp, cenv), [Tok("arg", "V1")], caller])
            except (absint.Stuck, absint.Loop) as e:
                rows.append((label, own, {"stuck": str(e)}))
                continue
            handed = {machine.key_of(some([100 + i, 1])) for i in range(first_loc + 1, w.nloc + 1)}
            rows.append((label, own, {"result": res, "payload": payload, "own_loc": own_loc, "handed_out": handed}))
    return rows


def arity_location_table(w):
    """apply_procedure on a user procedure given the wrong number of arguments: the error it builds must not carry a location taken
    from the procedure's own text (its parameter list, its body) — that text belongs to whatever form defined the procedure"""
    rows = []
    for shape, fixed, rest, nargs in (("fixed2/1-arg", ["a", "b"], None, 1), ("fixed2/3-args", ["a", "b"], None, 3),
                                      ("fixed1+rest/0-args", ["a"], "r", 0), ("thunk/1-arg", [], None, 1)):
        first = w.nloc
        sp = w.scheme_procedure(w.formals(fixed, rest), [], [w.sym("B1")])
        callee_locs = {machine.key_of(some([100 + i, 1])) for i in range(first + 1, w.nloc + 1)}
        cenv, caller = Frame(None, "closure-env"), Frame(None, "caller-env")
        r = Run(w, follow=[w.asp.name])
        try:
            res = r.run(w.ap, [w.user(sp, cenv), [Tok("arg", "V%d" % i) for i in range(nargs)], caller])
        except (absint.Stuck, absint.Loop) as e:
            rows.append((shape, {"stuck": str(e)}))
            continue
        rows.append((shape, {"result": res, "callee_locs": callee_locs}))
    return rows


def rule_arity_location(ctx, rule):
    fb = ctx.fb()
    t = tables(fb)
    w = t["w"]
    if "arity-locations" not in t:
        t["arity-locations"] = arity_location_table(w)
    n = 0
    where = mir_where(w.ap)
    for shape, d in t["arity-locations"]:
        key = "arity-error/%s" % shape
        if "stuck" in d:
            ctx.undecided(rule, key, "abstract evaluation could not follow the application (%s)" % d["stuck"], where)
            continue
        res = d["result"]
        locd = [x for x in find_enum(res, "Located") if len(x.fields) > 1]
        if getattr(res, "name", None) != "Err" or not locd:
            ctx.undecided(rule, key, "the wrong argument count does not come out as a located-or-not error here (%r): decided by C08" % (res,), where)
            continue
        loc = locd[0].fields[1]
        absent = loc is None or (isinstance(loc, Enum) and loc.variant == 0)
        n += 1
        bad = (not absent) and machine.key_of(loc) in d["callee_locs"]
        ctx.inst(rule, key, {"location": "absent" if absent else ("of the callee's text" if bad else "other")})
        ctx.oblige(not bad)
        if bad:
            ctx.report(rule, key, "the error for a wrong number of arguments carries the location of the CALLED procedure's own text (its "
                       "parameter list or body): a procedure defined in one top-level form and called wrongly in another is reported inside "
                       "the form that defined it, not the one that failed", where)
    return n


def library_nontail_native_call(repo=None):
    """(procedure, call) — a procedure that scheme/base.sld defines in Scheme whose body holds, in operand position (so: not a tail
    call), a call of car / cdr: the witness that library text is evaluated by the same evaluator with a failing builtin below it"""
    from scm import library as L, derived
    from scm.reader import Sym
    try:
        mf = derived.load(repo)
        mf = mf[0] if isinstance(mf, tuple) else mf
        lib = L.load(L.BASE, repo)
    except Exception:
        return None
    for name in lib.def_order:
        fm, body = lib.defs[name]
        if fm is None:
            continue
        try:
            cb = [L.core(mf, b) for b in body]
        except Exception:
            continue
        for t in cb:
            for sub in L.subterms(t):
                if isinstance(sub, list) and len(sub) > 1 and isinstance(sub[0], Sym) and sub[0].name not in ("if", "lambda", "quote", "set!", "define"):
                    for arg in sub[1:]:
                        if isinstance(arg, list) and len(arg) == 2 and isinstance(arg[0], Sym) and arg[0].name in ("car", "cdr") \
                                and isinstance(arg[1], Sym) and arg[1].name in fm[0]:
                            return name, "(%s %s)" % (arg[0].name, arg[1].name), fm
    return None


def rule_error_locations(ctx, rule):
    """an error without a location passes through the evaluator without acquiring the location of whatever expression is being
    evaluated at that depth (the expression may be text of the bundled library: locations carry no source identity); an error with a
    location keeps it"""
    import os
    fb = ctx.fb()
    t = tables(fb)
    w = t["w"]
    if "error-locations" not in t:
        t["error-locations"] = error_location_table(w)
    decided = 0
    witness = None
    for site, own, d in t["error-locations"]:
        key = "%s/%s" % (site, "located-error" if own else "unlocated-error")
        where = mir_where(w.ee if site.startswith(("call", "assignment", "conditional")) else w.ap)
        if "stuck" in d:
            ctx.undecided(rule, key, "abstract evaluation could not follow the evaluator on this case (%s)" % d["stuck"], where)
            continue
        res = d["result"]
        locd = [x for x in find_enum(res, "Located") if x.fields and x.fields[0] is d["payload"]]
        if getattr(res, "name", None) != "Err" or not locd:
            ctx.undecided(rule, key, "the failing sub-evaluation's error is not what comes out (%r): decided elsewhere (C08-propagation)" % (res,), where)
            continue
        loc = locd[0].fields[1] if len(locd[0].fields) > 1 else None
        absent = loc is None or (isinstance(loc, Enum) and loc.variant == 0)
        if own:
            good = (not absent) and machine.key_of(loc) == machine.key_of(d["own_loc"])
            decided += 1
            ctx.inst(rule, key, {"keeps_its_location": bool(good)})
            ctx.oblige(bool(good))
            if not good:
                ctx.report(rule, key, "an error that has a location of its own leaves the evaluator with the location %r" % (loc,), where)
            continue
        stamped = (not absent) and isinstance(loc, Enum) and machine.key_of(loc) in d["handed_out"]
        if not absent and not stamped:
            ctx.undecided(rule, key, "the unlocated error comes out with a location (%r) that is none of the expressions' in this row" % (loc,), where)
            continue
        decided += 1
        ctx.inst(rule, key, {"location_after": "absent" if absent else "an expression's of this evaluation"})
        if stamped:
            if witness is None:
                witness = library_nontail_native_call(os.environ.get("VERIF_REPO", "/repo")) or False
            if not witness:
                ctx.undecided(rule, key, "an unlocated error takes the location of an expression under evaluation; no library procedure "
                                         "with a failing builtin call in its body was found to show that this can be library text", where)
                continue
            name, call, fm = witness
            ctx.oblige(False)
            ctx.report(rule, key, "an error raised without a location (a builtin's type / range error) takes the location of the expression "
                       "being evaluated where it passes; that expression can be text of the bundled library — %s in the body of %s "
                       "(scheme/base.sld) — whose line/column is then reported under the program's file name, outside the failing form"
                       % (call, name), where)
        else:
            ctx.oblige(True)
    return decided


def rule_trampoline(ctx, rule, aspects):
    """aspects ⊆ {rebind, arity, env}"""
    fb = ctx.fb()
    t = tables(fb)
    w = t["w"]
    v = Verdict(ctx, rule, mir_where(w.ap))
    for second, d in t["trampoline"]:
        key = "tail-call/%s" % second
        if "stuck" in d:
            evs = d.get("evals_so_far") or []
            if second == "whole-tail-call" and "once" in aspects and (evs.count("OPX") > 1 or evs.count("ARGX") > 1):
                d = dict(d)
                d.pop("stuck")
                v.row(key, d, [(False, "operator / operand of a call in tail position are evaluated more than once (%s)" % evs)])
                continue
            v.row(key, d, [])
            continue
        if second in ("same-operator-name-other-procedure", "same-call-site-other-procedure"):
            if not (set(aspects) & {"rebind", "operator"}):
                continue
            v.row(key, d, [
                (d["recursive_applies"] == 0, "the trampoline calls apply_procedure recursively for a pending tail call"),
                (d["applied"] == [1, 2, 3] and d["third_args_ok"] and d["third_env_ok"],
                 "three turns whose second and third are entered through the same operator %s, bound to a different procedure each "
                 "time, apply the procedures %s (expected 1, 2, 3, the third on its own argument under its own closure environment): the "
                 "operator of a pending call must be evaluated every time, neither its name nor its place says which procedure it denotes"
                 % ("expression (one call site reached on consecutive turns)" if second.startswith("same-call-site") else "name", d["applied"],))])
            continue
        if second == "closure-made-in-the-finished-frame":
            if not (set(aspects) & {"rebind", "frame"}):
                continue
            v.row(key, d, [
                (d["recursive_applies"] == 0, "the trampoline calls apply_procedure recursively for a pending tail call"),
                (d["n_frames"] == 2 and d["second_parent_is_first_frame"] and d["define_frames"] == [0, 1],
                 "a tail call to a closure made in the finished turn's frame (a `let` in tail position) binds its parameter in frame(s) %s with "
                 "%d frame(s) created; expected a new child of that frame for the second turn — binding in the frame itself changes what "
                 "closures made there earlier see" % (d["define_frames"], d["n_frames"]))])
            continue
        if second.startswith("lambda-expression-in-tail-position"):
            if not (set(aspects) & {"rebind", "frame"}):
                continue
            v.row(key, d, [
                (d["n_frames"] == 2 and d["second_parent_is_first_frame"] and d["define_frames"] == [0, 1] and d["body_frame"] == [1]
                 and d["argx_frame"] == [0],
                 "((lambda (%s) C1) ARGX) in tail position of a procedure with the parameter a: %d frame(s) created, parameters bound in "
                 "frame(s) %s, ARGX evaluated in frame %s, C1 in frame %s; expected the operand evaluated in the procedure's frame and the "
                 "lambda's parameter bound, and its body run, in a new child of that frame — binding in the frame itself changes what "
                 "closures made there earlier see (let / let* / the temporaries of or / cond / case in tail position)" % (
                     second.rsplit("-", 1)[1], d["n_frames"], d["define_frames"], d["argx_frame"], d["body_frame"]))])
            continue
        if second.startswith("self-tail-call"):
            checks = [(d["recursive_applies"] == 0, "the trampoline calls apply_procedure recursively for a pending tail call")]
            if "rebind" in aspects or "frame" in aspects:
                checks += [
                    (d["n_frames"] == 2 and d["distinct_frames"] == 2 and d["parents_ok"],
                     "a self tail call does not get a frame of its own: %d frame(s) created for 2 turns (the finished turn's frame is "
                     "reused, so closures created in it see the next turn's bindings)" % d["n_frames"]),
                    (d["define_frames"] == [0, 1], "the parameters of the two turns are bound in frames %s, expected one binding in each "
                     "turn's own frame" % d["define_frames"]),
                    (len(d["defines"]) == 2 and d["defines"][1][1] is d["arg2"], "the second turn does not bind the evaluated argument"),
                ]
            v.row(key, d, checks)
            continue
        if second == "whole-tail-call":
            if "once" not in aspects:
                continue
            checks = [
                (sorted(d["evals"]) == [("ARGX", 0), ("OPX", 0)], "operator and operand of a call in tail position are evaluated %s (form, frame of "
                 "which application); expected each exactly once, in the frame of the running procedure" % d["evals"]),
                (d["frames"] == [(True, False), (False, True)] and len(d["defines"]) == 2 and d["defines"][1][1] is d["argx"] and d["tails"] == ["C1"],
                 "after the tail call the callee is not applied to the operand's value in a frame under its own closure environment "
                 "(frames %s, bindings %s, body %s)" % (d["frames"], d["defines"], d["tails"])),
            ]
            v.row(key, d, checks)
            continue
        if second.startswith("real-body") and not (set(aspects) & {"rebind", "arity", "env"}):
            continue
        if second.startswith("real-body"):
            checks = [(d["recursive_applies"] == 0, "the trampoline calls apply_procedure recursively for a pending tail call "
                                                    "(the Rust stack grows with every tail call)")]
            if "rebind" in aspects:
                checks += [
                    (len(d["tail_call_evals"]) == 1 and d["pending_passed"],
                     "a pending tail call produced by the body is not evaluated exactly once by the trampoline"),
                    (d["frames"] == [(True, False), (False, True)],
                     "the two turns do not each create one frame under the respective closure's environment (frames: %s)" % d["frames"]),
                    (len(d["defines"]) == 2 and d["defines"][1][0] == "x" and d["defines"][1][1] is d["arg2"],
                     "the tail-called procedure's parameter is not bound to the evaluated argument (%s)" % d["defines"]),
                    ([x for x in d["order"] if x[0] != "new_child"] == [("eval", "B1"), ("tail", "TAILCALL"), ("eval-tail-call", None), ("tail", "C1")],
                     "order of evaluation across the tail call is %s" % d["order"]),
                    (contains(d["result"], lambda x: isinstance(x, Tok) and x.tag == "C1"), "the loop does not return the callee's value (%r)" % (d["result"],)),
                ]
            v.row(key, d, checks)
            continue
        if not (set(aspects) & {"rebind", "arity", "env", "closure-env"}):
            continue
        au, ab, etc, res = d["user_applications"], d["builtin_applications"], d["tail_call_evals"], d["result"]
        if set(aspects) == {"frame", "closure-env"} or set(aspects) == {"closure-env"}:
            # only the closure aspect: two closures of one lambda expression are two procedures; a tail call from one to the other
            # runs the body under the environment the callee captured
            if second != "same-code-other-env":
                continue

            def env_of0(x, cenv):
                return x is cenv or (isinstance(x, Frame) and x.parent is cenv)
            v.row(key, d, [(len(au) == 2 and env_of0(au[1][4], d["cenv2"]) and not env_of0(au[1][4], d["cenv1"]),
                            "a tail call from one closure to another closure of the same lambda expression runs the body in the "
                            "caller's captured environment: the two closures share what each should keep for itself")])
            continue

        def env_of(x, cenv):
            # the captured environment itself, or (when the trampoline creates the body frame) a fresh child of it
            return x is cenv or (isinstance(x, Frame) and x.parent is cenv)
        checks = [(d.get("recursive_applies", 0) == 0, "the trampoline calls apply_procedure recursively for a pending tail call "
                                                      "(the Rust stack grows with every tail call)")]
        first_ok = bool(au) and au[0][1] is d["sp1"][0] and env_of(au[0][4], d["cenv1"])
        if "rebind" in aspects:
            checks.append((first_ok, "the first turn does not apply the initial procedure"))
            checks.append((len(etc) == 1, "the pending tail call is evaluated %d times (expected once)" % len(etc)))
            if second in ("user-ok", "same-code-other-env", "thunk-ok"):
                checks.append((len(au) == 2 and au[1][1] is d["sp2"][0] and au[1][2] is d["sp2"][1] and au[1][3] is d["sp2"][2],
                               "the second turn of the trampoline does not run the procedure the tail call evaluated to"))
                checks.append((len(au) == 2 and isinstance(au[1][5], list) and len(au[1][5]) == len(d["args2"]) and
                               all(x is y for x, y in zip(au[1][5], d["args2"])),
                               "the second turn does not use the arguments the tail call evaluated to"))
                checks.append((len(au) == 2 and env_of(au[1][4], d["cenv2"]),
                               "the second turn runs in an environment other than the one captured by the tail-called closure"))
                checks.append((contains(res, lambda x: isinstance(x, Tok) and x.tag == "final"), "the trampoline does not return the final value (%r)" % (res,)))
            if second == "builtin":
                checks.append((len(ab) == 1 and isinstance(ab[0][2], list) and len(ab[0][2]) == 1 and ab[0][2][0] is d["args2"][0],
                               "a builtin reached through a tail call is not applied to the evaluated arguments"))
        if "arity" in aspects and second in ("user-arity", "self-arity"):
            rl = d.get("real")
            if rl and "stuck" not in rl:
                # (decided with the applying code followed: the count may be checked while the parameters are bound)
                checks.append((not rl["second_body_evaluated"], "a procedure reached through a tail call runs its body although the argument count is wrong"))
                checks.append((_err_kind(rl["result"], "ArgumentMissMatch"), "a tail call with the wrong argument count yields %r, expected "
                               "Err(ArgumentMissMatch)" % (rl["result"],)))
            else:
                checks.append((len(au) == 1 and not ab, "a procedure reached through a tail call is applied although the argument count is wrong"))
                checks.append((_err_kind(res, "ArgumentMissMatch"), "a tail call with the wrong argument count yields %r, expected "
                               "Err(ArgumentMissMatch)" % (res,)))
        if "env" in aspects:
            checks.append((len(etc) == 1 and len(etc[0]) > 3 and etc[0][3] is d["tail_env"],
                           "the pending tail call's operator and operands are not evaluated in the environment the tail call carries"))
        v.row(key, d, checks)
    return v.decided


def mir_where(f):
    from .ctx import where_of
    return where_of(f)


# ================================================================================================ more tables


def epc_table(w):
    """eval_procedure_call(OP, [A1 A2], env): the pending tail call's operator and operands are evaluated (once each, in the
    given environment) and the operator's value must be a procedure"""
    rows = []
    env = Frame(None, "tail-env")
    for scenario in ("procedure", "non-procedure", "operator-error"):
        op, args = w.sym("OP"), [w.sym("A1"), w.sym("A2")]
        ptok = Tok("procedure", "P")
        answers = {"OP": ok(w.procedure_value(ptok)) if scenario == "procedure" else ok(w.named(w.val, "Boolean", [True]))}
        if scenario == "operator-error":
            if getattr(w.epc, "missing", False):
                continue
            # the operator itself fails (an unbound variable, a failing sub-call): nothing after it is evaluated
            answers = {"OP": err(Tok("error", "EOP"))}
        r = Run(w, answers=answers)
        if getattr(w.epc, "missing", False):
            # no such function on this tree: the pending call is evaluated by whoever runs the trampoline.  One turn of
            # apply_procedure whose application hands back the pending call (OP A1 A2) carrying `env`; a builtin is what OP stands
            # for, so the second turn ends in its application
            if scenario == "procedure":
                params2 = w.formals(["x", "y"])
                ptok = w.named(w.proc, "Builtin", [[Tok("name", "builtin-name"), params2, Tok("body", "builtin-body")]])
                answers["OP"] = ok(w.procedure_value(ptok))
            tc = Enum(0, [Enum(0, [op, list(args), env])])
            tc.name = "TailCall"
            tc.fields[0].name = "Ref"
            sp1 = w.scheme_procedure(w.formals(["a"]), [], [w.sym("B1")])
            r = Run(w, answers=answers, asp_answers=[ok(tc)]) if not getattr(w.asp, "missing", False) else None
            if r is None:
                rows.append((scenario, {"stuck": "neither eval_procedure_call nor apply_scheme_procedure exists to script a pending tail call"}))
                continue
            try:
                res = r.run(w.ap, [w.user(sp1, Frame(None, "closure-env")), [Tok("arg", "V1")], Frame(None, "caller-env")])
            except (absint.Stuck, absint.Loop) as e:
                rows.append((scenario, {"stuck": str(e)}))
                continue
            evals = [e for e in r.events if e[0] == "eval"]
            ab = [e for e in r.events if e[0] == "apply-builtin"]
            if scenario == "procedure":
                # rendered as what eval_procedure_call would have returned: the procedure and the operand values
                got_args = ab[0][2] if ab and isinstance(ab[0][2], list) else []
                res = ok([ptok, list(got_args)]) if len(ab) == 1 else res
            rows.append((scenario, {"result": res, "evaluated": [e[1] for e in evals], "envs_ok": all(e[2] is env for e in evals),
                                    "applies": len([e for e in r.events if e[0] == "apply"]), "ptok": ptok, "op": op}))
            continue
        try:
            res = r.run(w.epc, [op, list(args), env])
        except (absint.Stuck, absint.Loop) as e:
            rows.append((scenario, {"stuck": str(e)}))
            continue
        evals = [e for e in r.events if e[0] == "eval"]
        rows.append((scenario, {"result": res, "evaluated": [e[1] for e in evals], "envs_ok": all(e[2] is env for e in evals),
                                "applies": len([e for e in r.events if e[0].startswith("apply")]), "ptok": ptok, "op": op}))
    if not getattr(w.epc, "missing", False):
        # (OP x x) in a frame that binds x, held by nobody else: a variable named twice among the operands denotes the frame's binding
        # both times.  A reference to x answers with what the frame binds at that moment (unbound once the frame has lost it).
        env2 = Frame(None, "tail-env-2")
        val = w.named(w.val, "Boolean", [True])
        env2.defs.d[machine.key_of("x")] = ("x", val)
        ptok = Tok("procedure", "P")

        def ref_x():
            cur = env2.defs.d.get(machine.key_of("x"))
            return ok(cur[1]) if cur is not None else err(Tok("error", "x-unbound"))
        r = Run(w, answers={"OP": ok(w.procedure_value(ptok)), "x": ref_x})
        try:
            res = r.run(w.epc, [w.sym("OP"), [w.sym("x"), w.sym("x")], env2])
            rows.append(("same-variable-twice", {"result": res}))
        except (absint.Stuck, absint.Loop) as e:
            rows.append(("same-variable-twice", {"stuck": str(e)}))
    return rows


def rule_epc(ctx, rule, rule_loc=None, operands_row=False):
    """operands_row: only the row on what the operands of a pending tail call denote (a variable named twice)"""
    fb = ctx.fb()
    w = tables(fb)["w"]
    if "epc" not in tables(fb):
        tables(fb)["epc"] = epc_table(w)
    v = Verdict(ctx, rule, mir_where(w.epc if not getattr(w.epc, "missing", False) else w.ap))
    for sc, d in tables(fb)["epc"]:
        res = d.get("result")
        if operands_row and sc != "same-variable-twice":
            continue
        if sc == "operator-error":
            v.row("tail-call/operator-fails", d, [
                (d.get("evaluated") == ["OP"], "a pending tail call whose operator fails evaluates %s; expected the operator only: the fault "
                                               "stops the call, operands evaluated after it have effects a later form can see" % d.get("evaluated")),
                (isinstance(res, Enum) and getattr(res, "name", None) == "Err" and contains(res, lambda x: isinstance(x, Tok) and x.tag == "EOP"),
                 "a pending tail call whose operator fails yields %r, expected that error" % (res,)),
            ])
            continue
        if sc == "same-variable-twice":
            if not operands_row:
                continue
            lost = contains(res, lambda x: isinstance(x, Tok) and x.tag == "x-unbound")
            if "stuck" not in d and not lost and not (isinstance(res, Enum) and getattr(res, "name", None) == "Ok"):
                ctx.undecided(rule, "tail-call/same-variable-twice", "cannot read what a pending tail call (OP x x) evaluates to (%r)" % (res,), v.where)
                continue
            v.row("tail-call/same-variable-twice", d, [
                (not lost, "a pending tail call (OP x x) in a frame that binds x finds x unbound at its second mention (%r): the loop "
                           "computes something else than the same calls in non-tail position" % (res,))])
            continue
        if sc == "procedure":
            v.row("tail-call/operator-is-procedure", d, [
                (sorted(d.get("evaluated", [])) == ["A1", "A2", "OP"] and d.get("envs_ok"),
                 "a pending tail call evaluates %s, expected operator and operands once each in the environment it carries" % d.get("evaluated")),
                (d.get("applies") == 0, "evaluating a pending tail call already applies the procedure (Rust recursion)"),
                (isinstance(res, Enum) and getattr(res, "name", None) == "Ok" and contains(res, lambda x: x is d["ptok"]) and
                 contains(res, lambda x: isinstance(x, Tok) and x.tag == "A1") and contains(res, lambda x: isinstance(x, Tok) and x.tag == "A2"),
                 "the evaluated tail call is %r, expected the operator's procedure and the operand values" % (res,)),
            ])
        else:
            tm = find_enum(res, "TypeMisMatch")
            v.row("tail-call/non-procedure-operator", d, [
                (_err_kind(res, "TypeMisMatch") and bool(tm) and contains(tm[0], lambda x: isinstance(x, Enum) and getattr(x, "name", None) == "Procedure"),
                 "a tail call whose operator is not a procedure yields %r, expected Err(TypeMisMatch(_, Procedure))" % (res,)),
            ])
            if rule_loc and "stuck" not in d:
                loc = _location_of(res)
                okl = _loc_ok(loc, [d["op"]])
                ctx.inst(rule_loc, "tail-call/non-procedure-operator/location", {"inside_the_call_form_or_statement": okl})
                if not okl:
                    ctx.report(rule_loc, "TailCall/location", "the non-procedure error of a tail call is located at %r, which is not "
                               "inside the failing call" % (loc,), mir_where(w.epc if not getattr(w.epc, "missing", False) else w.ap))
    return v.decided


def vector_table(w):
    """vector-ref / vector-set! on a two-element vector with every index class"""
    fb = w.fb
    rows = []
    vr = dict((n, i) for i, n in fb.variants("values::ValueReference"))
    num = dict((n, i) for i, n in fb.variants("values::Number"))
    for name in ("vector_ref", "vector_set"):
        f = fb.find("interpreter::library::native::base::" + name)
        for mutable in (True, False):
            for k in (-1, 0, 1, 2, 3, 2147483647, -2147483648, "equal"):
                e0, e1, newv = Tok("element", "e0"), Tok("element", "e1"), Tok("value", "new")
                if k == "equal":
                    # the value stored is EQUAL to what the slot holds (same number) but a different object: the store still has to
                    # happen (identity of what is stored matters to aliasing), and a literal vector still has to refuse
                    if name != "vector_set":
                        continue
                    mk5 = lambda: w.named(w.val, "Number", [w.named(num, "Integer", [5])])
                    e0, newv = mk5(), mk5()
                store = [e0, e1]
                eq_row, k = (k == "equal"), (0 if k == "equal" else k)
                vec = w.named(w.val, "Vector", [w.named(vr, "Mutable" if mutable else "Immutable", [store])])
                idx = w.named(w.val, "Number", [w.named(num, "Integer", [k])])
                args = [vec, idx] + ([newv] if name == "vector_set" else [])
                r = Run(w)
                try:
                    res = r.run(f, [list(args)])
                except (absint.Stuck, absint.Loop) as e:
                    rows.append(((name, mutable, k, eq_row), {"stuck": str(e)}))
                    continue
                rows.append(((name, mutable, k, eq_row), {"result": res, "store": list(store), "e0": e0, "e1": e1, "new": newv,
                                                  "panics": [e for e in r.mc.events if e[0] == "panic"]}))
    return rows


def eqv_table(w):
    """the native eqv? / eq? on every ordered pair of sample values of the atomic kinds: a symbol, a string, a boolean, a character and
    an exact integer that spell or hold the same thing are still different objects of different kinds"""
    fb = w.fb
    num = dict((n, i) for i, n in fb.variants("values::Number"))
    f = fb.find("interpreter::library::native::base::eqv")
    samples = [("symbol b", lambda: w.named(w.val, "Symbol", ["b"])), ("symbol c", lambda: w.named(w.val, "Symbol", ["c"])),
               ("string b", lambda: w.named(w.val, "String", ["b"])), ("string c", lambda: w.named(w.val, "String", ["c"])),
               ("#t", lambda: w.named(w.val, "Boolean", [True])), ("#f", lambda: w.named(w.val, "Boolean", [False])),
               ("character b", lambda: w.named(w.val, "Character", [98])), ("character c", lambda: w.named(w.val, "Character", [99])),
               ("integer 98", lambda: w.named(w.val, "Number", [w.named(num, "Integer", [98])])),
               ("integer 1", lambda: w.named(w.val, "Number", [w.named(num, "Integer", [1])]))]
    rows = []
    for na, mka in samples:
        for nb, mkb in samples:
            same_kind = na.split()[0] == nb.split()[0] or (na in ("#t", "#f") and nb in ("#t", "#f"))
            if na.startswith("string") and nb == na:
                continue                    # (eqv? of two strings with the same characters is not specified)
            want = (na == nb)
            r = Run(w)
            try:
                res = r.run(f, [[mka(), mkb()]])
            except (absint.Stuck, absint.Loop) as e:
                rows.append(((na, nb), {"stuck": str(e)}))
                continue
            got = None
            if isinstance(res, Enum) and getattr(res, "name", None) == "Ok" and res.fields and isinstance(res.fields[0], Enum) \
                    and getattr(res.fields[0], "name", None) == "Boolean" and isinstance(res.fields[0].fields[0], bool):
                got = res.fields[0].fields[0]
            rows.append(((na, nb), {"got": got, "want": want, "result": res}))
    return f, rows


def eqv_number_table(w, f):
    """the native procedure `f` (the target registered for eqv? / eq?) on every ordered pair of sample numbers: two numbers are
    equivalent only when they are of the same exactness and numerically equal — an exact 2 and an inexact 2.0 are not"""
    fb = w.fb
    num = dict((n, i) for i, n in fb.variants("values::Number"))
    samples = [("2", lambda: w.named(num, "Integer", [2])), ("3", lambda: w.named(num, "Integer", [3])),
               ("1/2", lambda: w.named(num, "Rational", [1, 2])), ("2/3", lambda: w.named(num, "Rational", [2, 3])),
               ("2.0", lambda: w.named(num, "Real", [2.0])), ("3.0", lambda: w.named(num, "Real", [3.0])), ("0.5", lambda: w.named(num, "Real", [0.5]))]
    rows = []
    for na, mka in samples:
        for nb, mkb in samples:
            r = Run(w)
            try:
                res = r.run(f, [[w.named(w.val, "Number", [mka()]), w.named(w.val, "Number", [mkb()])]])
            except (absint.Stuck, absint.Loop) as e:
                rows.append(((na, nb), {"stuck": str(e)}))
                continue
            got = None
            if isinstance(res, Enum) and getattr(res, "name", None) == "Ok" and res.fields and isinstance(res.fields[0], Enum) \
                    and getattr(res.fields[0], "name", None) == "Boolean" and isinstance(res.fields[0].fields[0], bool):
                got = res.fields[0].fields[0]
            rows.append(((na, nb), {"got": got, "want": na == nb, "result": res}))
    return rows


def rule_eqv_numbers(ctx, rule, name, f):
    """-> number of rows decided"""
    from .ctx import where_of
    w = tables(ctx.fb())["w"]
    n = 0
    stuck = {}
    for (na, nb), d in eqv_number_table(w, f):
        key = "%s/table/%s,%s" % (name, na, nb)
        if "stuck" in d or d["got"] is None:
            stuck.setdefault(d.get("stuck") or "the result is not a known boolean", []).append("(%s, %s)" % (na, nb))
            continue
        n += 1
        good = d["got"] == d["want"]
        ctx.inst(rule, key, {"answer": d["got"]})
        ctx.oblige(good)
        if not good:
            ctx.report(rule, key, "(%s %s %s) answers %s, expected %s: numbers are equivalent only when they have the same exactness and the "
                       "same value" % (name, na, nb, "#t" if d["got"] else "#f", "#t" if d["want"] else "#f"), where_of(f))
    for why, pairs in sorted(stuck.items()):
        ctx.undecided(rule, "%s/table" % name, "cannot follow the native %s on %d pair(s) of numbers, e.g. %s (%s)" % (name, len(pairs), pairs[0], why),
                      where_of(f))
    return n


def definition_statement_table(w):
    """eval_expression_or_definition on a REAL top-level definition (define x E), x not yet bound / already bound in the environment:
    what the statement yields (nothing: a definition has no value to print) and what the environment binds afterwards"""
    fb = w.fb
    f = fb.find(INTERP + "eval_expression_or_definition")
    dfn = fb.find(SCOPE + "define")
    unit = (dfn.local_ty(0) or "()").strip() in ("()", "")
    st_ = dict((n, i) for i, n in fb.variants("parser::parser::Statement"))
    fields_ = [x["name"] for x in fb.adt("interpreter::interpreter::Interpreter")["variants"][0]["fields"]]
    rows = []
    for bound in (False, True):
        env = Frame(None, "top-level-env")
        old = Tok("value", "OLD")
        if bound:
            env.defs.d[machine.key_of("x")] = ("x", old)
        E = w.sym("E")
        body = Enum(0, [["x", E], w.loc()])
        body.name, body.adt = "Located", "error::Located"
        stmt = Enum(st_["Definition"], [body])
        stmt.name, stmt.adt = "Definition", "parser::parser::Statement"
        r = Run(w)
        if not unit:
            # define hands something back: what, is read off the crate's own define on a frame that binds the name or not (scopes.py)
            from . import scopes
            wk = scopes.walk(fb, "define", {0} if bound else set(), 1)
            if "stuck" in wk:
                rows.append((bound, {"stuck": "LexicalScope::define hands back a value and cannot be followed (%s)" % wk["stuck"]}))
                continue
            kind_ = wk.get("result")
            if kind_ == "Some":
                r.define_result = lambda fr, nm, old=old: some(old)
            elif kind_ == "None":
                r.define_result = lambda fr, nm: none()
            else:
                rows.append((bound, {"stuck": "LexicalScope::define hands back %r" % (kind_,)}))
                continue
        selfv = [UNKNOWN for _ in fields_]
        try:
            res = r.run(f, [selfv, stmt, env][-f.arg_count:] if f.arg_count <= 3 else [selfv, stmt, env])
        except (absint.Stuck, absint.Loop) as e:
            rows.append((bound, {"stuck": str(e)}))
            continue
        defines = [e for e in r.events if e[0] == "define"]
        rows.append((bound, {"result": res, "defines": [(e[1] is env, e[2], isinstance(e[3], Tok) and e[3].tag == "E") for e in defines], "old": old}))
    return f, rows


def rule_definition_statement(ctx, rule):
    """-> rows decided"""
    fb = ctx.fb()
    w = tables(fb)["w"]
    try:
        f, rows = definition_statement_table(w)
    except (mir.AnchorMissing, KeyError) as e:
        ctx.undecided(rule, "definition-statement", "the statement evaluator could not be set up (%s)" % e)
        return 0
    v = Verdict(ctx, rule, mir_where(f))
    for bound, d in rows:
        key = "definition-statement/%s" % ("name-already-bound" if bound else "name-unbound")
        if "stuck" in d:
            v.row(key, d, [])
            continue
        res = d["result"]
        nothing = isinstance(res, Enum) and getattr(res, "name", None) == "Ok" and res.fields and isinstance(res.fields[0], Enum) \
            and is_none(res.fields[0])
        v.row(key, d, [
            (nothing, "evaluating (define x E) with x %s yields %r, expected no value: a definition prints nothing and is not the value "
                      "of a program" % ("already bound" if bound else "not yet bound", res)),
            (d["defines"] == [(True, "x", True)], "evaluating (define x E) binds %s, expected x bound once, to the value of E, in the "
                                                  "environment of the statement" % (d["defines"],))])
    return v.decided


def is_none(x):
    return isinstance(x, Enum) and ((getattr(x, "name", None) == "None") or (x.variant == 0 and not x.fields and getattr(x, "name", None) in (None, "None")))


def rule_frame_cycles(ctx, rule):
    """-> (decided, names): after a procedure with an internal procedure definition has returned, does its frame still hold a
    procedure whose environment is that frame?  With reference-counted environments (no weak edge anywhere) such a pair is
    never freed: every call leaves its frame behind."""
    fb = ctx.fb()
    t = tables(fb)
    where = mir_where(t["w"].ap)
    for (kind, k), d in t["application"]:
        if "+" not in kind:
            continue
        if "stuck" in d or d.get("closed_over_own_frame") is None:
            ctx.undecided(rule, "internal-procedure-definition", "cannot follow the application of a procedure with an internal procedure "
                          "definition (%s)" % d.get("stuck", "no frame seen"), where)
            return 0, []
        names = d["closed_over_own_frame"]
        weak = sorted(n_ for n_, a in fb.adts.items() if any("Weak<" in str(f.get("ty", "")) for v_ in a.get("variants", []) for f in v_.get("fields", [])))
        ctx.inst(rule, "internal-procedure-definition", {"frame_binds_procedures_closed_over_it": names, "types_with_weak_references": weak})
        return 1, (names if not weak else [])
    return 0, []


def rule_eqv_kinds(ctx, rule):
    fb = ctx.fb()
    from .ctx import where_of
    t = tables(fb)
    w = t["w"]
    try:
        f, rows = eqv_table(w)
    except mir.AnchorMissing as e:
        ctx.undecided(rule, "eqv", str(e))
        return 0
    n = 0
    for (na, nb), d in rows:
        key = "eqv/%s/%s" % (na, nb)
        if "stuck" in d or d["got"] is None:
            ctx.undecided(rule, key, "cannot follow the native eqv? on (%s, %s) (%s)" % (na, nb, d.get("stuck") or repr(d.get("result"))), where_of(f))
            continue
        n += 1
        good = d["got"] == d["want"]
        ctx.inst(rule, key, {"answer": d["got"]})
        ctx.oblige(good)
        if not good:
            ctx.report(rule, key, "(eqv? <%s> <%s>) answers %s, R7RS 6.1 says %s: memq, memv and the leaves of equal? compare with this "
                       "procedure" % (na, nb, "#t" if d["got"] else "#f", "#t" if d["want"] else "#f"), where_of(f))
    return n


def rule_vector(ctx, rule):
    fb = ctx.fb()
    w = tables(fb)["w"]
    if "vector" not in tables(fb):
        tables(fb)["vector"] = vector_table(w)
    decided = 0
    for (name, mutable, k, eq_row), d in tables(fb)["vector"]:
        f = fb.find("interpreter::library::native::base::" + name)
        v = Verdict(ctx, rule, mir_where(f))
        key = "%s/%s/index=%d%s" % (name, "mutable" if mutable else "literal", k, "/value-equal-to-current" if eq_row else "")
        if "stuck" in d:
            v.row(key, d, [])
            continue
        res, inb = d["result"], k in (0, 1)
        checks = [(not d["panics"], "%s can panic: %s" % (name, d["panics"]))]
        if name == "vector_ref":
            if inb:
                checks.append((isinstance(res, Enum) and getattr(res, "name", None) == "Ok" and contains(res, lambda x: x is (d["e0"], d["e1"])[k]),
                               "(vector-ref v %d) yields %r, expected element %d" % (k, res, k)))
            else:
                checks.append((_err_kind(res, "VectorIndexOutOfBounds"), "(vector-ref v %d) on a 2-element vector yields %r, expected "
                               "Err(VectorIndexOutOfBounds)" % (k, res)))
            checks.append((d["store"] == [d["e0"], d["e1"]], "vector-ref changes the vector"))
        else:
            if not mutable:
                checks.append((_err_kind(res, "RequiresMutable") or (not inb and _err_kind(res, "VectorIndexOutOfBounds")),
                               "(vector-set! <literal> %d x) yields %r, expected an error" % (k, res)))
                checks.append((len(d["store"]) == 2 and d["store"][0] is d["e0"] and d["store"][1] is d["e1"], "vector-set! changes a literal vector"))
            elif inb:
                want = [d["new"], d["e1"]] if k == 0 else [d["e0"], d["new"]]
                checks.append((isinstance(res, Enum) and getattr(res, "name", None) == "Ok", "(vector-set! v %d x) yields %r" % (k, res)))
                checks.append((len(d["store"]) == 2 and all(a is b for a, b in zip(d["store"], want)),
                               "(vector-set! v %d x) leaves the storage as %r, expected only element %d replaced by x" % (k, d["store"], k)))
            else:
                checks.append((_err_kind(res, "VectorIndexOutOfBounds"), "(vector-set! v %d x) on a 2-element vector yields %r, expected "
                               "Err(VectorIndexOutOfBounds)" % (k, res)))
                checks.append((d["store"] == [d["e0"], d["e1"]], "an out-of-range vector-set! changes the vector"))
        v.row(key, d, checks)
        decided += v.decided
    return decided


def vector_access_is_safe(fb, name):
    """do the rows of the vector table for `name` (vector_ref / vector_set: a 2-element vector with the indices -2^31, -1, 0, 1, 2 = length,
    3, 2^31-1, mutable and literal) all complete, out-of-range ones with Err(VectorIndexOutOfBounds) — or the refusal of a literal —
    and none reaching a panic?  True / False / None (a row could not be followed)"""
    t = tables(fb)
    if "vector" not in t:
        t["vector"] = vector_table(t["w"])
    seen = False
    for (nm, mutable, k, eq_row), d in t["vector"]:
        if nm != name:
            continue
        seen = True
        if "stuck" in d:
            return None
        if d["panics"]:
            return False
        if k not in (0, 1) and not (_err_kind(d["result"], "VectorIndexOutOfBounds") or (not mutable and _err_kind(d["result"], "RequiresMutable"))):
            return False
    return True if seen else None


def application_is_sound(fb):
    """(all 12 application rows decided, arity verdicts as R7RS requires, no panic met) and the functions the rows went through"""
    t = tables(fb)
    visited, good = set(), True
    for (kind, k), d in t["application"]:
        if "stuck" in d:
            return False, set()
        res = d["result"]
        accepted = isinstance(res, Enum) and getattr(res, "name", None) == "Ok"
        if accepted != d["accepts"] or d["panics"] or (not d["accepts"] and not _err_kind(res, "ArgumentMissMatch")):
            good = False
        visited |= d["visited"]
    for second, d in t["trampoline"]:
        if second not in ("user-arity", "self-arity"):
            continue                                  # only the arity rows bear on this verdict
        if "stuck" in d:
            return False, set()
        rl = d.get("real")
        if rl and "stuck" not in rl:
            if rl["second_body_evaluated"] or not _err_kind(rl["result"], "ArgumentMissMatch"):
                good = False
        elif second in ("user-arity", "self-arity") and not (_err_kind(d["result"], "ArgumentMissMatch") and len(d["user_applications"]) == 1):
            good = False
    return good, visited


# ================================================================================================ conditionals and tail position


def conditional_table(w, f):
    """(if T C A) / (if T C) evaluated by f (eval_expression or the tail evaluator), for both outcomes of the test"""
    rows = []
    # (has_alt: True / False, or "arm-same-text-as-test": the arm selected is another occurrence of the very text of the test — (and e e)
    # expands to (if e e #f) — which is evaluated like any other arm: the same text is not the same evaluation)
    for truth in (True, False):
        for has_alt in (True, False, "arm-same-text-as-test"):
            env = Frame(None, "env")
            T, C, A = w.sym("T"), w.sym("C"), w.sym("A")
            same = has_alt == "arm-same-text-as-test"
            if same:
                # (a call, not a variable: a variable read twice is the same value, a call made twice is two calls)
                import copy as _copy
                T = w.call(w.sym("TF"), [])
                # (another object with the same text; its positions are given the same numbers, so that an evaluator comparing the two
                # forms finds them equal whether or not its comparison looks at positions)
                twin_ = _copy.deepcopy(T)
                C, A = (twin_, A) if truth else (C, twin_)
            expr = w.cond(T, C, A if has_alt else None)
            r = Run(w, truths={"T": truth, "call:TF": truth}, stub_eval_all=same)
            try:
                res = r.run(f, [expr, env])
            except (absint.Stuck, absint.Loop) as e:
                rows.append(((truth, has_alt), {"stuck": str(e)}))
                continue
            # (a test that is a plain variable may be looked up in place instead of going through eval_expression: the same thing)
            evs = [(("eval", "T") if e[0] == "get" else (e[0], e[1])) for e in r.events if e[0] in ("eval", "tail") or (e[0] == "get" and e[2] == "T")]
            if same:
                # the arm of the tail evaluator is a call: it comes back as a pending call (of the arm's own operator expression)
                arm = C if truth else A
                pend = [x for x in find_enum(res, "TailCall")]
                evs = [("eval", "T") if e == ("eval", "call:TF") and i == 0 else (e[0], "T") if e[1] == "call:TF" else e for i, e in enumerate(evs)]
                if pend and contains(pend[0], lambda x: x is arm[0].fields[0]):
                    evs.append(("tail", "T"))
            rows.append(((truth, has_alt), {"result": res, "events": evs, "as_boolean": ("as_boolean", "T") in r.events or ("as_boolean", "call:TF") in r.events,
                                            "pending_arm": same and bool(find_enum(res, "TailCall")),
                                            "envs_ok": all(e[2] is env for e in r.events if e[0] in ("eval", "tail")) and
                                            all(e[1] is env for e in r.events if e[0] == "get")}))
    return rows


def truthiness_table(w, f):
    """(if T C A) where T evaluates to a REAL value of every kind — as a compound test and as a plain variable reference — run by f
    (eval_expression / a tail evaluator) with the crate's own as_boolean followed: which arm runs"""
    num = dict((n, i) for i, n in w.fb.variants("values::Number"))

    def V(name, *fields):
        e = w.named(w.val, name, list(fields))
        e.adt = "values::Value"
        return e
    empty = w.named(w.gp, "Empty", [])
    empty.adt = "parser::pair::GenericPair"
    kinds = [("#t", V("Boolean", True), True), ("#f", V("Boolean", False), False),
             ("0", V("Number", w.named(num, "Integer", [0])), True), ("the empty list", V("Pair", empty), True),
             ("the empty string", V("String", ""), True), ("a symbol", V("Symbol", "false"), True), ("a character", V("Character", 102), True),
             ("a procedure", w.procedure_value(Tok("procedure", "P")), True)]
    if "Void" in w.val:
        kinds.append(("the unspecified value", V("Void"), True))
    rows = []
    for label, val, truthy in kinds:
        for how in ("compound-test", "variable-test"):
            env = Frame(None, "env")
            name = "T" if how == "compound-test" else "x"
            expr = w.cond(w.sym(name), w.sym("C"), w.sym("A"))
            r = Run(w, answers={name: ok(val)}, lookups={name: some(val)})
            try:
                res = r.run(f, [expr, env])
            except (absint.Stuck, absint.Loop) as e:
                rows.append(((label, how, truthy), {"stuck": str(e)}))
                continue
            arms = [e[1] for e in r.events if e[0] in ("eval", "tail") and e[1] in ("C", "A")]
            rows.append(((label, how, truthy), {"result": res, "arms": arms}))
    return rows


def rule_truthiness(ctx, rule, f):
    """only #f counts as false: the consequent runs for every other value, whatever the test expression looks like"""
    w = tables(ctx.fb())["w"]
    v = Verdict(ctx, rule, mir_where(f))
    short = f.name.rsplit("::", 1)[-1]
    for (label, how, truthy), d in truthiness_table(w, f):
        key = "%s/%s/%s" % (short, how, label)
        if "stuck" in d:
            v.row(key, d, [])
            continue
        want = ["C"] if truthy else ["A"]
        v.row(key, d, [(d["arms"] == want, "(if %s C A) with %s bound / evaluating to %s runs %s, expected %s (only #f counts as false)" % (
            "x" if how == "variable-test" else "T", "x" if how == "variable-test" else "T", label, d["arms"] or "nothing", want))])
    return v.decided


def rule_conditional(ctx, rule, f):
    w = tables(ctx.fb())["w"]
    v = Verdict(ctx, rule, mir_where(f))
    short = f.name.rsplit("::", 1)[-1]
    for (truth, has_alt), d in conditional_table(w, f):
        same = has_alt == "arm-same-text-as-test"
        key = "%s/test=%s,%s" % (short, "true" if truth else "false", "arm-same-text-as-test" if same else ("alternative" if has_alt else "no-alternative"))
        if "stuck" in d:
            v.row(key, d, [])
            continue
        evs, res = d["events"], d["result"]
        want_arm = "C" if truth else ("A" if has_alt else None)
        arms = [x[1] for x in evs[1:]]
        form = "(if T C%s)" % (" A" if has_alt else "")
        if same:
            want_arm = "T"
            form = "(if (T) (T) A)" if truth else "(if (T) C (T))"
        checks = [
            (bool(evs) and evs[0] == ("eval", "T") and d["as_boolean"], "the test of %s is not evaluated first, once, and judged by as_boolean "
             "(evaluations %s)" % (form, evs)),
            (arms == ([want_arm] if want_arm else []), "on a %s test the evaluator runs %s of %s, expected %s" % (
                truth, arms or "nothing", form, [want_arm] if want_arm else "nothing")),
            (d["envs_ok"], "a sub-form of %s is evaluated in another environment" % form),
        ]
        if same:
            checks.append((d.get("pending_arm") or contains(res, lambda x: isinstance(x, Tok) and x.kind == "value-of" and x.tag == "call:TF"),
                           "the value of %s with a %s test is %r, expected the value of (or the pending call of) the second (T)" % (form, truth, res)))
        elif want_arm:
            checks.append((contains(res, lambda x: isinstance(x, Tok) and x.tag == want_arm) and
                           not contains(res, lambda x: isinstance(x, Tok) and x.kind == "value-of" and x.tag != want_arm),
                           "the value of %s with a %s test is %r, expected the value of %s" % (form, truth, res, want_arm)))
        else:
            checks.append((bool(find_enum(res, "Void")), "the value of (if #f C) is %r, expected the unspecified value" % (res,)))
        v.row(key, d, checks)
    return v.decided


def rule_tail_dispatch(ctx, rule):
    """tail evaluator, form by form: a call becomes a pending call carrying operator, operands and environment; every other
    form except the conditional is evaluated by eval_expression on the same expression and environment"""
    fb = ctx.fb()
    w = tables(fb)["w"]
    v = Verdict(ctx, rule, mir_where(w.ete))
    evars = fb.adt("parser::parser::ExpressionBody")["variants"]
    for var in evars:
        vn, vi = var["name"], var["i"]
        if vn == "Conditional":
            continue
        env = Frame(None, "env")
        fields = [Tok("field", "%s.%d" % (vn, k)) for k in range(len(var["fields"]))]
        e = Enum(vi, fields)
        e.name = vn
        expr = [e, w.loc()]
        r = Run(w)
        r.mark(expr, "EXPR")
        key = "eval_tail_expression/%s" % vn
        try:
            res = r.run(w.ete, [expr, env])
        except (absint.Stuck, absint.Loop) as ex:
            v.row(key, {"stuck": str(ex)}, [])
            continue
        evs = [(x[0], x[1], x[2] is env) for x in r.events if x[0] in ("eval", "tail", "apply")]
        if vn == "ProcedureCall":
            v.row(key, {}, [(not evs and all(contains(res, lambda x, t=t: x is t) for t in fields + [env]),
                             "a call in tail position must become a pending call carrying the same operator, operands and environment "
                             "(evaluations %s, result %r)" % (evs, res))])
        else:
            v.row(key, {}, [(evs == [("eval", "EXPR", True)] and contains(res, lambda x: isinstance(x, Tok) and x.tag == "EXPR"),
                             "a %s form in tail position is not evaluated by eval_expression on the same expression and environment with "
                             "that value returned (evaluations %s, result %r)" % (vn, evs, res))])
    # a call in tail position whatever its operator looks like: a variable, a call, a conditional, a lambda expression with fixed
    # parameters, with a rest parameter, with both — it is never evaluated on the Rust stack (no eval_expression of the call itself,
    # no apply_procedure from inside the tail evaluator)
    ops = [("a variable", lambda: w.sym("OP")), ("a call", lambda: w.call(w.sym("MK"), [w.sym("K")])),
           ("a conditional", lambda: w.cond(w.sym("T"), w.sym("P1"), w.sym("P2"))),
           ("a lambda expression with fixed parameters", lambda: w.lam(w.scheme_procedure(w.formals(["x"]), [], [w.sym("LB")]))),
           ("a lambda expression with a rest parameter", lambda: w.lam(w.scheme_procedure(w.formals([], "args"), [], [w.sym("LB")]))),
           ("a lambda expression with fixed and rest parameters", lambda: w.lam(w.scheme_procedure(w.formals(["x"], "more"), [], [w.sym("LB")])))]
    for label, mk in ops:
        env = Frame(None, "env")
        expr = w.call(mk(), [w.sym("A1")])
        r = Run(w, stub_eval_all=True, truths={"T": True})
        key = "eval_tail_expression/ProcedureCall/operator-is-%s" % label.replace(" ", "-")
        try:
            res = r.run(w.ete, [expr, env])
        except (absint.Stuck, absint.Loop) as ex:
            v.row(key, {"stuck": str(ex)}, [])
            continue
        me = r.describe(expr)
        on_stack = [x for x in r.events if x[0] == "apply" or (x[0] == "eval" and x[1] == me)]
        pending = bool(find_enum(res, "TailCall")) or contains(res, lambda x: x is expr[0].fields[0])
        if not on_stack and not pending:
            ctx.undecided(rule, key, "a tail call whose operator is %s is neither handed back as a pending call nor evaluated on the Rust stack "
                                     "(%r): applied in place?" % (label, res), mir_where(w.ete))
            continue
        v.row(key, {}, [(not on_stack, "a call in tail position whose operator is %s is evaluated by %s inside the tail evaluator: every "
                         "iteration of a loop written that way costs Rust stack" % (label, "apply_procedure" if any(x[0] == "apply" for x in on_stack)
                                                                                     else "eval_expression (a non-tail evaluation of the whole call)"))])
    return v.decided


def tail_nesting_table(w, depth):
    """every nesting of tail `if`s to `depth` with calls / plain forms at the leaves, every outcome of the tests"""
    def call(tag):
        return w.call(w.sym("op-" + tag), [w.sym("arg-" + tag)])

    def call2(tag):
        # the operator is itself an application / a conditional: ((f x) y), ((if t f g) y) are calls in tail position all the same
        return w.call(w.call(w.sym("f-" + tag), [w.sym("x-" + tag)]), [w.sym("arg-" + tag)])

    def call3(tag):
        return w.call(w.cond(w.sym("c-" + tag), w.sym("f-" + tag), w.sym("g-" + tag)), [w.call(w.sym("h-" + tag), [w.sym("arg-" + tag)])])

    def shapes(d, pfx):
        out = [(call(pfx), [({}, pfx, "call")]), (w.sym(pfx), [({}, pfx, "plain")])]
        if d <= 1:
            out += [(call2(pfx), [({}, pfx, "call")]), (call3(pfx), [({}, pfx, "call")])]
        if d > 0:
            subs_c, subs_a = shapes(d - 1, pfx + "c"), shapes(d - 1, pfx + "a")
            t = "t" + pfx
            for ce, cl in subs_c:
                for ae, al in (subs_a[:2] if d > 1 else subs_a):
                    out.append((w.cond(w.sym(t), ce, ae), [(dict(tr, **{t: True}), tg, k) for tr, tg, k in cl] +
                                [(dict(tr, **{t: False}), tg, k) for tr, tg, k in al]))
                out.append((w.cond(w.sym(t), ce, None), [(dict(tr, **{t: True}), tg, k) for tr, tg, k in cl] + [({t: False}, None, "void")]))
        return out
    rows = []
    for expr, leaves in shapes(depth, ""):
        for truths, leaf, kind in leaves:
            env = Frame(None, "env")
            r = Run(w, truths=truths, stub_eval_all=True)
            try:
                res = r.run(w.ete, [expr, env])
            except (absint.Stuck, absint.Loop) as e:
                rows.append({"stuck": str(e), "truths": truths, "leaf": leaf, "kind": kind,
                             "events": [(x[0], x[1]) for x in r.events if x[0] in ("eval", "tail", "apply")]})
                continue
            evs = [(e[0], e[1]) for e in r.events if e[0] in ("eval", "tail", "apply")]
            rows.append({"truths": truths, "leaf": leaf, "kind": kind, "events": evs, "result": res, "env": env})
    return rows


def rule_tail_nesting(ctx, rule, depth):
    w = tables(ctx.fb())["w"]
    rows = tail_nesting_table(w, depth)
    stuck = [r for r in rows if "stuck" in r]
    bad = []
    n = 0
    for r in rows:
        if "stuck" in r and r["kind"] == "call":
            # the evaluation could not be followed to the end, but what it did before is known: evaluating anything but the tests
            # on the way to a call in tail position is already the violation
            tests = {("eval", t) for t in r["truths"]}
            extra = [x for x in r["events"] if x not in tests]
            if extra:
                bad.append("the call `%s` reached under %s: part of it is evaluated by the tail evaluator itself, on the Rust stack (%s)" % (
                    r["leaf"], r["truths"], extra))
                stuck.remove(r)
            continue
        if "stuck" in r or r["kind"] != "call":
            continue
        n += 1
        leaf, res = r["leaf"], r["result"]
        tests = {("eval", t) for t in r["truths"]}
        extra = [x for x in r["events"] if x not in tests]
        is_tc = bool(find_enum(res, "TailCall"))
        has = lambda nm: contains(res, lambda x: isinstance(x, Enum) and x.variant == w.ev["Symbol"] and x.fields == [nm])
        carries = (has("op-" + leaf) or has("f-" + leaf)) and has("arg-" + leaf) and contains(res, lambda x: x is r["env"])
        if extra or not is_tc or not carries:
            why = ("it is evaluated on the Rust stack (%s)" % extra) if extra else (
                "no pending TailCall is returned" if not is_tc else "the pending call does not carry its own operator, operands and the current environment")
            bad.append("the call `%s` reached under %s: %s" % (leaf, r["truths"], why))
    name = "eval_tail_expression"
    ctx.inst(rule, name + "/if-nesting-table", {"depth": depth, "paths": len(rows), "call_leaves": n, "undecided": len(stuck)})
    if stuck:
        ctx.undecided(rule, name + "/if-nesting", "%d of %d paths through nested tail `if`s could not be followed (%s)" % (
            len(stuck), len(rows), stuck[0]["stuck"]), mir_where(w.ete))
    ctx.oblige(not bad)
    if bad:
        ctx.report(rule, name + "/call-leaf", "%d path(s) through nested tail `if`s lose the tail call: e.g. %s" % (len(bad), bad[0]), mir_where(w.ete))
    return n
