"""Engine A front end: obtain (and cache) the fact files for the current /repo tree.

The facts are produced by the rustc_private driver in engine/factsdrv, injected through
RUSTC_WORKSPACE_WRAPPER under `cargo +nightly check --offline --lib --bins` on a scratch
copy of /repo's *working tree* (outside /repo and /verif; removed afterwards).
"""
import fcntl
import hashlib
import json
import os
import shutil
import subprocess
import sys
import tempfile
import time

VERIF = os.path.dirname(os.path.dirname(os.path.dirname(os.path.abspath(__file__))))
REPO = os.environ.get("VERIF_REPO", "/repo")
CACHE = os.path.join(VERIF, ".cache")
DRV_DIR = os.path.join(VERIF, "engine", "factsdrv")
DRV_BIN = os.path.join(DRV_DIR, "target", "release", "factsdrv")

PROFILES = {
    # dev: overflow checks and debug assertions on (cargo check default)
    "dev": "-Zmir-opt-level=0 -Awarnings",
    # release-like: unchecked arithmetic wraps instead of panicking
    "rel": "-Zmir-opt-level=0 -Awarnings -C overflow-checks=off -C debug-assertions=off",
}


def _tree_files(repo):
    out = []
    for base in ("src",):
        for root, dirs, files in os.walk(os.path.join(repo, base)):
            dirs.sort()
            for f in sorted(files):
                out.append(os.path.join(root, f))
    for f in ("Cargo.toml", "Cargo.lock"):
        p = os.path.join(repo, f)
        if os.path.exists(p):
            out.append(p)
    return out


def tree_hash(repo=REPO):
    h = hashlib.sha256()
    for p in _tree_files(repo):
        h.update(os.path.relpath(p, repo).encode())
        h.update(b"\0")
        with open(p, "rb") as fh:
            h.update(fh.read())
        h.update(b"\0")
    with open(os.path.join(DRV_DIR, "src", "main.rs"), "rb") as fh:
        h.update(fh.read())
    return h.hexdigest()[:24]


def nightly_sysroot():
    return subprocess.check_output(["rustc", "+nightly", "--print", "sysroot"], text=True).strip()


def ensure_driver():
    src = os.path.join(DRV_DIR, "src", "main.rs")
    if os.path.exists(DRV_BIN) and os.path.getmtime(DRV_BIN) >= os.path.getmtime(src):
        return
    env = dict(os.environ, CARGO_NET_OFFLINE="true")
    r = subprocess.run(["cargo", "build", "--release", "--offline"], cwd=DRV_DIR, env=env,
                       stdout=subprocess.PIPE, stderr=subprocess.STDOUT, text=True)
    if r.returncode != 0 or not os.path.exists(DRV_BIN):
        sys.stderr.write(r.stdout)
        raise RuntimeError("facts driver failed to build")


def extract(repo=REPO, profile="dev"):
    """Return the directory holding ruschm-lib.json / ruschm-bin.json for the current tree."""
    os.makedirs(CACHE, exist_ok=True)
    key = tree_hash(repo) + "-" + profile
    out = os.path.join(CACHE, "facts-" + key)
    lock = open(os.path.join(CACHE, "lock"), "w")
    fcntl.flock(lock, fcntl.LOCK_EX)
    try:
        if os.path.exists(os.path.join(out, "ok")):
            return out
        ensure_driver()
        # prune older fact dirs (keep the cache small)
        olds = sorted((d for d in os.listdir(CACHE) if d.startswith("facts-")),
                      key=lambda d: os.path.getmtime(os.path.join(CACHE, d)))
        for d in olds[:-80]:      # ~12 MB each; the thorough tier replays every seeded / benign variant
            # (never one a concurrent replay may still be about to read)
            if time.time() - os.path.getmtime(os.path.join(CACHE, d)) > 1800:
                shutil.rmtree(os.path.join(CACHE, d), ignore_errors=True)
        work = tempfile.mkdtemp(prefix="ruschm-facts-")
        try:
            src = os.path.join(work, "src")
            os.makedirs(src)
            subprocess.check_call(["rsync", "-a", "--exclude", "target", "--exclude", ".git",
                                   repo.rstrip("/") + "/", src + "/"])
            tmp_out = os.path.join(work, "out")
            os.makedirs(tmp_out)
            # Dependencies are built by plain rustc and may be reused; the workspace member
            # is always rebuilt because the scratch path (hence its package id) is new and
            # we drop its fingerprints, so the wrapper cannot be skipped.
            target = os.path.join(CACHE, "target-" + profile)
            fp = os.path.join(target, "debug", ".fingerprint")
            if os.path.isdir(fp):
                for d in os.listdir(fp):
                    if d.startswith("ruschm-"):
                        shutil.rmtree(os.path.join(fp, d), ignore_errors=True)
            env = dict(os.environ)
            env.update({
                "LD_LIBRARY_PATH": nightly_sysroot() + "/lib:" + env.get("LD_LIBRARY_PATH", ""),
                "RUSTFLAGS": PROFILES[profile],
                "RUSTC_WORKSPACE_WRAPPER": DRV_BIN,
                "FACTS_OUT": tmp_out,
                "CARGO_TARGET_DIR": target,
                "CARGO_NET_OFFLINE": "true",
            })
            env.pop("RUSTC_WRAPPER", None)
            t0 = time.time()
            r = subprocess.run(["cargo", "+nightly", "check", "--offline", "--lib", "--bins"],
                               cwd=src, env=env, stdout=subprocess.PIPE, stderr=subprocess.STDOUT,
                               text=True)
            if r.returncode != 0:
                sys.stderr.write(r.stdout[-6000:])
                raise RuntimeError("cargo check with the facts driver failed (does /repo build?)")
            for f in ("ruschm-lib.json", "ruschm-bin.json"):
                if not os.path.exists(os.path.join(tmp_out, f)):
                    raise RuntimeError("facts driver did not run for %s (stale cargo cache?)" % f)
            shutil.rmtree(out, ignore_errors=True)
            os.makedirs(out)
            for f in os.listdir(tmp_out):
                shutil.move(os.path.join(tmp_out, f), os.path.join(out, f))
            # drop the member's own artefacts from the shared target dir
            with open(os.path.join(out, "ok"), "w") as fh:
                json.dump({"tree": key, "extract_s": round(time.time() - t0, 2)}, fh)
        finally:
            shutil.rmtree(work, ignore_errors=True)
        return out
    finally:
        fcntl.flock(lock, fcntl.LOCK_UN)
        lock.close()


def load(repo=REPO, profile="dev"):
    d = extract(repo, profile)
    with open(os.path.join(d, "ruschm-lib.json")) as fh:
        lib = json.load(fh)
    with open(os.path.join(d, "ruschm-bin.json")) as fh:
        binf = json.load(fh)
    return lib, binf


if __name__ == "__main__":
    t = time.time()
    d = extract(profile=sys.argv[1] if len(sys.argv) > 1 else "dev")
    print(d, round(time.time() - t, 2), "s")
