"""Interval abstract interpretation of loop-free MIR (forking on undetermined branches).

Used for C09/C10: overflow-freedom of the exact arithmetic for bounded operands, the sign of
constructed denominators, result-kind tables.  Values:
    IV(lo, hi)            integer interval (mathematical integers, not wrapped)
    True / False / B      booleans (B = unknown bool, possibly carrying a comparison for refinement)
    En(variant, fields)   enum value with known variant (name kept for ADT aggregates)
    list                  tuple
    TOP                   anything
Every arithmetic operation on i32 records an *obligation* (does the mathematical result fit the
type?).  Calls to local loop-free functions are inlined (bounded depth); other calls are answered by
`extern` (default: TOP).
"""
from . import mir
from .mir import callee

I32 = (-2 ** 31, 2 ** 31 - 1)
RANGES = {"i32": I32, "u32": (0, 2 ** 32 - 1), "usize": (0, 2 ** 64 - 1), "isize": (-2 ** 63, 2 ** 63 - 1),
          "i64": (-2 ** 63, 2 ** 63 - 1), "u64": (0, 2 ** 64 - 1), "u8": (0, 255)}


class Top:
    def __repr__(self):
        return "T"


TOP = Top()


class IV:
    __slots__ = ("lo", "hi")

    def __init__(self, lo, hi=None):
        self.lo = lo
        self.hi = lo if hi is None else hi

    def __repr__(self):
        return "[%d,%d]" % (self.lo, self.hi)

    def fits(self, ty):
        r = RANGES.get(ty, I32)
        return r[0] <= self.lo and self.hi <= r[1]

    def contains(self, v):
        return self.lo <= v <= self.hi


class B:
    """unknown boolean, optionally `local OP const` for refinement"""

    def __init__(self, cmp=None):
        self.cmp = cmp

    def __repr__(self):
        return "B%s" % (self.cmp,)


class En:
    def __init__(self, variant, fields=(), name=None, adt=None):
        self.variant = variant
        self.fields = list(fields)
        self.name = name
        self.adt = adt

    def __repr__(self):
        return "%s%s" % (self.name or self.variant, self.fields)


class Clo:
    """a closure value: the definition it runs and what it captured"""
    def __init__(self, name, captured):
        self.name, self.captured = name, list(captured)

    def __repr__(self):
        return "Clo(%s)" % self.name.rsplit("::", 2)[-2:]


class FnItem:
    def __init__(self, name):
        self.name = name

    def __repr__(self):
        return "FnItem(%s)" % self.name


class State:
    def __init__(self, env=None, alias=None, quot=None, prod=None):
        self.env = dict(env or {})
        self.alias = dict(alias or {})
        # tiny relational part: quot[q] = (a, b) when q = a / b (truncating); prod[p] = q when p = q * b
        self.quot = dict(quot or {})
        self.prod = dict(prod or {})

    def fork(self):
        import copy
        return State(copy.deepcopy(self.env), dict(self.alias), dict(self.quot), dict(self.prod))

    def root(self, l):
        return self.alias.get(l, l)


class Interp:
    def __init__(self, fb, extern=None, max_depth=3, max_states=4000):
        self.fb = fb
        self.extern = extern
        self.max_depth = max_depth
        self.max_states = max_states
        self.obligations = []     # (func name, block, kind, op, ok, detail)
        self.definite = set()     # (func name, block) of obligations that fail on exact operand values (not for lack of knowledge)
        self.nforks = 0           # branches taken both ways for lack of knowledge (none when the operands are single values and every
                                  # construct on the way has an exact model)
        self.aggregates = []      # (func name, block, En) every ADT aggregate built
        self.agg_stacks = []      # for each aggregate: the functions on the (inlined) call stack when it was built
        self.call_stack = []
        self.nstates = 0

    # ---- places
    def read(self, st, p):
        v = st.env.get(p["local"], TOP)
        for e in p["proj"]:
            k = e["k"]
            if v is TOP:
                return TOP
            if k == "deref":
                continue
            if k == "downcast":
                if isinstance(v, En) and v.variant != e["i"]:
                    return TOP
                continue
            if k == "field":
                cont = v.fields if isinstance(v, En) else (v.captured if isinstance(v, Clo) else v)
                if isinstance(cont, list) and e["i"] < len(cont):
                    v = cont[e["i"]]
                else:
                    return TOP
            else:
                return TOP
        return v

    def write(self, st, p, val):
        steps = [e["i"] for e in p["proj"] if e["k"] == "field"]
        if any(e["k"] not in ("field", "deref", "downcast") for e in p["proj"]):
            st.env[p["local"]] = TOP
            return
        if not steps:
            st.env[p["local"]] = val
            st.alias.pop(p["local"], None)
            return
        base = st.env.get(p["local"], TOP)
        if base is TOP:
            base = []
            st.env[p["local"]] = base
        cur = base
        for n, i in enumerate(steps):
            cont = cur.fields if isinstance(cur, En) else cur
            if not isinstance(cont, list):
                st.env[p["local"]] = TOP
                return
            while len(cont) <= i:
                cont.append(TOP)
            if n == len(steps) - 1:
                cont[i] = val
            else:
                if cont[i] is TOP:
                    cont[i] = []
                cur = cont[i]

    def operand(self, st, o):
        if o["k"] in ("copy", "move"):
            return self.read(st, o["place"])
        if o["k"] == "const":
            v = o["c"].get("val")
            if isinstance(v, bool):
                return v
            if isinstance(v, int):
                return IV(v)
            if v is None and "fn" in o["c"]:
                fnc = o["c"]["fn"]
                name = (fnc.get("resolved") or fnc.get("def")) if isinstance(fnc, dict) else None
                if name:
                    return FnItem(mir.norm(name))       # a function item used as a value: `.map(Number::floor)`
            return TOP
        return TOP

    def _definite(self, f, b):
        if self.nforks == 0:
            self.definite.add((f.name, b))

    # ---- arithmetic
    def arith(self, op, a, b, ty, f, blk):
        base = op.replace("WithOverflow", "").replace("Unchecked", "")
        if base in ("Lt", "Le", "Gt", "Ge", "Eq", "Ne"):
            if isinstance(a, IV) and isinstance(b, IV):
                if base == "Lt":
                    return True if a.hi < b.lo else (False if a.lo >= b.hi else B())
                if base == "Le":
                    return True if a.hi <= b.lo else (False if a.lo > b.hi else B())
                if base == "Gt":
                    return True if a.lo > b.hi else (False if a.hi <= b.lo else B())
                if base == "Ge":
                    return True if a.lo >= b.hi else (False if a.hi < b.lo else B())
                if base == "Eq":
                    if a.lo == a.hi == b.lo == b.hi:
                        return True
                    return False if (a.hi < b.lo or b.hi < a.lo) else B()
                if base == "Ne":
                    if a.lo == a.hi == b.lo == b.hi:
                        return False
                    return True if (a.hi < b.lo or b.hi < a.lo) else B()
            if isinstance(a, bool) and isinstance(b, bool):
                return (a == b) if base == "Eq" else ((a != b) if base == "Ne" else B())
            return B()
        isb = lambda x: isinstance(x, (bool, B))
        if base == "BitAnd" and isb(a) and isb(b):
            if a is False or b is False:
                return False
            return True if (a is True and b is True) else B()
        if base == "BitOr" and isb(a) and isb(b):
            if a is True or b is True:
                return True
            return False if (a is False and b is False) else B()
        if not (isinstance(a, IV) and isinstance(b, IV)):
            r = TOP
        elif base == "Add":
            r = IV(a.lo + b.lo, a.hi + b.hi)
        elif base == "Sub":
            r = IV(a.lo - b.hi, a.hi - b.lo)
        elif base == "Mul":
            c = [a.lo * b.lo, a.lo * b.hi, a.hi * b.lo, a.hi * b.hi]
            r = IV(min(c), max(c))
        elif base in ("Div", "Rem"):
            if b.contains(0):
                r = TOP
            else:
                def tdiv(x, y):
                    q = abs(x) // abs(y)
                    return q if (x >= 0) == (y >= 0) else -q
                c = [tdiv(x, y) for x in (a.lo, a.hi) for y in (b.lo, b.hi)]
                if a.contains(0):
                    c.append(0)
                # divisor candidates closest to zero
                for y in ([1] if b.contains(1) else []) + ([-1] if b.contains(-1) else []):
                    c += [tdiv(a.lo, y), tdiv(a.hi, y)]
                if base == "Div":
                    r = IV(min(c), max(c))
                elif a.lo == a.hi and b.lo == b.hi:
                    r = IV(a.lo - tdiv(a.lo, b.lo) * b.lo)             # single values: the remainder itself (sign of the dividend)
                else:
                    m = max(abs(b.lo), abs(b.hi)) - 1
                    r = IV(-m if a.lo < 0 else 0, m if a.hi > 0 else 0)
        elif base in ("BitAnd", "BitOr", "BitXor", "Shl", "Shr"):
            r = TOP
        else:
            r = TOP
        if op.endswith("WithOverflow"):
            if isinstance(r, IV):
                fits = r.fits(ty)
                return [r, False if fits else (True if r.lo == r.hi else B())]
            return [TOP, B()]
        return r

    # ---- driver
    def run(self, f, args, depth=0):
        """Evaluate f with positional abstract args; returns list of (result value, State)."""
        st = State({i + 1: a for i, a in enumerate(args)})
        return self._run_from(f, 0, st, depth, {})

    def _run_from(self, f, b, st, depth, visited):
        results = []
        work = [(b, st, dict(visited))]
        while work:
            b, st, vis = work.pop()
            self.nstates += 1
            if self.nstates > self.max_states:
                raise RuntimeError("state explosion in %s" % f.name)
            while True:
                if vis.get(b, 0) >= 1:
                    results.append(("loop", st))
                    break
                vis[b] = 1
                blk = f.blocks[b]
                for s in blk["stmts"]:
                    if s["k"] == "assign":
                        self._assign(f, b, st, s)
                t = blk["term"]
                k = t["k"]
                if k == "goto":
                    b = t["target"]
                    continue
                if k == "return":
                    results.append((st.env.get(0, TOP), st))
                    break
                if k in ("unreachable",):
                    break
                if k == "drop":
                    b = t["target"]
                    continue
                if k == "assert":
                    cond = self.operand(st, t["cond"])
                    kind = t["kind"]
                    if kind in ("Overflow", "OverflowNeg", "DivisionByZero", "RemainderByZero"):
                        # cond must equal expected for the assert to pass
                        passes = (cond is t["expected"]) if isinstance(cond, bool) else None
                        if kind in ("Overflow", "OverflowNeg"):
                            self.obligations.append((f.name, b, kind, t.get("op"), passes is True, t["span"]))
                        else:
                            self.obligations.append((f.name, b, kind, None, passes is True, t["span"]))
                        if passes is False:
                            self._definite(f, b)
                    b = t["target"]
                    continue
                if k == "switch":
                    v = self.operand(st, t["discr"])
                    if isinstance(v, bool):
                        v = IV(int(v))
                    if isinstance(v, IV) and v.lo == v.hi:
                        nxt = t["otherwise"]
                        for val, bb in t["targets"]:
                            if val == v.lo:
                                nxt = bb
                                break
                        b = nxt
                        continue
                    # fork
                    outs = [(val, bb) for val, bb in t["targets"]] + [(None, t["otherwise"])]
                    if f.blocks[t["otherwise"]]["term"]["k"] == "unreachable" and not f.blocks[t["otherwise"]]["stmts"]:
                        outs = outs[:-1]
                    nfeasible = 0
                    for val, bb in outs:
                        s2 = st.fork()
                        if self._refine(f, s2, t["discr"], v, val, [x for x, _ in t["targets"]]) is False:
                            continue  # infeasible branch
                        nfeasible += 1
                        work.append((bb, s2, dict(vis)))
                    if nfeasible > 1:
                        self.nforks += 1
                    break
                if k == "call":
                    r = self._call(f, b, st, t, depth)
                    if r == "diverge":
                        break
                    if isinstance(r, tuple) and r and r[0] == "__fork__":
                        self.nforks += 1
                        for val in r[1]:
                            s2 = st.fork()
                            self.write(s2, t["dest"], val)
                            if t.get("target") is not None:
                                work.append((t["target"], s2, dict(vis)))
                        break
                    self.write(st, t["dest"], r)
                    if t.get("target") is None:
                        break
                    b = t["target"]
                    continue
                break
        return results

    def _refine(self, f, st, discr_op, v, val, listed):
        """Refine the environment for the branch where the switch value == val (None = otherwise)."""
        l = mir.op_local(discr_op)
        if l is None:
            return
        if isinstance(v, B) and v.cmp and v.cmp[0] in ("exact", "inexact"):
            kind, q, bl = v.cmp
            truth = None
            if val is None:
                truth = True if listed == [0] else None
            elif val == 0:
                truth = False
            elif val == 1:
                truth = True
            if truth is None:
                return
            inexact = (kind == "inexact") == truth
            bv = st.env.get(bl)
            if inexact and isinstance(bv, IV) and not bv.contains(0):
                # a = q*b + r with 0 < |r| < |b|, hence |q*b| < |a| <= 2^31 and q is not an extreme value
                targets = {q, st.root(q)}
                for x in list(st.alias):
                    if st.alias[x] == st.root(q):
                        targets.add(x)
                for x in targets:
                    cur = st.env.get(x)
                    if isinstance(cur, IV):
                        lo, hi = max(cur.lo, I32[0] + 1), min(cur.hi, I32[1] - 1)
                        if lo <= hi:
                            st.env[x] = IV(lo, hi)
            return
        if isinstance(v, B) and v.cmp:
            op, loc, c = v.cmp
            truth = None
            if val is None:
                truth = True if listed == [0] else None
            elif val == 0:
                truth = False
            elif val == 1:
                truth = True
            if truth is None:
                return
            if not truth:
                op = {"Lt": "Ge", "Le": "Gt", "Gt": "Le", "Ge": "Lt", "Eq": "Ne", "Ne": "Eq"}[op]
            targets = {loc}
            a = st.alias.get(loc)
            if a is not None:
                targets.add(a)
            for x in targets:
                cur = st.env.get(x)
                if isinstance(cur, IV):
                    lo, hi = cur.lo, cur.hi
                    if op == "Lt":
                        hi = min(hi, c - 1)
                    elif op == "Le":
                        hi = min(hi, c)
                    elif op == "Gt":
                        lo = max(lo, c + 1)
                    elif op == "Ge":
                        lo = max(lo, c)
                    elif op == "Eq":
                        lo, hi = max(lo, c), min(hi, c)
                    elif op == "Ne":
                        if lo == c:
                            lo += 1
                        if hi == c:
                            hi -= 1
                    if lo <= hi:
                        st.env[x] = IV(lo, hi)
        elif isinstance(v, IV):
            # switch directly on an integer local (e.g. `match a % b { 0 => .. }`)
            if val is not None and not v.contains(val):
                return False
            if val is None:
                rest = [x for x in range(v.lo, min(v.hi, v.lo + 64) + 1) if x not in listed] if v.hi - v.lo < 64 else [1]
                if not rest:
                    return False
            targets = {l}
            if st.alias.get(l) is not None:
                targets.add(st.alias[l])
            for x in targets:
                cur = st.env.get(x)
                if isinstance(cur, IV):
                    if val is not None:
                        st.env[x] = IV(val)
                    else:
                        lo, hi = cur.lo, cur.hi
                        for c in sorted(listed):
                            if lo == c:
                                lo += 1
                        for c in sorted(listed, reverse=True):
                            if hi == c:
                                hi -= 1
                        if lo <= hi:
                            st.env[x] = IV(lo, hi)

    def _assign(self, f, b, st, s):
        rv = s["rv"]
        k = rv["k"]
        dst = s["place"]
        if k == "use":
            v = self.operand(st, rv["op"])
            self.write(st, dst, v)
            pl = mir.op_place(rv["op"])
            if pl is not None and not pl["proj"] and not dst["proj"]:
                st.alias[dst["local"]] = st.alias.get(pl["local"], pl["local"])
                for tab in (st.quot, st.prod):
                    if pl["local"] in tab:
                        tab[dst["local"]] = tab[pl["local"]]
            elif pl is not None and not dst["proj"] and [e["k"] for e in pl["proj"]] == ["field"] and pl["proj"][0]["i"] == 0:
                # `.0` of a checked-arithmetic tuple
                for tab in (st.quot, st.prod):
                    if pl["local"] in tab:
                        tab[dst["local"]] = tab[pl["local"]]
            return
        if k in ("ref", "rawptr"):
            self.write(st, dst, self.read(st, rv["place"]))
            pl = rv["place"]
            if all(e["k"] == "deref" for e in pl["proj"]) and not dst["proj"]:
                st.alias[dst["local"]] = st.alias.get(pl["local"], pl["local"])
            return
        if k == "cast":
            v = self.operand(st, rv["op"])
            ty = rv["ty"]
            if isinstance(v, IV) and ty in RANGES:
                r = RANGES[ty]
                fits = r[0] <= v.lo and v.hi <= r[1]
                self.obligations.append((f.name, b, "Cast", "%s->%s" % (rv.get("from_ty"), ty), fits, s["span"]))
                if not fits and v.lo == v.hi:
                    self._definite(f, b)
                if not fits:
                    v = TOP
            self.write(st, dst, v)
            return
        if k == "binop":
            a, c = self.operand(st, rv["l"]), self.operand(st, rv["r"])
            ll0, rl0 = mir.op_local(rv["l"]), mir.op_local(rv["r"])
            base_op = rv["op"].replace("WithOverflow", "").replace("Unchecked", "")
            r = None
            single = isinstance(a, IV) and isinstance(c, IV) and a.lo == a.hi and c.lo == c.hi     # single values: plain arithmetic is exact
            if single:
                pass
            elif base_op == "Mul" and ll0 is not None and rl0 is not None and not dst["proj"]:
                # (a / b) * b lies between 0 and a
                for q, other in ((ll0, rl0), (rl0, ll0)):
                    if q in st.quot and st.root(other) == st.quot[q][1]:
                        av = st.env.get(st.quot[q][0])
                        if isinstance(av, IV):
                            r = IV(min(av.lo, 0), max(av.hi, 0))
                            if rv["op"].endswith("WithOverflow"):
                                r = [r, False]
                            st.prod[dst["local"]] = (q, st.quot[q][0], st.quot[q][1])
            if not single and base_op in ("Eq", "Ne") and ll0 is not None and rl0 is not None:
                for pr, other in ((ll0, rl0), (rl0, ll0)):
                    if pr in st.prod and st.root(other) == st.prod[pr][1]:
                        r = B(("exact" if base_op == "Eq" else "inexact", st.prod[pr][0], st.prod[pr][2]))
            if r is None:
                r = self.arith(rv["op"], a, c, rv.get("lty", "i32"), f, b)
            if base_op == "Div" and ll0 is not None and rl0 is not None and not dst["proj"]:
                st.quot[dst["local"]] = (st.root(ll0), st.root(rl0))
            if isinstance(r, B):
                # remember `local OP const` for refinement
                ll = mir.op_local(rv["l"])
                if ll is not None and isinstance(c, IV) and c.lo == c.hi and rv["op"] in ("Lt", "Le", "Gt", "Ge", "Eq", "Ne"):
                    r = B((rv["op"], ll, c.lo))
                else:
                    rl = mir.op_local(rv["r"])
                    if rl is not None and isinstance(a, IV) and a.lo == a.hi and rv["op"] in ("Lt", "Le", "Gt", "Ge", "Eq", "Ne"):
                        flip = {"Lt": "Gt", "Le": "Ge", "Gt": "Lt", "Ge": "Le", "Eq": "Eq", "Ne": "Ne"}[rv["op"]]
                        r = B((flip, rl, a.lo))
            if rv["op"] in ("Add", "Sub", "Mul", "Div", "Rem") and rv.get("lty") in RANGES:
                # bare (unchecked) operator: in a release-like build it wraps
                fits = isinstance(r, IV) and r.fits(rv["lty"])
                self.obligations.append((f.name, b, "Bare", rv["op"], fits, s["span"]))
                if isinstance(r, IV) and r.lo == r.hi and not fits:
                    self._definite(f, b)
            self.write(st, dst, r)
            return
        if k == "unop":
            v = self.operand(st, rv["operand"])
            if rv["op"] == "Not":
                self.write(st, dst, (not v) if isinstance(v, bool) else B())
            elif rv["op"] == "Neg" and isinstance(v, IV):
                r = IV(-v.hi, -v.lo)
                self.obligations.append((f.name, b, "Bare", "Neg", r.fits(rv.get("oty", "i32")), s["span"]))
                if r.lo == r.hi and not r.fits(rv.get("oty", "i32")):
                    self._definite(f, b)
                self.write(st, dst, r)
            else:
                self.write(st, dst, TOP)
            return
        if k == "discriminant":
            v = self.read(st, rv["place"])
            if isinstance(v, En):
                self.write(st, dst, IV(v.variant))
            elif isinstance(v, bool):
                self.write(st, dst, IV(int(v)))
            else:
                self.write(st, dst, TOP)
            return
        if k == "aggregate":
            vals = [self.operand(st, o) for o in rv["ops"]]
            kd = rv["kind"]
            if kd["k"] == "adt":
                e = En(kd["i"], vals, kd["variant"], mir.norm(kd["adt"]))
                self.aggregates.append((f.name, b, e))
                self.agg_stacks.append(tuple(self.call_stack) + (f.name,))
                self.write(st, dst, e)
            elif kd["k"] == "closure":
                self.write(st, dst, Clo(mir.norm(kd["def"]), vals))
            else:
                self.write(st, dst, vals)
            return
        self.write(st, dst, TOP)

    def _invoke(self, f, b, fnv, args, depth):
        """call a closure / function item of the crate on abstract arguments"""
        if isinstance(fnv, Clo):
            g, cargs = self.fb.by_path(fnv.name), [list(fnv.captured)] + list(args)
        else:
            g, cargs = self.fb.by_path(fnv.name), list(args)
        if g is None or depth >= self.max_depth + 1 or g.loop_blocks() or len(g.blocks) >= 200:
            return TOP
        self.call_stack.append(f.name)
        try:
            res = self._run_from(g, 0, State({i + 1: a for i, a in enumerate(cargs)}), depth + 1, {})
        finally:
            self.call_stack.pop()
        vals = [r for r, s2 in res if not isinstance(r, str)]
        if not vals:
            return "diverge"
        return vals[0] if len(vals) == 1 else ("__fork__", vals[:16])

    def _call(self, f, b, st, t, depth):
        c = callee(t) or ""
        args = [self.operand(st, a) for a in t["args"]]
        if self.extern:
            r = self.extern(self, f, b, t, args, st)
            if r is not None:
                return r
        # std integer helpers
        if c.endswith("core::num::<impl i32>::abs"):
            a = args[0]
            if isinstance(a, IV):
                ok = a.lo > I32[0]
                self.obligations.append((f.name, b, "Overflow", "abs", ok, t["span"]))
                if not ok and a.lo == a.hi:
                    self._definite(f, b)
                lo = 0 if a.contains(0) else min(abs(a.lo), abs(a.hi))
                return IV(lo, max(abs(a.lo), abs(a.hi)))
            return TOP
        for opn in ("Mul", "Add", "Sub"):
            if c in ("<&i32 as std::ops::%s>::%s" % (opn, opn.lower()), "<i32 as std::ops::%s>::%s" % (opn, opn.lower())):
                r = self.arith(opn, args[0], args[1], "i32", f, b)
                ok = isinstance(r, IV) and r.fits("i32")
                self.obligations.append((f.name, b, "Overflow", opn, ok, t["span"]))
                if isinstance(r, IV) and r.lo == r.hi and not ok:
                    self._definite(f, b)
                return r
        if c.endswith("mem::discriminant") and len(args) == 1 and isinstance(args[0], En):
            return IV(args[0].variant)
        if (c.endswith("::eq") or c.endswith("::ne")) and "Discriminant" in c and len(args) == 2 and all(isinstance(x, IV) and x.lo == x.hi for x in args):
            same = args[0].lo == args[1].lo
            return same if c.endswith("::eq") else (not same)
        # lossless integer widening / value-preserving conversions: i64::from(i32), x.into(), i64::from(&x) ...
        end = c.rsplit("::", 1)[-1]
        if end in ("from", "into") and ("convert::From" in c or "convert::Into" in c) and len(args) == 1 and isinstance(args[0], IV):
            gens = [str(x) for x in ((t.get("fn") or {}).get("generics") or [])]
            ints = [x for x in gens if x in RANGES]
            if len(ints) >= 2 and args[0].fits(ints[0]) and args[0].fits(ints[1]):
                return args[0]
        for opn in ("Mul", "Add", "Sub"):
            for ity in ("i64", "&i64"):
                if c == "<%s as std::ops::%s>::%s" % (ity, opn, opn.lower()):
                    r = self.arith(opn, args[0], args[1], "i64", f, b)
                    self.obligations.append((f.name, b, "Overflow", opn, isinstance(r, IV) and r.fits("i64"), t["span"]))
                    if isinstance(r, IV) and r.lo == r.hi and not r.fits("i64"):
                        self._definite(f, b)
                    return r
        if c.endswith("::branch"):
            v = args[0]
            if isinstance(v, En):   # Result: Ok=0 -> Continue(0), Err=1 -> Break(1)
                return En(0 if v.variant == 0 else 1, v.fields if v.variant == 0 else [v], "Continue" if v.variant == 0 else "Break")
            return ("__fork__", [En(0, [TOP], "Continue"), En(1, [TOP], "Break")])
        if c.endswith("from_residual"):
            return En(1, [TOP], "Err")
        end_ = c.rsplit("::", 1)[-1]
        # the larger / smaller of two values of a field-less enum of the crate with a derived order (the order of its variants)
        if end_ in ("max", "min") and ("cmp::max" in c or "cmp::min" in c or "cmp::Ord" in c) and len(args) == 2 and \
                all(isinstance(x, En) and not x.fields and x.adt for x in args) and args[0].adt == args[1].adt:
            ords_ = [g_ for g_ in self.fb.all("lib") if g_.trait and "cmp::Ord" in g_.trait and g_.self_ty and mir.norm(g_.self_ty).split("<")[0] == args[0].adt]
            if ords_ and all(g_.derived for g_ in ords_):
                if end_ == "max":
                    return args[1] if args[1].variant >= args[0].variant else args[0]
                return args[0] if args[0].variant <= args[1].variant else args[1]
        # NonZero::new(n): Some(n) unless n is zero; the wrapper is the value it wraps
        if "num::NonZero" in c and end_ == "new" and len(args) == 1 and isinstance(args[0], IV):
            v = args[0]
            if not v.contains(0):
                return En(1, [v], "Some")
            if v.lo == v.hi:
                return En(0, [], "None")
            nz = IV(1, v.hi) if v.lo == 0 else (IV(v.lo, -1) if v.hi == 0 else v)
            return ("__fork__", [En(0, [], "None"), En(1, [nz], "Some")])
        if "num::NonZero" in c and end_ == "get" and len(args) == 1 and isinstance(args[0], IV):
            return args[0]
        # bool::then_some / then, Option::unwrap_or_else / unwrap_or / map_or_else / map_or / ok_or_else / ok_or
        if "<impl bool>" in c and end_ in ("then_some", "then") and len(args) == 2 and (end_ == "then_some" or isinstance(args[1], (Clo, FnItem))):
            cond = args[0]

            def taken():
                if end_ == "then_some":
                    return [En(1, [args[1]], "Some")]
                r_ = self._invoke(f, b, args[1], [], depth)
                outs_ = r_[1] if isinstance(r_, tuple) and r_ and r_[0] == "__fork__" else [r_]
                return [En(1, [o_], "Some") for o_ in outs_ if not isinstance(o_, str)]
            if cond is True or cond is False:
                outs = taken() if cond else [En(0, [], "None")]
            else:
                outs = taken() + [En(0, [], "None")]
            return outs[0] if len(outs) == 1 else (("__fork__", outs[:16]) if outs else "diverge")
        if ("option::Option" in c or "result::Result" in c) and end_ in ("unwrap_or_else", "unwrap_or", "map_or_else", "map_or", "ok_or_else", "ok_or") \
                and isinstance(args[0], En) and args[0].name in ("Some", "None", "Ok", "Err"):
            v = args[0]
            good = v.name in ("Some", "Ok")
            payload = v.fields[0] if v.fields else TOP

            def call_(fnv, xs):
                if not isinstance(fnv, (Clo, FnItem)):
                    return None
                r_ = self._invoke(f, b, fnv, xs, depth)
                return r_
            r = None
            if end_ == "unwrap_or" and len(args) == 2:
                r = payload if good else args[1]
            elif end_ == "unwrap_or_else" and len(args) == 2:
                r = payload if good else call_(args[1], [] if v.name == "None" else [payload])
            elif end_ == "map_or" and len(args) == 3:
                r = call_(args[2], [payload]) if good else args[1]
            elif end_ == "map_or_else" and len(args) == 3:
                r = call_(args[2], [payload]) if good else call_(args[1], [] if v.name == "None" else [payload])
            elif end_ == "ok_or" and len(args) == 2 and v.name in ("Some", "None"):
                r = En(0, [payload], "Ok") if good else En(1, [args[1]], "Err")
            elif end_ == "ok_or_else" and len(args) == 2 and v.name in ("Some", "None"):
                r = En(0, [payload], "Ok") if good else En(1, [TOP], "Err")
            if r is not None:
                return r
        # Result / Option combinators handed a closure or a function of the crate
        if end_ in ("map", "and_then") and ("result::Result" in c or "option::Option" in c) and len(args) == 2 \
                and isinstance(args[1], (Clo, FnItem)):
            is_res = "result::Result" in c
            v = args[0]

            def apply_(payload):
                r_ = self._invoke(f, b, args[1], [payload], depth)
                outs = r_[1] if isinstance(r_, tuple) and r_ and r_[0] == "__fork__" else [r_]
                res_ = []
                for o_ in outs:
                    if o_ == "diverge":
                        continue
                    res_.append(o_ if end_ == "and_then" else En(0 if is_res else 1, [o_], "Ok" if is_res else "Some"))
                return res_
            good_variant = 0 if is_res else 1
            if isinstance(v, En):
                if v.variant == good_variant:
                    outs = apply_(v.fields[0] if v.fields else TOP)
                    return outs[0] if len(outs) == 1 else (("__fork__", outs[:16]) if outs else "diverge")
                return v
            outs = apply_(TOP) + [En(1, [TOP], "Err") if is_res else En(0, [], "None")]
            return ("__fork__", outs[:16])
        # a closure of the crate called through Fn / FnMut / FnOnce: its body, with the captured values as its first argument
        if c.rsplit("::", 1)[-1] in ("call", "call_mut", "call_once") and "ops::Fn" in c and args and isinstance(args[0], Clo):
            gc = self.fb.by_path(args[0].name)
            if gc is not None and depth < self.max_depth + 1 and not gc.loop_blocks() and len(gc.blocks) < 200:
                packed = args[1] if len(args) > 1 and isinstance(args[1], list) else []
                cargs = [list(args[0].captured)] + list(packed)
                self.call_stack.append(f.name)
                try:
                    res = self._run_from(gc, 0, State({i + 1: a for i, a in enumerate(cargs)}), depth + 1, {})
                finally:
                    self.call_stack.pop()
                vals = [r for r, s2 in res if not isinstance(r, str)]
                if not vals:
                    return "diverge"
                if len(vals) == 1:
                    return vals[0]
                return ("__fork__", vals[:16])
            return TOP
        # inline local loop-free functions
        g = self.fb.by_path(c)
        if g is not None and depth < self.max_depth and not g.loop_blocks() and len(g.blocks) < 200:
            sub = Interp.__new__(Interp)
            sub.__dict__ = self.__dict__
            self.call_stack.append(f.name)
            try:
                res = self._run_from(g, 0, State({i + 1: a for i, a in enumerate(args)}), depth + 1, {})
            finally:
                self.call_stack.pop()
            vals = [r for r, s2 in res if not isinstance(r, str)]
            if not vals:
                return "diverge"
            if len(vals) == 1:
                return vals[0]
            return ("__fork__", vals[:16])
        if t.get("target") is None:
            return "diverge"
        return TOP


def join_iv(vals):
    ivs = [v for v in vals if isinstance(v, IV)]
    if len(ivs) != len(vals) or not ivs:
        return TOP
    return IV(min(v.lo for v in ivs), max(v.hi for v in ivs))
