"""Check context: collects rule instances and reports, subtracts known findings, writes
evidence and replay files, produces the exit status required by the harness."""
import json
import os
import sys
import time
import traceback

from . import facts as factsmod
from . import mir

VERIF = factsmod.VERIF
KNOWN = os.path.join(VERIF, "known_findings.json")
# (developer runs against scratch copies redirect the evidence so that the committed files describe /repo only)
EVID = os.environ.get("VERIF_EVIDENCE_DIR") or os.path.join(VERIF, "evidence")


class Ctx:
    def __init__(self, prop, tier, seed):
        self.prop = prop
        self.tier = tier
        self.seed = seed
        self.t0 = time.time()
        self.instances = []      # (rule, key, detail)
        self.reports = []        # dict(rule,key,msg,where,extra)
        self.undecideds = []
        self._fallback = False
        self.notes = []
        self.rules = {}          # rule -> one-line description (what it decides)
        self.obligations = 0
        self.discharged = 0
        self.assumptions = []
        self.trusted = []
        self._fb = {}
        self.extra_cov = {}

    # ---- facts
    def fb(self, profile="dev"):
        if profile not in self._fb:
            lib, binf = factsmod.load(profile=profile)
            self._fb[profile] = mir.FactBase(lib, binf)
        return self._fb[profile]

    # ---- bookkeeping
    def rule(self, rule, decides):
        self.rules[rule] = decides

    def inst(self, rule, key, detail=None, nontrivial=True):
        self.instances.append((rule, key, detail, nontrivial))

    def oblige(self, discharged):
        self.obligations += 1
        if discharged:
            self.discharged += 1

    def fallback(self, active=True):
        """`with ctx.fallback():` — run an older, shape-bound formulation of a rule whose robust formulation could not decide:
        whatever it complains about is recorded as UNDECIDED (its complaints may just mean the code was restructured)."""
        ctx = self

        class _F:
            def __enter__(self_inner):
                self_inner.prev = ctx._fallback
                ctx._fallback = ctx._fallback or active

            def __exit__(self_inner, *a):
                ctx._fallback = self_inner.prev
                return False
        return _F()

    def guarded(self, rule, decided, fn):
        """run the shape-bound formulation `fn` of `rule` only when its robust formulation decided nothing; then every
        complaint (and any failure to find its anchors) is UNDECIDED, not a violation"""
        if decided:
            return
        with self.fallback():
            try:
                fn()
            except Exception as e:
                self.undecided(rule, "fallback", "the shape-bound fallback formulation does not apply to this code (%s: %s)" % (
                    type(e).__name__, str(e)[:120]))

    def report(self, rule, key, msg, where=None, **extra):
        """A violation of `rule` at instance `key` (key carries no line numbers)."""
        if self._fallback:
            return self.undecided(rule, key, "(shape-bound fallback rule) " + msg, where)
        self.reports.append({"rule": rule, "key": "%s/%s" % (rule, key), "msg": msg,
                             "where": where, **extra})

    def undecided(self, rule, key, msg, where=None, **extra):
        """The rule could not be applied to this instance: the code no longer has a shape the rule understands (or the abstract
        evaluation got stuck).  That is a limit of the analyser, not evidence against the property: no verdict, printed as an
        UNDECIDED line and recorded in the evidence.  (A violation is reported only on positive evidence: a specific construct
        that breaks the rule.)"""
        self.undecideds.append({"rule": rule, "key": "%s/%s" % (rule, key), "msg": msg, "where": where})

    def count(self, rule):
        return sum(1 for r, _, _, _ in self.instances if r == rule)

    def floor(self, rule, n):
        """Fail closed when a rule matched fewer instances than counted by hand."""
        c = self.count(rule)
        if c < n:
            self.undecided(rule, "floor", "rule matched %d instance(s), the pinned tree has at least %d "
                           "(the code it anchors in was restructured, or the rule matches vacuously)" % (c, n))

    def note(self, s):
        self.notes.append(s)

    def assume(self, s):
        if s not in self.assumptions:
            self.assumptions.append(s)

    def trust(self, s):
        if s not in self.trusted:
            self.trusted.append(s)


def load_known(prop):
    if not os.path.exists(KNOWN):
        return {}
    with open(KNOWN) as fh:
        doc = json.load(fh)
    return {e["key"]: e for e in doc.get("known", []) if e.get("property") == prop}


def where_of(f=None, term=None, span=None):
    if span is None and term is not None:
        span = term.get("span")
    if span is None and f is not None:
        span = f.span
    return mir.span_loc(span) if span else None


def finish(ctx, explanation, not_decided):
    known = load_known(ctx.prop)
    unlisted = []
    matched = []
    seen = set()
    for r in ctx.reports:
        if r["key"] in seen:
            continue
        seen.add(r["key"])
        if r["key"] in known:
            matched.append(r)
        else:
            unlisted.append(r)
    for r in matched:
        print("KNOWN-FINDING: property=%s %s — %s" % (ctx.prop, r["key"], known[r["key"]].get("what", r["msg"])))
    stale = [k for k in known if k not in seen]
    for k in stale:
        ctx.note("known finding no longer reported (repaired or moved): " + k)

    distinct = len({(r, k) for r, k, _, nt in ctx.instances if nt})
    samples = []
    per_rule = {}
    for r, k, d, nt in ctx.instances:
        per_rule[r] = per_rule.get(r, 0) + 1
    shown = {}
    for r, k, d, nt in ctx.instances:
        if shown.get(r, 0) < 3:
            shown[r] = shown.get(r, 0) + 1
            samples.append({"rule": r, "instance": k, "detail": d})
    cov = {
        "explanation": explanation + "  NOT DECIDED by this check: " + not_decided,
        "evaluations": len(ctx.instances),
        "distinct_nontrivial": distinct,
        "rule": "one case = one rule instance (a call site, match arm, table row, path obligation or "
                "template occurrence) enumerated from the compiler's MIR / the bundled Scheme sources of "
                "/repo's current tree; distinct = distinct (rule, instance-key) pairs; non-trivial = the "
                "instance required an analysis step (not a mere anchor lookup)",
        "samples": samples[:40],
        "rules": [{"rule": r, "decides": d, "instances": per_rule.get(r, 0)} for r, d in ctx.rules.items()],
        "obligations": ctx.obligations,
        "discharged": ctx.discharged,
        "reports_total": len(seen),
        "known_findings_matched": len(matched),
        "unlisted_violations": [{"key": r["key"], "msg": r["msg"], "where": r["where"]} for r in unlisted],
        "undecided": [{"key": r["key"], "msg": r["msg"], "where": r["where"]} for r in ctx.undecideds],
        "notes": ctx.notes,
        "trusted_base": ctx.trusted,
        "checker_cmd": "./check %s --tier %s" % (ctx.prop, ctx.tier),
        "exhaustive": False,
    }
    cov.update(ctx.extra_cov)
    ev = {
        "property_id": ctx.prop,
        "tier": ctx.tier,
        "seed": ctx.seed,
        "level": "other",
        "coverage": cov,
        "assumptions": ctx.assumptions,
        "wall_s": round(time.time() - ctx.t0, 3),
        "violations": len(unlisted),
    }
    useen = set()
    for r in ctx.undecideds:
        if r["key"] not in useen:
            useen.add(r["key"])
            print("UNDECIDED property=%s %s — %s%s" % (ctx.prop, r["key"], r["msg"], (" @ " + r["where"]) if r["where"] else ""))
    os.makedirs(EVID, exist_ok=True)
    with open(os.path.join(EVID, ctx.prop + ".json"), "w") as fh:
        json.dump(ev, fh, indent=1)
    rp = os.path.join(EVID, ctx.prop + ".replay.json")
    if unlisted:
        with open(rp, "w") as fh:
            json.dump({"property": ctx.prop, "tier": ctx.tier, "violations": unlisted}, fh, indent=1)
        for r in unlisted:
            sys.stdout.write("  %s: %s%s\n" % (r["key"], r["msg"], (" @ " + r["where"]) if r["where"] else ""))
        print("VIOLATION property=%s replay=%s" % (ctx.prop, rp))
        return 1
    if os.path.exists(rp):
        os.remove(rp)
    print("OK property=%s tier=%s instances=%d distinct=%d known=%d undecided=%d wall=%.1fs" % (
        ctx.prop, ctx.tier, len(ctx.instances), distinct, len(matched), len(useen), time.time() - ctx.t0))
    return 0


def run_property(prop, tier, seed, module):
    ctx = Ctx(prop, tier, seed)
    try:
        explanation, not_decided = module.run(ctx)
        if tier == "thorough":
            from . import selftest
            selftest.run(ctx)
    except mir.AnchorMissing as e:
        # a function / type / variant the rules are anchored in no longer exists under its pinned name: the code was restructured.
        # That is not evidence against the property; the rules that ran up to this point stand, the rest is undecided.
        ctx.undecided("anchor", str(e).replace(" ", "_")[:120], "%s: the rules of this check that are anchored there were not applied" % e)
        explanation, not_decided = getattr(module, "EXPLANATION", "anchor missing"), getattr(module, "NOT_DECIDED", "")
    except Exception as e:
        # a crash of the analyser is not a verdict about the code: whatever the rules reported before it stands, the rest is
        # UNDECIDED — loudly (traceback on stderr, an UNDECIDED line, `analyser_error` in the evidence).  It is never turned into a
        # VIOLATION: that would be an alarm without a construct to point at.
        traceback.print_exc()
        ctx.undecided("analyser-error", type(e).__name__, "the analyser crashed (%r): the rules after this point were not applied" % (e,))
        ctx.extra_cov["analyser_error"] = "%s: %s" % (type(e).__name__, e)
        explanation, not_decided = getattr(module, "EXPLANATION", "analyser error"), getattr(module, "NOT_DECIDED", "")
    return finish(ctx, explanation, not_decided)
