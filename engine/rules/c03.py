"""C03 — Mutable state: bindings and vectors are shared by reference (structural part)."""
from . import mir, absint
from .mir import callee, callee_matches, Prov
from .ctx import where_of

EXPLANATION = (
    'Each way the code could copy what must be shared or share what must be fresh: (set-in-place) assignment '
    'table of set! and the scope-chain table of LexicalScope::set on a three-frame chain (all subsets of binding '
    'frames): exactly one store, into the innermost binding, never an insert, unbound => Err; (fresh-frame) '
    'application and self-tail-call tables: one new frame per application, also when a procedure tail-calls '
    'itself; (vector tables) vector-ref / vector-set! on mutable and literal vectors with index -1, 0, 1, 2: the '
    'element returned is the stored one, only the addressed slot is replaced, errors leave the storage untouched, '
    'literal vectors are immutable; (no-frame-copy, vector-type) no deep copy of frames or of vector storage on '
    'evaluator paths: Value::Vector holds an Rc-shared ValueReference, the derived LexicalScope::clone has no '
    'caller. vector-set! of a value equal to, but not the same object as, the current element still stores it '
    '(mutable) and is still refused (literal).')
NOT_DECIDED = "the alias relation over arbitrary operation histories."

INTERP = "interpreter::interpreter::Interpreter::"


def run(ctx):
    fb = ctx.fb()
    ctx.trust("rustc nightly MIR, callee resolution (distinguishes Rc::clone from LexicalScope::clone / Vec::clone)")

    # ------------------------------------------------------------------ C03-set-in-place
    ctx.rule("C03-set-in-place", "set! overwrites the designated binding in place")
    # semantics of set on a chain of three frames, for every subset of frames binding the name (scopes.py): exactly one
    # store, of the new value, into the binding of the innermost frame that has the name; never an insert
    from . import scopes
    if scopes.table(ctx, fb, "C03-set-in-place", "set") < 8:
        ctx.undecided("C03-set-in-place", "floor", "the scope-chain table of set was not evaluated")
    scopes.table(ctx, fb, "C03-set-in-place", "set", n=4 if ctx.tier != "thorough" else 5)
    # a definition of a name the frame already binds is an assignment to that binding (R7RS 5.3.1): every closure sharing the
    # variable sees the new value — the scope-chain table of define: the value ends up in the own frame's binding, always
    ctx.rule("C03-redefinition", "defining a name again in the same frame overwrites the binding every closure of that frame shares")
    scopes.table(ctx, fb, "C03-redefinition", "define")

    # bindings can be mutated only through the scope primitives: the frame's table is private to the environment module
    # and the only functions that take it mutably are define / set / get_mut
    from . import privacy
    privacy.require_restricted(ctx, "C03-set-in-place", fb, "environment::LexicalScope", ["definitions", "parent"],
                               "a frame's binding table could be edited without going through define/set")
    muts = sorted({g.name for g in fb.all("lib") for _, t in g.calls() if (callee(t) or "").endswith("RefCell::borrow_mut")
                   and "HashMap<std::string::String" in " ".join(t.get("argtys", []))})
    ctx.inst("C03-set-in-place", "binding-table-mutators", muts)
    PRIMS = ("environment::LexicalScope::define", "environment::LexicalScope::set", "environment::LexicalScope::get_mut")
    callers_of = fb.callers("lib")

    def part_of_primitive(name, depth=3):
        # one of the three primitives, or a private helper all of whose callers are (a function extracted from one of them)
        name = name.split("::{closure")[0]
        if name in PRIMS:
            return True
        g = fb.by_path(name)
        if g is None or g.vis == "Public" or depth <= 0:
            return False
        cs = {c.split("::{closure")[0] for c in callers_of.get(name, ())} - {name}
        return bool(cs) and all(part_of_primitive(c, depth - 1) for c in cs)
    extra = [m for m in muts if not part_of_primitive(m)]
    # (a function that does not exist on the pinned tree is a new way to edit a frame whose effect this rule cannot tell — a table of
    # what it does to a chain of frames would need its arguments; an existing function that starts to edit frames is the violation)
    try:
        import json as _json3, os as _os3
        known_fns3 = set(_json3.load(open(_os3.path.join(_os3.path.dirname(_os3.path.dirname(_os3.path.abspath(__file__))), "c07_baseline.json"))).get("functions", []))
    except Exception:
        known_fns3 = None
    new_fns = [m for m in extra if known_fns3 is not None and m.split("::{closure")[0] not in known_fns3]
    extra = [m for m in extra if m not in new_fns]
    if new_fns:
        ctx.undecided("C03-set-in-place", "mutators", "the binding table is borrowed mutably by the new function(s) %s: what they do to the "
                      "bindings closures share is not decided" % new_fns, None)
    if extra:
        ctx.report("C03-set-in-place", "mutators", "the binding table is borrowed mutably by %s (only define, set and get_mut "
                   "may)" % extra, None)

    # ------------------------------------------------------------------ C03-no-frame-copy
    ctx.rule("C03-no-frame-copy", "frames are never deep-copied")
    target = "<environment::LexicalScope as std::clone::Clone>::clone"
    exists = fb.by_path(target) is not None
    ctx.inst("C03-no-frame-copy", "derived-clone-exists(positive control)", exists)
    n = 0
    for g in fb.all("lib"):
        for b, t in g.calls():
            if callee(t) == target:
                n += 1
                ctx.report("C03-no-frame-copy", g.name, "%s deep-copies a frame (LexicalScope::clone)" % g.name, where_of(g, t))
            c = callee(t) or ""
            if c in ("<cell::RefCell as std::clone::Clone>::clone", "<std::collections::HashMap as std::clone::Clone>::clone") \
                    and not g.derived and "values::Value" in " ".join(t.get("argtys", [])):
                ctx.report("C03-no-frame-copy", g.name + "/map-clone", "%s copies a frame's binding table" % g.name, where_of(g, t))
    ctx.inst("C03-no-frame-copy", "callers", n)
    if not exists:
        ctx.note("LexicalScope no longer derives Clone: rule holds by construction")

    # ------------------------------------------------------------------ C03-fresh-frame
    ctx.rule("C03-fresh-frame", "every application binds in a fresh frame that is not retained elsewhere")
    from . import evaltables
    d_fresh = evaltables.rule_application(ctx, "C03-fresh-frame", {"frame", "bind"})
    evaltables.rule_trampoline(ctx, "C03-fresh-frame", {"frame"})       # self tail calls: each turn has its own frame
    ctx.rule("C03-closure-identity", "closures made by different evaluations of one lambda expression are different procedures: a tail "
                                     "call between them runs the callee under the environment the callee captured")
    evaltables.rule_trampoline(ctx, "C03-closure-identity", {"closure-env"})
    evaltables.rule_assignment(ctx, "C03-set-in-place")
    # closures share a binding only if each captures the very frame it was created in (also a frame that binds nothing yet)
    ctx.rule("C03-closure-frame", "a closure captures the frame it is created in, by reference: a frame without parent, a frame that binds "
                                  "nothing yet under one that does, a frame with bindings (lambda table)")
    evaltables.rule_lambda(ctx, "C03-closure-frame")
    def _old_fresh():
        asp = fb.find(INTERP + "apply_scheme_procedure")
        pa = Prov(asp)
        from . import frames
        fr = frames.analyse(fb)
        ctx.inst("C03-fresh-frame", "frame-provenance", {"case": fr.case, "created_in": sorted(fr.makers),
                                                         "detail": [list(x) for x in fr.instances]})
        ctx.oblige(not fr.problems)
        for key, msg, where in fr.problems:
            ctx.report("C03-fresh-frame", key, msg, where)
        dom = asp.dominators()
        if fr.case == "A" and len(fr.creation) == 1:
            nb = fr.creation[0][1]
            for b, t in asp.calls():
                if callee_matches(t, "LexicalScope::define", "iter_to_last") and nb not in dom[b]:
                    ctx.report("C03-fresh-frame", "order", "a binding is made before the fresh frame exists", where_of(asp, t))
        # the fresh frame is not retained anywhere else: in every function that holds it between creation and the body
        for g, nb, nt in fr.creation:
            pg = Prov(g)
            child_locals = {l for l in range(len(g.locals)) if ("call", nb, callee(nt)) in pg.roots(l)}
            sinks = set()
            for b, t in g.calls():
                for k, a in enumerate(t["args"]):
                    if mir.op_local(a) in child_locals:
                        sinks.add(callee(t))
            allowed = ("std::rc::Rc::new", "<std::rc::Rc as std::ops::Deref>::deref", "environment::LexicalScope::define",
                       INTERP + "eval_expression", INTERP + "eval_tail_expression", "<std::rc::Rc as std::clone::Clone>::clone",
                       INTERP + "apply_scheme_procedure", INTERP + "eval_procedure_call", "std::mem::drop",
                       # the formals visitor (a closure capturing &frame; its body is checked by C01-scope-extend)
                       "parser::parser::<impl error::Located<parser::parser::ParameterFormalsBody>>::iter_to_last")
            extra = sorted(s for s in sinks if s not in allowed)
            ctx.inst("C03-fresh-frame", "%s/child-frame-sinks" % g.name.rsplit("::", 1)[-1], sorted(s.rsplit("::", 1)[-1] for s in sinks if s))
            if extra:
                ctx.report("C03-fresh-frame", "escapes", "the fresh frame is handed to %s" % extra, where_of(g))
            for b, i, s2 in g.stmts():
                if s2["k"] == "assign" and s2["place"]["proj"] and s2["place"]["local"] <= g.arg_count:
                    for pl in mir.rv_places(s2["rv"]):
                        if pl["local"] in child_locals:
                            ctx.report("C03-fresh-frame", "stored", "the fresh frame is stored into a parameter", where_of(g, span=s2["span"]))
    ctx.guarded('C03-fresh-frame', d_fresh >= 8, _old_fresh)

    # frames are created only here and for library/root environments
    # (value environments only: syntax scopes `LexicalScope<Transformer>` are the parser's business)
    makers = sorted({g.name.split("::{closure")[0] for g in fb.all("lib") for b, t in g.calls()
                     if callee_matches(t, "environment::LexicalScope::new_child")
                     and "Transformer" not in " ".join((t.get("fn") or {}).get("generics", []) + t.get("argtys", []))})
    ctx.inst("C03-fresh-frame", "new_child-callers", makers, nontrivial=False)      # informational census

    # ------------------------------------------------------------------ C03-vector-type
    ctx.rule("C03-vector-type", "vectors have identity: storage is Rc-shared and never copied on evaluator paths")
    val = fb.adt("values::Value")
    vec_ty = next((v["fields"][0]["ty"] for v in val["variants"] if v["name"] == "Vector"), None)
    vr = fb.adt("values::ValueReference")
    vfields = {v["name"]: [x["ty"] for x in v["fields"]] for v in vr["variants"]}
    ctx.inst("C03-vector-type", "types", {"Value::Vector": vec_ty, "ValueReference": vfields})
    if vec_ty is None or not vec_ty.startswith("values::ValueReference<std::vec::Vec<values::Value<R>>>"):
        ctx.report("C03-vector-type", "payload", "Value::Vector holds %s, expected a ValueReference<Vec<Value>>" % vec_ty, None)
    if not (vfields.get("Immutable", [""])[0].startswith("std::rc::Rc<") and
            vfields.get("Mutable", [""])[0].startswith("std::rc::Rc<std::cell::RefCell<")):
        ctx.report("C03-vector-type", "storage", "ValueReference no longer wraps Rc / Rc<RefCell>: %s" % vfields, None)
    vclone = fb.by_path("<values::ValueReference as std::clone::Clone>::clone")
    if vclone is None or not vclone.derived:
        ctx.report("C03-vector-type", "clone-impl", "ValueReference::clone is not the derived one (may copy contents)", where_of(vclone) if vclone else None)
    else:
        cs = sorted({callee(t) for _, t in vclone.calls()})
        ctx.inst("C03-vector-type", "ValueReference::clone/calls", cs)
        if any(c != "<std::rc::Rc as std::clone::Clone>::clone" for c in cs):
            ctx.report("C03-vector-type", "clone-body", "ValueReference::clone calls %s" % cs, where_of(vclone))
    for g in fb.all("lib"):
        if g.derived:
            continue
        for b, t in g.calls():
            c = callee(t) or ""
            gens = " ".join((t.get("fn") or {}).get("generics", []))
            if c in ("<std::vec::Vec as std::clone::Clone>::clone", "std::slice::<impl [T]>::to_vec", "core::slice::<impl [T]>::to_vec",
                     "<std::vec::Vec as std::convert::From>::from") and "values::Value<R>" in (gens + " ".join(t.get("argtys", []))):
                ctx.report("C03-vector-type", g.name + "/vec-copy", "%s copies the contents of a Vec<Value> (%s)" % (g.name, c), where_of(g, t))
            if c.endswith("RefCell::new") and "std::vec::Vec<values::Value" in " ".join(t.get("argtys", [])) \
                    and not g.name.endswith("ValueReference::new_mutable"):
                ctx.report("C03-vector-type", g.name + "/recell", "%s re-wraps vector contents in a new cell" % g.name, where_of(g, t))
    # vector-ref returns a clone of the element (Value::clone -> Rc clone for nested vectors), never of the vector
    vref = fb.find("interpreter::library::native::base::vector_ref")
    cl = [callee(t) for _, t in vref.calls() if (callee(t) or "").endswith("::clone")]
    ctx.inst("C03-vector-type", "vector_ref/clones", cl)
    # (positive evidence only: a clone of the vector / its storage; how the element is copied — clone(), cloned() — is free;
    #  the vector table of evaltables.py decides that the element itself is what comes back)
    badcl = [c for c in cl if "Vec" in c or "ValueReference" in c or "RefCell" in c]
    if badcl:
        ctx.report("C03-vector-type", "vector_ref/clone", "vector-ref clones the vector's storage: %s" % badcl, where_of(vref))
    from . import evaltables as _et
    _et.rule_vector(ctx, "C03-vector-type")

    # ------------------------------------------------------------------ C03-literal-immutable
    ctx.rule("C03-literal-immutable", "literal vectors reject mutation; only vector-set! mutates, only through as_mut")
    rl = fb.find(INTERP + "read_literal")
    nm = [callee(t) for _, t in rl.calls() if callee_matches(t, "ValueReference::new_mutable", "ValueReference::new_immutable")]
    ctx.inst("C03-literal-immutable", "read_literal/constructors", nm)
    if nm != ["values::ValueReference::new_immutable"]:
        ctx.report("C03-literal-immutable", "read_literal", "literal vectors are built with %s" % nm, where_of(rl))
    for g in fb.all("lib"):
        for b, t in g.calls():
            if callee_matches(t, "values::ValueReference::new_mutable"):
                owner = g.name.split("::{closure")[0]
                ctx.inst("C03-literal-immutable", "new_mutable<-" + owner)
                if owner not in ("interpreter::library::native::base::vector", "interpreter::library::native::base::make_vector"):
                    ctx.report("C03-literal-immutable", "new_mutable/" + owner, "%s creates mutable vectors" % owner, where_of(g, t))
            if callee_matches(t, "values::ValueReference::as_mut"):
                owner = g.name.split("::{closure")[0]
                ctx.inst("C03-literal-immutable", "as_mut<-" + owner)
                if owner != "interpreter::library::native::base::vector_set":
                    ctx.report("C03-literal-immutable", "as_mut/" + owner, "%s obtains mutable access to vector storage" % owner, where_of(g, t))
            if callee_matches(t, "std::cell::RefCell::borrow_mut", "std::cell::RefCell::get_mut", "std::cell::RefCell::replace",
                              "std::cell::RefCell::swap", "std::rc::Rc::get_mut", "std::rc::Rc::make_mut", "std::cell::RefCell::as_ptr"):
                owner = g.name.split("::{closure")[0]
                # only cells that hold vector storage (a cell around a map, a cache ... is not what this property is about)
                aty = ((t.get("argtys") or [""])[0] or "") + " " + " ".join(str(x) for x in ((t.get("fn") or {}).get("generics") or []))
                if "Vec<" not in aty:
                    continue
                ctx.inst("C03-literal-immutable", "cell-mutation<-" + owner)
                if owner != "values::ValueReference::as_mut":
                    ctx.report("C03-literal-immutable", "cell-mutation/" + owner, "%s mutates shared storage directly (%s)" % (owner, callee(t)), where_of(g, t))
    am = fb.find("values::ValueReference::as_mut")
    from . import machine as _mch
    for i, vn in fb.variants("values::ValueReference"):
        cell = object()
        recv = absint.Enum(i, [cell])
        recv.name, recv.adt = vn, "values::ValueReference"
        try:
            r = _mch.Machine(fb, intercept=lambda mc, c, a, tt, g: ("text" if c.endswith("to_string") else _mch.NOT), max_visits=6, budget=300).run(am, [recv])
            res = getattr(r, "name", "?") if isinstance(r, absint.Enum) else "?"
        except (absint.Stuck, absint.Loop) as e:
            ctx.undecided("C03-literal-immutable", "as_mut/" + vn, "cannot follow ValueReference::as_mut on %s (%s)" % (vn, e), where_of(am))
            continue
        want = "Err" if vn == "Immutable" else "Ok"
        ctx.inst("C03-literal-immutable", "as_mut/" + vn, {"result": res})
        if res not in ("Ok", "Err"):
            ctx.undecided("C03-literal-immutable", "as_mut/" + vn, "as_mut on %s yields %r" % (vn, r), where_of(am))
        elif res != want:
            ctx.report("C03-literal-immutable", "as_mut/" + vn, "as_mut on an %s vector is %s, expected %s" % (vn, res, want), where_of(am))
        elif want == "Err":
            names = set()

            def _k(v, d=0):
                if isinstance(v, absint.Enum) and d < 8:
                    if getattr(v, "name", None):
                        names.add(v.name)
                    for x in v.fields:
                        _k(x, d + 1)
            _k(r)
            if "RequiresMutable" not in names:
                ctx.report("C03-literal-immutable", "as_mut/error-kind", "as_mut on a literal vector fails with %s, expected RequiresMutable" % sorted(
                    names - {"Err", "Located", "None", "Some"}), where_of(am))
    ctx.floor("C03-literal-immutable", 6)

    # ------------------------------------------------------------------ C03-binding-scope
    # "the one binding that lexical scoping designates": let / let* are written in the bundled grammar; which binding a name in an
    # initialiser or in a closure made there designates depends on the scopes their expansions create (the scope analysis of C05,
    # re-run here: an initialiser outside the scope of its own variable, the body inside the scope of all of them, let* left to right)
    ctx.rule("C03-binding-scope", "let / let* create the scopes R7RS gives them: an initialiser (and a closure made in it) is outside the "
                                  "scope of the variable it initialises — and of later ones —, the body inside the scope of all (scope "
                                  "analysis of the expansions in grammar.sld, shared with C05)")
    try:
        from scm import derived as _derived
        from .ctx import Ctx as _Ctx3
        sub3 = _Ctx3("C05", ctx.tier, ctx.seed)
        sub3._fb = ctx._fb
        _derived.c05_rules(sub3)
        lifted = [r for r in sub3.reports if r["rule"] == "C05-scope"]
        n_scope = sub3.count("C05-scope")
        ctx.inst("C03-binding-scope", "let-forms", {"scope_instances": n_scope, "violations": len(lifted)})
        ctx.oblige(not lifted)
        for r in lifted:
            ctx.report("C03-binding-scope", r["key"].split("/", 1)[1], "a binding form does not create the scopes lexical scoping rests on: " + r["msg"]
                       + " — a closure or an assignment written there refers to another binding than the one R7RS designates", r["where"])
    except ImportError:
        ctx.note("Engine C not available: C03-binding-scope not run")
    except Exception as e:
        ctx.undecided("C03-binding-scope", "analysis", "the scope analysis of the bundled grammar could not be run (%s: %s)" % (type(e).__name__, str(e)[:120]))

    return EXPLANATION, NOT_DECIDED
