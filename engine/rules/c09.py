"""C09 — Exact arithmetic is exact, and inexactness is contagious (structural part)."""
from . import mir, interval
from .interval import IV, En, TOP, Interp
from .mir import callee, callee_matches, Prov
from .ctx import where_of

EXPLANATION = (
    'Abstract interpretation of the loop-free numeric code in values.rs: (contagion) the 3x3 promotion table of '
    'upcast_oprands is the lattice join Integer < Rational < Real with every payload in its place, and the '
    'result-kind table of + - * / abs floor ceiling is exact-in => exact-out, Real-in => Real-out; (no-silent- '
    'inexact) exact values are converted to the real type only in the promotion arms that have a Real operand and '
    'in the transcendental functions; (range) interval analysis proves that for numerators and denominators below '
    '2^15 in magnitude no i32 operation of the exact arms can overflow; (never-wrong-exact) census of every i32 '
    'operation on an exact path that is a bare operator (panics in a checked build, wraps in an unchecked one) '
    'instead of an overflow-aware form; (zero) every exact division tests each divisor factor for zero first; '
    '(denominator-sign) sign analysis: given positive operand denominators every ratio built has a positive '
    'denominator, which the sign-naive consumers (comparison, floor, ceiling, printing) rely on; (rounding) '
    "symbolic evaluation of the ratio arm of floor and ceiling: every path's result formula is the greatest "
    'integer not above / least integer not below a/b on all sign and divisibility classes (a in -7..7, b in '
    '1..4); (literal) the u32 denominator of a ratio literal is range-checked before it becomes an i32. (folds) '
    'the n-ary + - * / on 0..4 opaque numbers are left folds of the binary operation in argument order, (- a) = 0 '
    '- a, (/ a) = 1 / a; every function that takes numbers and builds a ratio is an entry of the denominator '
    'analysis.')
NOT_DECIDED = ("numerical correctness of the formulas of + - * / themselves (only their kinds, ranges and zero guards), and the binary32 "
               "result of inexact operations; beyond 2^15 only overflow-safety is judged, not value equality.")

R15 = 2 ** 15 - 1
NUM = "values::Number"
OPS2 = {"add": "<values::Number as std::ops::Add>::add", "sub": "<values::Number as std::ops::Sub>::sub",
        "mul": "<values::Number as std::ops::Mul>::mul", "div": "<values::Number as std::ops::Div>::div"}
OPS1 = {"abs": "values::Number::abs", "floor": "values::Number::floor", "ceiling": "values::Number::ceiling"}
CMPS = {"eq": "<values::Number as std::cmp::PartialEq>::eq", "partial_cmp": "<values::Number as std::cmp::PartialOrd>::partial_cmp",
        "exact_eqv": "values::Number::exact_eqv"}


def variants(fb):
    return {n: i for i, n in fb.variants(NUM)}


def mk(fb, kind, num=None, den=None):
    v = variants(fb)
    if kind == "Integer":
        return En(v["Integer"], [num or IV(-R15, R15)], "Integer")
    if kind == "Real":
        return En(v["Real"], [TOP], "Real")
    return En(v["Rational"], [num or IV(-R15, R15), den or IV(1, R15)], "Rational")


def kind_of(x):
    if isinstance(x, En):
        if x.name in ("Ok", "Err", "Continue", "Break", "Some"):
            if x.name == "Err":
                return "Err"
            return kind_of(x.fields[0]) if x.fields else "?"
        return x.name
    return "?"


def run(ctx):
    fb = ctx.fb()
    ctx.trust("rustc nightly MIR (dev profile: checked arithmetic appears as XWithOverflow + assert); the interval "
              "interpreter in engine/rules/interval.py; num_traits conversions are opaque (TOP)")
    kinds = ["Integer", "Rational", "Real"]
    rank = {"Integer": 0, "Rational": 1, "Real": 2}

    # ------------------------------------------------------------------ C09-contagion
    ctx.rule("C09-contagion", "Integer < Rational < Real promotion table; exact in => exact out, Real in => Real out")
    up = fb.find("values::upcast_oprands")
    vb = {n: i for i, n in fb.variants("values::NumberBinaryOperand")}
    for a in kinds:
        for b in kinds:
            it = Interp(fb)
            A = mk(fb, a, IV(11), IV(13))
            Bv = mk(fb, b, IV(17), IV(19))
            res = it.run(up, [[A, Bv]])
            outs = [r for r, s in res if isinstance(r, En)]
            want = max(a, b, key=lambda k: rank[k])
            got = sorted({o.name for o in outs})
            ctx.inst("C09-contagion", "upcast/%s,%s" % (a, b), {"result": got})
            if got != [want]:
                ctx.report("C09-contagion", "upcast/%s,%s" % (a, b), "upcast_oprands(%s, %s) yields %s, expected %s" % (a, b, got, want), where_of(up))
                continue
            o = outs[0]
            # payload placement for the exact cases
            if want == "Integer":
                exp = [11, 17]
            elif want == "Rational":
                exp = ([11, 13] if a == "Rational" else [11, 1]) + ([17, 19] if b == "Rational" else [17, 1])
            else:
                exp = None
            if exp is not None:
                gotp = [(f.lo if isinstance(f, IV) and f.lo == f.hi else None) for f in o.fields]
                if gotp != exp:
                    ctx.report("C09-contagion", "upcast/%s,%s/payload" % (a, b), "upcast_oprands(%s(11[/13]), %s(17[/19])) = %s%s, "
                               "expected %s" % (a, b, want, gotp, exp), where_of(up))
    for opn, path in OPS2.items():
        f = fb.find(path)
        for a in kinds:
            for b in kinds:
                it = Interp(fb)
                res = it.run(f, [mk(fb, a, None, None), mk(fb, b, IV(1, R15) if opn == "div" and b == "Integer" else None, None)])
                got = sorted({kind_of(r) for r, s in res} - {"Err", "?"})
                exact_in = a != "Real" and b != "Real"
                ok = (all(g in ("Integer", "Rational") for g in got) if exact_in else got == ["Real"]) and bool(got)
                ctx.inst("C09-contagion", "%s/%s,%s" % (opn, a, b), {"result_kinds": got})
                if not ok and not got:
                    # no result whose kind could be read (a result built by a construct the interval interpreter has no model for):
                    # nothing wrong was seen
                    ctx.undecided("C09-contagion", "%s/%s,%s" % (opn, a, b), "the kind of the result of %s(%s, %s) could not be read" % (opn, a, b),
                                  where_of(f))
                elif not ok:
                    ctx.report("C09-contagion", "%s/%s,%s" % (opn, a, b), "%s(%s, %s) yields %s: %s" % (
                        opn, a, b, got, "exact operands must give an exact result" if exact_in else "an inexact operand must give an inexact result"), where_of(f))
    for opn, path in OPS1.items():
        f = fb.find(path)
        for a in kinds:
            it = Interp(fb)
            res = it.run(f, [mk(fb, a)])
            got = sorted({kind_of(r) for r, s in res} - {"?"})
            want_ok = (got == ["Real"]) if a == "Real" else (bool(got) and all(g in ("Integer", "Rational") for g in got))
            if opn in ("floor", "ceiling") and a != "Real":
                want_ok = got == ["Integer"]
            if opn == "abs" and a != "Real":
                want_ok = got == [a]
            ctx.inst("C09-contagion", "%s/%s" % (opn, a), {"result_kinds": got})
            if not want_ok and not got:
                ctx.undecided("C09-contagion", "%s/%s" % (opn, a), "the kind of the result of %s(%s) could not be read" % (opn, a), where_of(f))
            elif not want_ok:
                ctx.report("C09-contagion", "%s/%s" % (opn, a), "%s(%s) yields %s" % (opn, a, got), where_of(f))
    # floor-quotient / floor-remainder are compositions of the above: formula trees on two opaque numbers
    from . import numtables as _nt2
    d_fq = _nt2.rule_floorq(ctx, "C09-contagion")

    def _old_composition():
        # floor-quotient / floor-remainder are compositions of the above
        fq = fb.find("values::Number::floor_quotient")
        fr = fb.find("values::Number::floor_remainder")
        cq = [callee(t) for _, t in fq.calls() if (callee(t) or "").startswith(("values::", "<values::"))]
        cr = [callee(t) for _, t in fr.calls() if (callee(t) or "").startswith(("values::", "<values::"))]
        ctx.inst("C09-contagion", "floor_quotient/composition", cq)
        ctx.inst("C09-contagion", "floor_remainder/composition", cr)
        if cq != [OPS2["div"], OPS1["floor"]]:
            ctx.report("C09-contagion", "floor_quotient/composition", "floor_quotient is %s, expected floor(n / d)" % cq, where_of(fq))
        if sorted(cr) != sorted([fq.name, OPS2["mul"], OPS2["sub"]]):
            ctx.report("C09-contagion", "floor_remainder/composition", "floor_remainder is %s, expected n - floor_quotient(n, d) * d" % cr, where_of(fr))
        else:
            # operand wiring: sub(self, mul(fq(self, rhs), rhs))
            p = Prov(fr)
            sub = next(t for _, t in fr.calls() if callee(t) == OPS2["sub"])
            mul = next(t for _, t in fr.calls() if callee(t) == OPS2["mul"])
            fqc = next(t for _, t in fr.calls() if callee(t) == fq.name)
            ok = p.arg_roots(sub["args"][0]) == {1} and OPS2["mul"] in {c for _, c in p.call_roots(sub["args"][1])} \
                and fq.name in p.taint_calls(mir.op_local(mul["args"][0])) and p.arg_roots(mul["args"][1]) == {2} \
                and p.arg_roots(fqc["args"][0]) == {1} and p.arg_roots(fqc["args"][1]) == {2}
            if not ok:
                ctx.report("C09-contagion", "floor_remainder/wiring", "floor_remainder does not compute n - floor_quotient(n, d) * d", where_of(fr))

    ctx.guarded("C09-contagion", d_fq >= 2, _old_composition)
    ctx.floor("C09-contagion", 9 + 36 + 9)

    # ------------------------------------------------------------------ C09-no-silent-inexact
    ctx.rule("C09-no-silent-inexact", "exact values become inexact only beside an inexact operand or in a transcendental function")
    TRANS = {"sqrt", "exp", "ln", "log", "sin", "cos", "tan", "asin", "acos", "atan", "atan2"}
    as_real = fb.find("values::Number::as_real")
    callers9 = fb.callers("lib")

    def part_of_conversion(name, depth=3):
        # the promotion function, as_real, or a private helper all of whose callers are (the one place a ratio is divided out,
        # shared by the two): what becomes inexact there is decided where they are decided
        name = name.split("::{closure")[0]
        if name in (up.name, as_real.name):
            return True
        g_ = fb.by_path(name)
        if g_ is None or g_.vis == "Public" or depth <= 0:
            return False
        cs_ = {c_.split("::{closure")[0] for c_ in callers9.get(name, ())} - {name}
        return bool(cs_) and all(part_of_conversion(c_, depth - 1) for c_ in cs_)
    for f in fb.all("lib"):
        if f.derived:
            continue
        for b, t in f.calls():
            c = callee(t) or ""
            if c.endswith("NumCast::from") or c.endswith("ToPrimitive::to_f32") or c.endswith("ToPrimitive::to_f64") or c.endswith("FromPrimitive::from_i32"):
                frm = " ".join(t.get("argtys", []))
                if "i32" not in frm:
                    continue
                if t.get("args") and mir.const_int(t["args"][0]) is not None:
                    continue            # (a constant — a bound to compare a real with — is no value of the program becoming inexact)
                ctx.inst("C09-no-silent-inexact", "cast<-" + f.name)
                if f.name == up.name:
                    # must be in an arm with a Real operand: dominated by a switch target selected by variant Real
                    # (shape-bound; the contagion table is the verdict, so a miss here is only noted)
                    if not _in_real_arm(fb, up, b):
                        ctx.undecided("C09-no-silent-inexact", "upcast/exact-arm", "an exact operand is converted to the real type in "
                                   "a promotion arm without an inexact operand", where_of(f, t))
                elif f.name != as_real.name and not part_of_conversion(f.name):
                    ctx.report("C09-no-silent-inexact", "cast/" + f.name, "%s converts an exact integer to the real type" % f.name, where_of(f, t))
            if c == as_real.name:
                short = f.name.rsplit("::", 1)[-1]
                ctx.inst("C09-no-silent-inexact", "as_real<-" + short)
                # inside the promotion function the decision table above (C09-contagion/upcast/*, all 9 kind pairs, payloads
                # included) is the verdict on which operands become inexact; elsewhere only transcendental functions may
                if f.name == up.name:
                    continue
                if not (f.name.startswith("values::Number::") and short in TRANS):
                    ctx.report("C09-no-silent-inexact", "as_real/" + f.name, "%s makes an exact number inexact (as_real)" % f.name, where_of(f, t))
    ctx.floor("C09-no-silent-inexact", 10)

    # ------------------------------------------------------------------ C09-range + C09-never-wrong-exact + C09-denominator-sign
    ctx.rule("C09-range", "below 2^15 no i32 operation of the exact arithmetic can overflow (interval proof)")
    ctx.rule("C09-never-wrong-exact", "no exact i32 operation may panic or wrap on overflow for *any* operands")
    ctx.rule("C09-denominator-sign", "ratios are built with positive denominators (consumers are sign-naive)")
    range_and_sign(ctx, fb)

    # ------------------------------------------------------------------ C09-exact
    ctx.rule("C09-exact", "+ - * / floor-quotient floor-remainder on exact operands (integer / ratio, every combination) with symbolic components "
                          "(q = the greatest integer not above n/d, r = n - d*q): every path's result, "
                          "checked on the grid numerators -2..2 x denominators 1..3, is the mathematically exact result as an exact number "
                          "with a positive denominator; division by an exact zero — and nothing else — is an error; the compiler's "
                          "divide-by-zero assertions are never reached with a zero divisor")
    from . import numtables as _nt0
    _nt0.rule_exact_arith(ctx, "C09-exact", {"+": OPS2["add"], "-": OPS2["sub"], "*": OPS2["mul"], "/": OPS2["div"],
                                             "floor-quotient": "values::Number::floor_quotient", "floor-remainder": "values::Number::floor_remainder"})
    _nt0.rule_zero_guards(ctx, "C09-exact")

    # ------------------------------------------------------------------ C09-ieee
    ctx.rule("C09-ieee", "abs / floor / ceiling on a real and + - * / on every pair of kinds with a real in it, payloads symbolic, every test "
                         "explored both ways: on ten reals (both zeros, the infinities, NaN) x the exact grid the selected path's result is "
                         "the binary32 IEEE result on the converted operands, sign of zero included")
    from . import numtables as _nt_ie
    _nt_ie.rule_real_arith(ctx, "C09-ieee")

    # ------------------------------------------------------------------ C09-folds
    ctx.rule("C09-folds", "the n-ary + - * / are left folds of the binary operation in argument order ((- a) = 0 - a, (/ a) = 1 / a): "
                          "the tree of binary operations on 0..4 opaque numbers")
    from . import numtables as _nt
    _nt.rule_folds(ctx, "C09-folds")

    # ------------------------------------------------------------------ C09-rounding
    ctx.rule("C09-rounding", "floor / ceiling of an exact ratio a/b (b > 0): symbolic evaluation of the ratio arm, every path's result "
                             "formula checked against the greatest integer not above / least integer not below a/b on all sign and "
                             "divisibility classes (a in -7..7, b in 1..4)")
    from . import numtables
    numtables.rule_rounding(ctx, "C09-rounding")

    # ------------------------------------------------------------------ C09-zero
    ctx.rule("C09-zero", "exact division by zero is an error: every divisor factor is tested before dividing")
    from .c08 import div_zero_rule
    before = len(ctx.reports)
    div_zero_rule(ctx, fb)
    # re-label the C08-vector reports produced by the shared rule
    for r in ctx.reports[before:]:
        r["rule"] = "C09-zero"
        r["key"] = r["key"].replace("C08-vector/", "C09-zero/")
    ctx.instances = [(("C09-zero" if (r == "C08-vector") else r), k, d, nt) for (r, k, d, nt) in ctx.instances]

    # ------------------------------------------------------------------ C09-literal
    ctx.rule("C09-literal", "ratio literals: the u32 denominator is range-checked before it is used as an i32")
    ep = fb.find("interpreter::interpreter::Interpreter::eval_primitive")
    casts = []
    for b, i, s in ep.stmts():
        if s["k"] == "assign" and s["rv"]["k"] == "cast" and s["rv"].get("from_ty") == "u32" and s["rv"]["ty"] == "i32":
            casts.append((b, s))
    lexnum = fb.find("parser::lexer::Lexer::number")
    for b, s in casts:
        # guarded if dominated by a comparison of the same value against i32::MAX (or a try_from)
        dom = ep.dominators()
        guarded = False
        for bb, ii, ss in ep.stmts():
            if ss["k"] == "assign" and ss["rv"]["k"] == "binop" and ss["rv"]["op"] in ("Gt", "Ge", "Lt", "Le") and bb in dom[b]:
                cs = []
                for side in ("l", "r"):
                    c = mir.trace_const(ep, ss["rv"][side])
                    if c is not None and isinstance(c.get("val"), int):
                        cs.append(c["val"])
                if any(c in (2 ** 31 - 1, 2 ** 31) for c in cs):
                    # the cast must sit on the in-range edge: the other edge must not reach it
                    term = ep.blocks[bb]["term"]
                    if term["k"] == "switch":
                        outs = [x[1] for x in term["targets"]] + [term["otherwise"]]
                        reach = [o for o in outs if b in ep.reachable(o)]
                        if len(reach) == 1:
                            guarded = True
        ctx.inst("C09-literal", "eval_primitive/u32-as-i32", {"guarded": guarded})
        ctx.oblige(guarded)
        if not guarded:
            ctx.report("C09-literal", "eval_primitive/denominator-cast", "the u32 denominator of a ratio literal is cast to i32 "
                       "unchecked: 1/4294967295 becomes the ratio 1/-1", where_of(ep, span=s["span"]))
    tf = [t for _, t in ep.calls() if callee_matches(t, "TryFrom>::try_from", "TryInto>::try_into")]
    if not casts and not tf:
        ctx.note("no u32->i32 cast in eval_primitive (denominator type changed?)")
    return EXPLANATION, NOT_DECIDED


def _in_real_arm(fb, up, block):
    """Is `block` only reachable through a discriminant target selected by the Real variant?"""
    ridx = fb.variant_index(NUM, "Real")
    dom = up.dominators()
    for sb, place, adt, targets, other in mir.discriminant_switches(up, "values::Number"):
        t = targets.get(ridx)
        if t is not None and t in dom[block]:
            return True
    return False


def _cases(fb, f, opn, lo, hi):
    """Abstract argument tuples for f: kinds x denominator signs (x divisor sign for div), values in [lo, hi]."""
    kinds = ["Integer", "Rational"]
    signs = {"pos": IV(1, hi), "neg": IV(lo, -1)}
    n_args = 2 if f.arg_count == 2 else 1
    out = []
    for a in kinds:
        for ad, adv in (list(signs.items()) if a == "Rational" else [(None, None)]):
            A = mk(fb, a, IV(lo, hi), adv)
            la = a + ("/" + ad if ad else "")
            if n_args == 1:
                out.append(("%s(%s)" % (opn, la), [A], ad in (None, "pos")))
                continue
            for b in kinds:
                for bd, bdv in (list(signs.items()) if b == "Rational" else [(None, None)]):
                    nums = [("pos", IV(1, hi)), ("neg", IV(lo, -1)), ("zero", IV(0))] if opn == "div" else [(None, IV(lo, hi))]
                    for ns, niv in nums:
                        Bv = mk(fb, b, niv, bdv)
                        lb = b + ("/" + bd if bd else "") + (":" + ns if ns else "")
                        out.append(("%s(%s, %s)" % (opn, la, lb), [A, Bv], ad in (None, "pos") and bd in (None, "pos")))
    return out


def sign_invariant_holds(fb):
    """True when C09-denominator-sign finds no ratio construction with a non-positive denominator."""
    from .ctx import Ctx
    sub = Ctx("C09", "quick", 0)
    sub._fb = {"dev": fb}
    range_and_sign(sub, fb, census=False)
    return not any(r["rule"] == "C09-denominator-sign" for r in sub.reports)


def full_range_failures(fb, paths, pos_den_only=False):
    """(function, op) pairs whose i32/i64 operation can leave its type for *some* i32 operands.
    pos_den_only: restrict ratio operands to positive denominators (when that invariant is established)."""
    failing = {}
    lo, hi = interval.I32
    full_range_failures.visited = set()           # every function an obligation was met in (helpers are inlined by the interpreter)
    full_range_failures.entry_of = {}             # (function, op) -> the operation (entry function) under which it was first met
    for opn, path in sorted(paths.items()):
        f = fb.find(path)
        for label, args, allpos in _cases(fb, f, opn, lo, hi):
            if pos_den_only and not allpos:
                continue
            it = Interp(fb)
            try:
                it.run(f, args)
            except RuntimeError:
                failing.setdefault((f.name, "analysis"), (label, f.span))
                continue
            checked_fns = {o[0] for o in it.obligations if o[2] in ("Overflow", "OverflowNeg")}
            full_range_failures.visited |= {o[0] for o in it.obligations}
            for (fn, blk, kind, op, ok, span) in it.obligations:
                if kind == "Bare" and fn in checked_fns:
                    continue  # checked build: the bare operator sits behind its overflow assert
                if kind in ("Overflow", "OverflowNeg") or (kind == "Bare" and op in ("Add", "Sub", "Mul", "Neg")):
                    if not ok:
                        failing.setdefault((fn, "Neg" if kind == "OverflowNeg" else (op or kind)), (label, span, kind))
                        full_range_failures.entry_of.setdefault((fn, "Neg" if kind == "OverflowNeg" else (op or kind)), f.name)
                if kind == "Cast" and not ok and op and "->" in op:
                    # a narrowing `as` cast of a value that may not fit: no panic, the exact number silently becomes another one
                    failing.setdefault((fn, "Cast:" + op), (label, span, "Cast"))
                    full_range_failures.entry_of.setdefault((fn, "Cast:" + op), f.name)
            # intervals do not relate operands to one another (a quotient to its divisor, a flag to the value it was computed
            # from): what they report as possible is confirmed on boundary operands, where the same interpreter is exact
            for key_ in [k_ for k_, v_ in failing.items() if v_[0] == label and len(v_) == 3 and k_[1] != "analysis"]:
                failing[key_] = failing[key_] + (_witness(fb, f, args, key_, failing[key_][2]),)
    return failing


_WVALS = None


def _den_witness(fb, f, args, cap=1500):
    """operand values (ends of the ranges, small numbers) for which a ratio with a non-positive denominator is built when the interval
    interpreter is run on those single values and takes no branch both ways; None when none of the values tried does"""
    def found(it):
        if it.nforks:
            return False
        for (fn, blk, e) in it.aggregates:
            if e.adt and e.adt.endswith("values::Number") and e.name == "Rational":
                d = e.fields[1]
                if isinstance(d, IV) and d.lo == d.hi and d.lo <= 0:
                    return True
        return False
    return _witness(fb, f, args, None, None, cap=cap, found=found)


def _witness(fb, f, args, key, kind, cap=1500, found=None):
    """operand values (taken from the ends of the ranges and small numbers) for which the operation named by `key` leaves its type
    when the interval interpreter is run on those single values; None when none of the values tried does"""
    import itertools
    lo, hi = interval.I32
    cand = [lo, hi, -1, 1, 2, 0, lo + 1, hi - 1, -2, 3, 46341, -46341, 65536, -65536, 7]
    slots = []

    def collect(v):
        if isinstance(v, En):
            for i, x in enumerate(v.fields):
                if isinstance(x, IV):
                    slots.append((v, i, x))
                else:
                    collect(x)
    for a in args:
        collect(a)
    if not slots or len(slots) > 4:
        return None
    choices = [[c for c in ([iv.lo, iv.hi] + cand) if iv.lo <= c <= iv.hi] or [iv.lo] for (_, _, iv) in slots]
    choices = [list(dict.fromkeys(ch)) for ch in choices]
    fn, op = key if key else (None, None)
    tried = 0
    saved = [(e, i, e.fields[i]) for (e, i, _) in slots]
    try:
        for combo in itertools.product(*choices):
            tried += 1
            if tried > cap:
                return None
            for (e, i, _), val in zip(slots, combo):
                e.fields[i] = IV(val, val)
            it = Interp(fb)
            try:
                it.run(f, args)
            except RuntimeError:
                continue
            if found is not None:
                if found(it):
                    return list(combo)
                continue
            for (fn2, blk, kind2, op2, ok, span) in it.obligations:
                if ok or fn2 != fn or (fn2, blk) not in it.definite:
                    continue
                name2 = "Neg" if kind2 == "OverflowNeg" else (("Cast:" + op2) if kind2 == "Cast" else (op2 or kind2))
                if name2 == op:
                    return list(combo)
        return None
    finally:
        for e, i, old_ in saved:
            e.fields[i] = old_


full_range_failures.visited = set()
full_range_failures.entry_of = {}
_GRID = {}


def division_table_holds(fb):
    """True when the symbolic division table (numtables.rule_exact_arith for `/`, rule_zero_guards) decided every grid point and found
    nothing: division by an exact zero is an error and every quotient is built with a positive denominator.  Ratios built *inside*
    the division are then covered by that table; the interval interpreter (non-relational) cannot see guards such as
    `[b1, a2, b2].iter().try_for_each(check)?` and would only guess."""
    if id(fb) not in _GRID:
        from .ctx import Ctx
        from . import numtables
        sub = Ctx("C09", "quick", 0)
        sub._fb = {"dev": fb}
        try:
            d = numtables.rule_exact_arith(sub, "C09-exact", {"/": OPS2["div"]})
            z = numtables.rule_zero_guards(sub, "C09-exact")
            _GRID[id(fb)] = d == 1 and z is True and not sub.reports and not sub.undecideds
        except Exception:
            _GRID[id(fb)] = False
    return _GRID[id(fb)]


def range_and_sign(ctx, fb, census=True):
    kinds = ["Integer", "Rational"]
    signs = {"pos": IV(1, R15), "neg": IV(-R15, -1)}
    allf = dict(OPS2)
    allf.update(OPS1)
    allf.update(CMPS)
    seen_never = {}
    total = 0
    bad_range = {}
    neg_den = {}
    for opn, path in sorted(allf.items()):
        f = fb.find(path)
        n_args = 2 if f.arg_count == 2 else 1
        combos = []
        for a in kinds:
            a_dens = list(signs.items()) if a == "Rational" else [(None, None)]
            for ad, adv in a_dens:
                if n_args == 1:
                    combos.append(((a, ad, adv), None))
                    continue
                for b in kinds:
                    b_dens = list(signs.items()) if b == "Rational" else [(None, None)]
                    for bd, bdv in b_dens:
                        if opn == "div":
                            # case split on the sign of the divisor's numerator (the zero test cannot be
                            # carried back from the callee by a non-relational domain)
                            for s2, iv in (("pos", IV(1, R15)), ("neg", IV(-R15, -1)), ("zero", IV(0))):
                                combos.append(((a, ad, adv), (b, bd, bdv, s2, iv)))
                        else:
                            combos.append(((a, ad, adv), (b, bd, bdv, None, None)))
        for (A, Bc) in combos:
            it = Interp(fb)
            args = [mk(fb, A[0], None, A[2])]
            if Bc is not None:
                if Bc[0] == "Integer":
                    args.append(mk(fb, "Integer", Bc[4], None))
                else:
                    args.append(mk(fb, "Rational", Bc[4], Bc[2]))
            if f.name.endswith("::eq") or f.name.endswith("partial_cmp") or f.name.endswith("exact_eqv"):
                pass
            try:
                res = it.run(f, args)
            except RuntimeError as e:
                ctx.report("C09-range", opn + "/analysis", "interval analysis did not terminate: %s" % e, where_of(f))
                continue
            label = "%s(%s%s%s)" % (opn, A[0] + ("/" + A[1] if A[1] else ""), ", " if Bc else "",
                                    (Bc[0] + ("/" + Bc[1] if Bc[1] else "") + (":" + Bc[3] if Bc[3] else "")) if Bc else "")
            n_obl = 0
            checked_fns = {o[0] for o in it.obligations if o[2] in ("Overflow", "OverflowNeg")}
            full_range_failures.visited |= {o[0] for o in it.obligations}
            for (fn, blk, kind, op, ok, span) in it.obligations:
                if kind == "Bare" and fn in checked_fns:
                    continue
                if kind == "OverflowNeg":
                    op = "Neg"
                if kind in ("Overflow", "OverflowNeg") or (kind == "Bare" and op in ("Add", "Sub", "Mul", "Neg")):
                    n_obl += 1
                    total += 1
                    ctx.oblige(ok)
                    short = fn.rsplit("::", 1)[-1] if not fn.startswith("<") else fn.split(" as ")[-1].replace(">::", "::").rsplit("::", 2)[-1]
                    seen_never.setdefault((fn, op or kind, kind), span)
                    if not ok:
                        bad_range.setdefault((fn, op or kind), (label, span, f, args))
            ctx.inst("C09-range", label, {"i32_operations": n_obl, "paths": len(res)}, nontrivial=n_obl > 0)
            # denominators of every ratio built, when all operand denominators are positive
            opnd_den_pos = (A[0] != "Rational" or A[1] == "pos") and (Bc is None or Bc[0] != "Rational" or Bc[1] == "pos")
            if opnd_den_pos:
                for (fn, blk, e), stk in zip(it.aggregates, it.agg_stacks):
                    if e.adt and e.adt.endswith("values::Number") and e.name == "Rational":
                        d = e.fields[1]
                        okd = isinstance(d, IV) and d.lo >= 1
                        ctx.inst("C09-denominator-sign", "%s@%s" % (label, fn.rsplit("::", 1)[-1]), {"denominator": repr(d)})
                        if not okd and OPS2["div"] in stk and division_table_holds(fb):
                            continue                 # built inside the division: decided by the symbolic division table
                        if not okd:
                            neg_den.setdefault(fn, (label, repr(d), f, args))
    for (fn, op), (label, span, f_, args_) in sorted(bad_range.items(), key=lambda kv: kv[0]):
        # (intervals lose what relates one operand to another — a value passed through a closure, a flag computed from it: what they
        # report as possible is confirmed on boundary operands)
        wit = _witness(fb, f_, args_, (fn, op), None)
        if wit is None:
            ctx.undecided("C09-range", "%s/%s" % (_short(fn), op), "interval analysis cannot bound the i32 %s in %s for operands below 2^15 (case %s), "
                          "but no boundary operand makes it overflow" % (op, _short(fn), label), mir.span_loc(span))
            continue
        ctx.report("C09-range", "%s/%s" % (_short(fn), op), "with operands below 2^15 the i32 %s in %s can overflow (case %s, e.g. operands %s)" % (
            op, _short(fn), label, wit), mir.span_loc(span))
    if total < 30:
        ctx.undecided("C09-range", "floor", "only %d arithmetic obligations analysed (expected >= 30)" % total)
    # every OTHER function that takes numbers and (through the functions it calls) builds a ratio: the invariant has to hold for
    # whatever entry point constructs ratios, not only for the operators listed above.  Functions that are called from an
    # analysed function are covered by that caller (they may have preconditions their caller establishes).
    table = {fb.find(p_).name for p_ in allf.values()}
    extra = []
    numfns = []
    for g in fb.all("lib"):
        if g.derived or "{closure" in g.name or "::tests::" in g.name:
            continue
        tys = [g.local_ty(i) or "" for i in range(1, g.arg_count + 1)]
        if tys and all(t.replace("&", "").startswith("values::Number<") for t in tys) and g.arg_count <= 2:
            numfns.append(g)
    names = {g.name for g in numfns}

    def builds_ratio(g, depth=4, seen=None):
        seen = seen if seen is not None else set()
        if g.name in seen or depth < 0:
            return False
        seen.add(g.name)
        if any(v == "Rational" for _, _, _, _, v in mir.aggregates(g, None, "values::Number")):
            return True
        for _, t in g.calls():
            h = fb.by_call(t) or fb.by_path(callee(t) or "")
            if h is not None and builds_ratio(h, depth - 1, seen):
                return True
        return False
    for g in numfns:
        if g.name in table:
            continue
        called_by_analysed = any(callee(t) == g.name for h in numfns if h is not g for _, t in h.calls())
        if called_by_analysed or not builds_ratio(g):
            continue
        extra.append(g)
    three = (("pos", IV(1, R15)), ("neg", IV(-R15, -1)), ("zero", IV(0)))
    for g in extra:
        per_arg = []
        for i in range(g.arg_count):
            opts = [("Integer:" + sn, mk(fb, "Integer", siv, None)) for sn, siv in three]
            opts += [("Rational:" + sn + "/pos", mk(fb, "Rational", siv, IV(1, R15))) for sn, siv in three]
            per_arg.append(opts)
        import itertools as _it
        for combo in _it.product(*per_arg):
            it = Interp(fb)
            label = "%s(%s)" % (_short(g.name), ", ".join(c[0] for c in combo))
            try:
                it.run(g, [c[1] for c in combo])
            except RuntimeError as e:
                ctx.undecided("C09-denominator-sign", _short(g.name) + "/analysis", "interval analysis of %s did not terminate: %s" % (g.name, e), where_of(g))
                break
            for (fn, blk, e), stk in zip(it.aggregates, it.agg_stacks):
                if e.adt and e.adt.endswith("values::Number") and e.name == "Rational":
                    d = e.fields[1]
                    okd = isinstance(d, IV) and d.lo >= 1
                    ctx.inst("C09-denominator-sign", "%s@%s" % (label, fn.rsplit("::", 1)[-1]), {"denominator": repr(d)})
                    if not okd and OPS2["div"] in stk and division_table_holds(fb):
                        continue
                    if not okd:
                        neg_den.setdefault(g.name, (label, repr(d), g, [c[1] for c in combo]))
    ctx.inst("C09-denominator-sign", "other-ratio-builders", {"functions": [g.name for g in extra]})
    confirmed = {}
    for fn, (label, d, f_, args_) in sorted(neg_den.items()):
        # (what the intervals allow is confirmed on single operand values, every construct on the way followed exactly: a guard the
        # interpreter cannot read — a zero test behind Option / Result combinators — leaves both branches open and proves nothing)
        wit = _den_witness(fb, f_, args_)
        if wit is None:
            ctx.undecided("C09-denominator-sign", _short(fn), "interval analysis cannot show the denominator built in %s positive (it ranges "
                          "over %s in case %s), but no operand values tried give a non-positive one on a path followed exactly"
                          % (_short(fn), d, label), where_of(fb.by_path(fn)))
            continue
        confirmed[fn] = wit
        ctx.report("C09-denominator-sign", _short(fn), "given positive operand denominators %s builds a ratio whose denominator "
                   "ranges over %s (case %s, e.g. operands %s): a zero denominator is a division by exact zero that went unreported, a negative "
                   "one makes comparison, floor/ceiling and the printed form wrong"
                   % (_short(fn), d, label, wit), where_of(fb.by_path(fn)))
    neg_den = confirmed
    if not census:
        return
    # never-wrong-exact: operations that can leave their type for some i32 operands (full-range interval run);
    # ratio operands have positive denominators when the sign rule above established that invariant
    arith = dict(OPS2)
    arith.update(OPS1)
    fails = full_range_failures(fb, arith, pos_den_only=not neg_den)
    checked = {(fn, op) for (fn, op, kind) in seen_never}
    for (fn, op) in sorted(checked):
        ctx.inst("C09-never-wrong-exact", "%s/%s" % (_short(fn), op), {"overflow_possible_for_some_i32": (fn, op) in fails})
        ctx.oblige((fn, op) not in fails)
    reported_keys = set()
    for (fn, op), info in sorted(fails.items()):
        label, span = info[0], info[1]
        kind = info[2] if len(info) > 2 else "?"
        # a finding is the operation that fails (`+` on operands that overflow its i32 Add), wherever the arithmetic is written:
        # keyed by the number operation under which the overflow is met, not by the helper that happens to hold the operator
        fn_key = full_range_failures.entry_of.get((fn, op), fn)
        if ("%s/%s" % (_short(fn_key), op)) in reported_keys:
            continue
        reported_keys.add("%s/%s" % (_short(fn_key), op))
        if len(info) > 3 and info[3] is None:
            ctx.undecided("C09-never-wrong-exact", "%s/%s" % (_short(fn_key), op), "interval analysis cannot bound the exact i32 %s in %s "
                          "(case %s), but none of the boundary operands tried makes it leave the i32 range: the operands are related "
                          "in a way intervals do not express" % (op, _short(fn), label), mir.span_loc(span))
            continue
        ctx.report("C09-never-wrong-exact", "%s/%s" % (_short(fn_key), op),
                   "exact i32 %s in %s can exceed the i32 range for some operands (case %s) and is a bare operator: it %s instead "
                   "of reporting an error or promoting" % (op, _short(fn), label,
                                                          "wraps to a different exact number" if kind == "Bare" else (
                                                              "is truncated by the `as` cast to a different exact number, silently" if kind == "Cast"
                                                              else "panics (overflow check)")),
                   mir.span_loc(span))


def _short(fn):
    fn = fn.split("::{closure")[0]          # (an operation moved into a closure of the same function is the same site)
    if fn.startswith("<"):
        # <values::Number as std::ops::Add>::add -> Number::add
        return "Number::" + fn.rsplit("::", 1)[-1]
    return "::".join(fn.split("::")[-2:])
