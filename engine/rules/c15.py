"""C15 — Reported error locations point into the form that failed (structural part)."""
from . import mir
from .mir import callee, callee_matches, Prov
from .ctx import where_of

EXPLANATION = (
    "(fallback) table of eval_ast: an error keeps its own location, and gets the failing statement's location "
    'when it has none; who-may-bypass: evaluation is reachable from eval only through it (closed under helper '
    'extraction); (offender) the unbound-variable, non-procedure and tail-call error rows of the evaluator tables '
    'carry a location inside the failing form or none; (single-origin) taint: data built by the macro expander '
    "never take the template's location; census of texts that feed the reader (known finding: library positions); "
    '(position) token-location table from whole-lexer runs and Lexer::advance bookkeeping. The non-procedure '
    "error carries the operator's own location (or none); token locations are also tabulated after strings, "
    '|identifiers| and comments that span lines.')
NOT_DECIDED = "that a reported line/column lies inside the textual extent of the failing form (numbers)."

ITP = "interpreter::interpreter::Interpreter::"


def statement_location_rule(ctx, fb, rule):
    """eval_ast on REAL statements (expression statement, top-level definition, import declaration) whose inner evaluation fails: an
    error without a location of its own is reported at the statement, one with a location there.  -> rows decided"""
    from . import machine, absint
    ea = fb.find(ITP + "eval_ast")
    STMT_LOC, ERR_LOC = machine.some([10, 4]), machine.some([12, 9])
    st_ = dict((n, i) for i, n in fb.variants("parser::parser::Statement"))
    d_st = 0
    for kind in ("Expression", "Definition", "ImportDeclaration"):
        for own in (False, True):
            key = "eval_ast/%s-statement/%s" % (kind.lower(), "located-error" if own else "unlocated-error")
            payload = object()
            eloc = ERR_LOC if own else machine.none()
            E = absint.Enum(0, [payload, eloc])
            E.name, E.adt = "Located", "error::Located"
            inner_x = object()
            if kind == "Expression":
                body = [inner_x, STMT_LOC]                                  # Expression = Located<ExpressionBody>
            elif kind == "Definition":
                body = absint.Enum(0, [["name", [inner_x, machine.some([10, 20])]], STMT_LOC])     # Located<DefinitionBody(name, expr)>
                body.name, body.adt = "Located", "error::Located"
            else:
                body = absint.Enum(0, [inner_x, STMT_LOC])
                body.name, body.adt = "Located", "error::Located"
            stmt = absint.Enum(st_[kind], [body])
            stmt.name, stmt.adt = kind, "parser::parser::Statement"
            fields_ = [x["name"] for x in fb.adt("interpreter::interpreter::Interpreter")["variants"][0]["fields"]]
            selfv = [absint.UNKNOWN for _ in fields_]
            if "import_end" in fields_:
                selfv[fields_.index("import_end")] = False

            def icpt2(mc, c, a, tt, g, E=E):
                if c == ITP + "eval_expression" or c == ITP + "eval_import":
                    return machine.err(E)
                if c.startswith("environment::LexicalScope::"):
                    return []
                return machine.NOT
            try:
                res = machine.Machine(fb, intercept=icpt2, max_visits=6, budget=300).run(ea, [selfv, stmt, absint.UNKNOWN])
            except (absint.Stuck, absint.Loop) as e:
                ctx.undecided(rule, key, "cannot follow eval_ast on a %s statement (%s)" % (kind, e), where_of(ea))
                continue
            loc = None
            keeps = False
            if getattr(res, "name", None) == "Err" and res.fields and isinstance(res.fields[0], absint.Enum) and len(res.fields[0].fields) == 2:
                loc = res.fields[0].fields[1]
                keeps = res.fields[0].fields[0] is payload
            want = ERR_LOC if own else STMT_LOC
            good = keeps and loc is not None and machine.key_of(loc) == machine.key_of(want)
            d_st += 1
            ctx.inst(rule, key, {"ok": bool(good)})
            ctx.oblige(bool(good))
            if not good:
                ctx.report(rule, key, "a run-time error %s raised while evaluating %s comes out of eval_ast with the location %r (same "
                           "error: %s); expected %s" % ("with a location of its own" if own else "WITHOUT a location (a builtin's type / range error)",
                                                        {"Expression": "an expression statement", "Definition": "the expression of a top-level definition",
                                                         "ImportDeclaration": "an import declaration"}[kind], loc, bool(keeps),
                                                        "its own location" if own else "the statement's location: every reported run-time error carries one"), where_of(ea))
    return d_st


def run(ctx):
    fb = ctx.fb()
    ctx.trust("rustc nightly MIR; provenance over locals (flow-insensitive)")

    # ------------------------------------------------------------------ C15-fallback
    ctx.rule("C15-fallback", "every run-time error gets the failing form's location if it has none")
    ea = fb.find(ITP + "eval_ast")
    inner = fb.find(ITP + "eval_ast_error_no_location")
    eed = fb.find(ITP + "eval_expression_or_definition")
    # decision table of eval_ast (machine.py): the inner evaluation is a symbolic event whose outcome is set per row; the
    # location of the error eval_ast returns must be the error's own if it has one, else the statement's
    from . import machine, absint
    d_fb = 0
    STMT_LOC, ERR_LOC = machine.some([10, 4]), machine.some([12, 9])
    # (the statement starts at line 10, column 4; own locations inside it: later line / larger column, later line / SMALLER column
    # than the statement's start, same line / larger column, many lines later in column 1)
    LATER_LEFT, SAME_LINE, FAR = machine.some([12, 2]), machine.some([10, 30]), machine.some([400, 1])
    for row, inner_loc, want in (("error-without-location", machine.none(), STMT_LOC), ("error-with-location", ERR_LOC, ERR_LOC),
                                 ("error-located-on-a-later-line-left-of-the-form-start", LATER_LEFT, LATER_LEFT),
                                 ("error-located-on-the-same-line", SAME_LINE, SAME_LINE), ("error-located-many-lines-later", FAR, FAR),
                                 ("ok", None, None)):
        payload = object()
        okv = object()

        def icpt(mc, c, a, tt, g, inner_loc=inner_loc):
            if c == inner.name:
                if inner_loc is None:
                    return machine.ok(okv)
                e = absint.Enum(0, [payload, inner_loc])
                e.name, e.adt = "Located", "error::Located"
                return machine.err(e)
            if c.endswith("parser::parser::Statement::location"):
                return STMT_LOC
            return machine.NOT
        try:
            res = machine.Machine(fb, intercept=icpt).run(ea, [absint.UNKNOWN, absint.UNKNOWN, absint.UNKNOWN])
        except (absint.Stuck, absint.Loop) as e:
            ctx.undecided("C15-fallback", "eval_ast/" + row, "cannot follow eval_ast (%s)" % e, where_of(ea))
            continue
        d_fb += 1
        if want is None:
            good = getattr(res, "name", None) == "Ok" and res.fields and res.fields[0] is okv
            msg = "a successful evaluation is returned as %r" % (res,)
        else:
            loc = None
            if getattr(res, "name", None) == "Err" and res.fields and isinstance(res.fields[0], absint.Enum) and len(res.fields[0].fields) == 2:
                loc = res.fields[0].fields[1]
            keeps = getattr(res, "name", None) == "Err" and res.fields and isinstance(res.fields[0], absint.Enum) and res.fields[0].fields[0] is payload
            good = keeps and loc is not None and machine.key_of(loc) == machine.key_of(want)
            msg = "an error whose own location is %s comes out of eval_ast with location %r (same error: %s); expected %s" % (
                "absent" if row == "error-without-location" else "%r (the statement starts at %r)" % (inner_loc, STMT_LOC), loc, bool(keeps),
                "the statement's location" if row == "error-without-location" else "its own location")
        ctx.inst("C15-fallback", "eval_ast/" + row, {"ok": bool(good)})
        ctx.oblige(bool(good))
        if not good:
            ctx.report("C15-fallback", "eval_ast/" + row, msg, where_of(ea))
    # the same on REAL statements, with only the evaluation of the expression inside answered: an expression statement, a definition
    # and an import declaration whose evaluation fails with an error that has no location of its own — eval_ast reports it at the
    # statement; with a location of its own, there.  (Independent of how eval_ast is split into helpers.)
    d_st = statement_location_rule(ctx, fb, "C15-fallback")
    p = Prov(ea)
    ors = [(b, t) for b, t in ea.calls() if callee_matches(t, "std::option::Option::or", "std::option::Option::or_else",
                                                           "std::option::Option::xor", "std::option::Option::and")]
    calls_inner = [(b, t) for b, t in ea.calls() if callee(t) == inner.name]
    if d_fb >= 6 or d_st >= 6:
        pass          # decided by the tables above
    elif len(calls_inner) != 1:
        ctx.report("C15-fallback", "eval_ast/shape", "eval_ast does not call eval_ast_error_no_location exactly once", where_of(ea))
    elif len(ors) != 1 or not callee_matches(ors[0][1], "Option::or", "Option::or_else"):
        ctx.report("C15-fallback", "eval_ast/or", "the error location is not combined with the statement location by `or` "
                   "(found %s)" % [callee(t) for _, t in ors], where_of(ea))
    else:
        b, t = ors[0]
        first = {c for _, c in p.call_roots(t["args"][0])}
        second = {c for _, c in p.call_roots(t["args"][1])}
        f_acc = mir.trace_access(ea, t["args"][0])
        ctx.inst("C15-fallback", "eval_ast/or", {"first_from": sorted(first), "first_path": f_acc[1], "second_from": sorted(second)})
        if first != {inner.name} or "Err" not in f_acc[1] or second != {"parser::parser::Statement::location"}:
            ctx.report("C15-fallback", "eval_ast/order", "the location is built as (%s).or(%s); expected the error's own "
                       "location first and the statement's location as fallback" % (sorted(first), sorted(second)), where_of(ea, t))
        # statement location is taken from the evaluated statement (param 2)
        sl = [(bb, tt) for bb, tt in ea.calls() if callee_matches(tt, "parser::parser::Statement::location")]
        if not sl or p.arg_roots(sl[0][1]["args"][0]) != {2}:
            ctx.report("C15-fallback", "eval_ast/statement", "the fallback location is not the evaluated statement's", where_of(ea))
        # the rebuilt error is what is returned on the Err edge
        loc = [(bb, tt) for bb, tt in ea.calls() if callee_matches(tt, "ToLocated::locate")]
        okret = False
        for bb, tt in loc:
            if ("call", b, callee(t)) in p.op_roots(tt["args"][1]):
                for b2, i2, s2, a2, v2 in mir.aggregates(ea):
                    if v2 == "Err" and s2["place"]["local"] == 0 and ("call", bb, callee(tt)) in p.op_roots(s2["rv"]["ops"][0]):
                        okret = True
        if not okret:
            ctx.report("C15-fallback", "eval_ast/return", "the re-located error is not what eval_ast returns", where_of(ea))
    # choke point: callers
    # (eval_ast may also do the work of its helper itself: the statement-level rows above decide whether the fallback is then applied)
    for target, allowed in ((eed.name, {inner.name, ITP + "eval_library_definition"} | ({ea.name} if d_st >= 6 else set())), (inner.name, {ea.name})):
        # (eval_ast itself applies the fallback: whoever calls it goes through it)
        callers_of = fb.callers("lib")

        def ok_caller(name, depth=4):
            # an allowed caller, or a helper all of whose own callers are allowed (a function extracted from one of them)
            name = name.split("::{closure")[0]
            if name in allowed:
                return True
            cs = {c.split("::{closure")[0] for c in callers_of.get(name, ())} - {name}
            return depth > 0 and bool(cs) and all(ok_caller(c, depth - 1) for c in cs)
        for f, b, t in fb.call_sites(lambda t: callee(t) == target):
            ctx.inst("C15-fallback", "%s<-%s" % (target.rsplit("::", 1)[-1], f.name.rsplit("::", 1)[-1]))
            if not ok_caller(f.name):
                ctx.report("C15-fallback", "bypass/%s/%s" % (target.rsplit("::", 1)[-1], f.name), "%s is called from %s, bypassing "
                           "the location fallback" % (target, f.name), where_of(f, t))
    for name in ("eval", "eval_program"):
        f = fb.find(ITP + name, required=False)
        if f is None:
            continue
        fs = [f] + fb.closures_of(f)
        era = [t for g in fs for _, t in g.calls() if callee(t) == ITP + "eval_root_ast"]
        direct = [callee(t) for g in fs for _, t in g.calls() if callee(t) in (eed.name, inner.name, ITP + "eval_expression")]
        ctx.inst("C15-fallback", name + "/uses-eval_root_ast", len(era))
        if direct:
            # (reaching eval_root_ast through a helper is fine: the who-may-call closure above covers every route)
            ctx.report("C15-fallback", name + "/path", "%s evaluates statements without eval_root_ast/eval_ast (%s)" % (name, direct), where_of(f))
    ctx.floor("C15-fallback", 5)
    # an arity error is raised where nothing but the callee is at hand: it must not borrow the callee's source positions
    ctx.rule("C15-callee-text", "an error raised on behalf of a call (wrong argument count) never carries a position of the called "
                                "procedure's own text, which may lie in another top-level form")
    from . import evaltables as _et15
    _et15.rule_arity_location(ctx, "C15-callee-text")

    # ------------------------------------------------------------------ C15-offender
    ctx.rule("C15-offender", "unbound variable / non-procedure errors are located at the offending identifier / operator")
    # decision tables (evaltables.py): the location carried by the error built for an unbound reference / a non-procedure
    # operator is a location inside the failing form (or absent, in which case C15-fallback supplies the statement's)
    from . import evaltables
    from .ctx import Ctx as _Ctx
    sub = _Ctx(ctx.prop, ctx.tier, ctx.seed)
    sub._fb = ctx._fb
    d_off = (evaltables.rule_symbol(sub, "C08-unbound", "C15-offender") + evaltables.rule_call_errors(sub, "C08-non-procedure", "C15-offender")
             + evaltables.rule_epc(sub, "C08-non-procedure", "C15-offender"))
    for r, k, dt, nt in sub.instances:
        if r == "C15-offender":
            ctx.inst(r, k, dt)
    for r in sub.reports:
        if r["rule"] == "C15-offender":
            ctx.reports.append(r)
    def _old_offender():
        ee = fb.find(ITP + "eval_expression")
        vidx = dict((n, i) for i, n in fb.variants("parser::parser::ExpressionBody"))
        sw = next(iter(mir.discriminant_switches(ee, "ExpressionBody")))
        sb, place, adt, targets, other = sw
        pe = Prov(ee)
        for variant, kind, want in (("Symbol", "UnboundedSymbol", "self"), ("ProcedureCall", "TypeMisMatch", "operator")):
            reg = mir.dominated_region(ee, targets[vidx[variant]])
            found = False
            for b, t in ee.calls(reg):
                if not callee_matches(t, "ToLocated::locate"):
                    continue
                # is this the locate of the error kind we look for?
                tr = pe.taint_reach(mir.op_local(t["args"][0]))
                kinds = {v for bb, i, s, a, v in mir.aggregates(ee, reg) if s["place"]["local"] in tr}
                if kind not in kinds:
                    continue
                found = True
                root, path = mir.trace_access(ee, t["args"][1])
                npath = [x for x in path if not isinstance(x, tuple)]
                if want == "self":
                    ok = root == 1 and npath[-1:] == [1] and "ProcedureCall" not in npath
                else:
                    ok = "ProcedureCall" in npath and npath[-1:] == [1] and npath[npath.index("ProcedureCall") + 1] == 0
                ctx.inst("C15-offender", variant, {"location_root": root, "location_path": npath})
                if not ok:
                    ctx.report("C15-offender", variant, "the %s error is located through %s (root %s), expected the location of the %s" % (
                        kind, npath, root, "symbol expression itself" if want == "self" else "operator expression"), where_of(ee, t))
            if not found:
                ctx.report("C15-offender", variant + "/missing", "no located %s error in the %s arm" % (kind, variant), where_of(ee))
    ctx.guarded('C15-offender', d_off >= 6, _old_offender)
    # ... and the identifier is still where the user wrote it after a macro use that mentions it was expanded (crate's lexer, parser
    # and expander on a macro definition and a use spread over several lines)
    from . import readtables as _rt15
    _rt15.rule_macro_argument_locations(ctx, "C15-offender")

    # ------------------------------------------------------------------ C15-single-origin
    ctx.rule("C15-single-origin", "a location never comes from another text")
    SUBS = ("parser::macros::<impl error::Located<parser::macros::SyntaxTemplateBody>>::substitude",
            "parser::macros::<impl error::Located<parser::macros::SyntaxTemplateBody>>::substitude_ellipsis_item",
            "parser::macros::<impl error::Located<parser::macros::SyntaxTemplateBody>>::substitute_template_element")
    n_sites = 0
    for name in SUBS:
        f = fb.find(name)
        pf = Prov(f)
        # locals holding the template's own location: copies of `(*template).location`
        tmpl_param = 1
        tloc = set()
        for b, i, s in f.stmts():
            if s["k"] == "assign" and s["rv"]["k"] in ("use", "ref"):
                pl = mir.op_place(s["rv"]["op"]) if s["rv"]["k"] == "use" else s["rv"]["place"]
                if pl is not None and any(e["k"] == "field" and e.get("name") == "location" for e in pl["proj"]):
                    r, pth = mir.trace_access(f, {"k": "copy", "place": pl})
                    if r == tmpl_param:
                        tloc.add(s["place"]["local"])
        # propagate through copies
        changed = True
        while changed:
            changed = False
            for b, i, s in f.stmts():
                if s["k"] == "assign" and s["rv"]["k"] == "use" and mir.op_local(s["rv"]["op"]) in tloc and s["place"]["local"] not in tloc:
                    tloc.add(s["place"]["local"])
                    changed = True
        for b, t in f.calls():
            if callee_matches(t, "ToLocated::locate"):
                # only data (DatumBody) locations matter, not syntax errors about the template itself
                dty = f.local_ty(t["dest"]["local"])
                if "DatumBody" not in dty:
                    continue
                n_sites += 1
                l = mir.op_local(t["args"][1])
                # any flow (also through Option::or / unwrap_or / a helper) from the template's own location
                from_template = l in tloc or (l is not None and bool(pf.taint_reach(l) & tloc))
                ar = pf.arg_roots(t["args"][1])
                ctx.inst("C15-single-origin", "%s/locate" % name.rsplit("::", 1)[-1], {"from_template_location": from_template, "params": sorted(ar)})
                if from_template:
                    ctx.report("C15-single-origin", "template-location/" + name.rsplit("::", 1)[-1],
                               "data built by the expander take the *template's* location: an error in an expansion of a bundled "
                               "derived form is reported at a position of grammar.sld", where_of(f, t))
            # recursive calls must pass the location parameter on, not the template's
            if callee(t) in SUBS:
                for k, a in enumerate(t["args"]):
                    la = mir.op_local(a)
                    if "Option<[u32; 2]>" in (t.get("argtys") or [""] * 9)[k] and la is not None and (la in tloc or pf.taint_reach(la) & tloc):
                        ctx.report("C15-single-origin", "template-location-passed/" + name.rsplit("::", 1)[-1],
                                   "a sub-template is expanded with the template's own location", where_of(f, t))
    if n_sites < 6:
        ctx.undecided("C15-single-origin", "floor", "expected >= 6 data-locating sites in the expander, found %d (the expander was restructured: "
                      "its sites are no longer where this rule looks)" % n_sites)
    # the transformer passes the location of the macro use
    tr = fb.find("parser::macros::UserDefinedTransformer::transform")
    ptr = Prov(tr)
    sc = [(b, t) for b, t in tr.calls() if callee(t) == SUBS[0]]
    if sc:
        t = sc[0][1]
        locargs = [a for k, a in enumerate(t["args"]) if "Option<[u32; 2]>" in t["argtys"][k]]
        if locargs:
            r, pth = mir.trace_access(tr, locargs[0])
            ctx.inst("C15-single-origin", "transform/use-location", {"root": r, "path": pth})
            if r != 3:
                ctx.report("C15-single-origin", "transform/use-location", "the expander is given a location that is not the macro "
                           "use's (root parameter %s)" % r, where_of(tr, t))
        else:
            ctx.note("substitude takes no location parameter")
    # text sources vs. location type
    srcs = []
    for f, b, t in fb.call_sites(lambda t: callee_matches(t, "parser::lexer::Lexer::from_char_stream")):
        srcs.append(f.name)
    loc_ty = next((x["ty"] for x in fb.adt("error::Located")["variants"][0]["fields"] if x["name"] == "location"), None)
    texts = sorted(set(srcs))
    ctx.inst("C15-single-origin", "text-sources", {"readers": texts, "location_type": loc_ty})
    carries_source = loc_ty is not None and any(x in loc_ty for x in ("Path", "String", "Rc<", "usize", "SourceId", "&str")) \
        and loc_ty != "std::option::Option<[u32; 2]>"
    multi = len([x for x in texts if x != ITP + "eval"]) >= 1 and (ITP + "eval") in texts
    if multi and not carries_source:
        ctx.report("C15-single-origin", "library-positions",
                   "locations are %s without a source identity, while text is read from several sources (%s): an error raised "
                   "inside a library procedure is reported with the library text's line/column under the program's file name" % (
                       loc_ty, [x.rsplit("::", 2)[-2] + "::" + x.rsplit("::", 1)[-1] for x in texts]), None)

    # errors that arrive without a location do not pick up the location of whatever (possibly library) expression is under evaluation
    evaltables.rule_error_locations(ctx, "C15-single-origin")

    # ------------------------------------------------------------------ C15-syntax-errors
    ctx.rule("C15-syntax-errors", "a syntax error about a malformed sub-form ((if), (define), (lambda), (set! x), () nested in a top-level form that "
                                  "goes on after it, also on later lines) carries no location or one at or before that sub-form's last token: "
                                  "the crate's own lexer and parser followed on seven texts (readtables.py)")
    from . import readtables as _rt15
    _rt15.rule_syntax_error_locations(ctx, "C15-syntax-errors")

    # ------------------------------------------------------------------ C15-position
    ctx.rule("C15-position", "tokens are located from the lexer's position counters (bookkeeping: see C06-position)")
    nx = fb.find("<parser::lexer::Lexer as std::iter::Iterator>::next")
    # token-location table (abstract run of the lexer, lexrun.py): every token of a two-line text carries the lexer's position
    # just after its last character (line, 1-based column), so a location always lies on the line of its token
    from . import lexrun
    text = "ab (c\n  12 \"s\")\n#t"
    spans = [("Identifier", 0, 1), ("LeftParen", 3, 3), ("Identifier", 4, 4), ("Integer", 8, 9), ("String", 11, 13), ("RightParen", 14, 14), ("Boolean", 16, 17)]
    toks = lexrun.lex(fb, text)
    if toks and toks[-1][0] in ("stuck", "panic"):
        ctx.undecided("C15-position", "token-location", "cannot follow the lexer on the sample text (%s)" % (toks[-1][1],), where_of(nx))
    else:
        def pos_after(i):
            line = 1 + text[:i + 1].count("\n")
            col = i + 1 - (text[:i + 1].rfind("\n") + 1) + 1
            return [line, col]
        want = [(k, pos_after(e)) for k, b_, e in spans]
        got = [(t[0], t[2]) for t in toks]
        ctx.inst("C15-position", "token-location", {"tokens": got})
        ctx.oblige(got == want)
        if got != want:
            ctx.report("C15-position", "token-location", "tokens of %r are located %s, expected each at the position after its last "
                       "character: %s" % (text, got, want), where_of(nx))
    # the same for tokens that follow a construct spanning several lines: a string with a raw line break (and one with the
    # ESCAPE \n, which is not a line break), a |quoted identifier| with a line break, a comment line
    text2 = "\"ab\ncd\" x\n\"e\\nf\" y ; c (\n|g\nh| z"
    marks = [("Identifier", text2.index(" x") + 1), ("Identifier", text2.index(" y") + 1), ("Identifier", len(text2) - 1)]
    toks2 = lexrun.lex(fb, text2)
    if toks2 and toks2[-1][0] in ("stuck", "panic"):
        ctx.undecided("C15-position", "token-location/multi-line", "cannot follow the lexer on the multi-line sample (%s)" % (toks2[-1][1],), where_of(nx))
    else:
        def pos_after2(i):
            line = 1 + text2[:i + 1].count("\n")
            col = i + 1 - (text2[:i + 1].rfind("\n") + 1) + 1
            return [line, col]
        ids = [(t[0], t[1], t[2]) for t in toks2 if t[0] == "Identifier" and t[1] in ("x", "y", "z")]
        want2 = [("Identifier", n, pos_after2(i)) for (k, i), n in zip(marks, "xyz")]
        ctx.inst("C15-position", "token-location/multi-line", {"tokens": ids})
        ctx.oblige(ids == want2)
        if ids != want2:
            ctx.report("C15-position", "token-location/multi-line", "after a string / |identifier| / comment that spans lines the tokens x, y, z of %r are "
                       "located %s, expected %s: every later error of the program would be reported on the wrong line" % (text2, ids, want2), where_of(nx))
    lexrun.rule_token_locations(ctx, "C15-position")
    from .c06 import run as _c06  # noqa: F401  (position table itself is decided by C06-position)
    return EXPLANATION, NOT_DECIDED
