"""C17 — Running a program file: output, diagnostics and exit status (structural part)."""
import re
from . import mir
from .mir import callee, callee_matches, Prov
from .ctx import where_of

EXPLANATION = (
    '(front-end table) abstract interpretation of `main` with the interpreter stubbed: success => nothing '
    'written, no exit call; failure with / without a location => exactly FILE:LINE:COL MESSAGE newline on the '
    'stderr handle, nothing on stdout, process::exit(non-zero); census of every stdout / stderr writer in lib+bin '
    '(display, newline, REPL; closed under helper extraction); evaluation stops at the first error; forms are '
    'read one at a time (an error in a later form does not prevent earlier output); eval_file reaches evaluation '
    "only through eval after recording the program directory; eval returns the last form's value. The flow table "
    'of Interpreter::eval scripts the tokenizer and the form reader (lazy iterator semantics): read, evaluate, '
    'read, evaluate; a lexical, read or evaluation error stops there and earlier forms were already evaluated; no '
    'Result<_, io::Error> is dropped.')
NOT_DECIDED = ("byte-exact stdout for arbitrary programs; equality with in-process evaluation of the same "
               "text; behaviour of the OS / file system.")

STDOUT_FNS = ("std::io::_print", "std::io::stdout", "std::io::Stdout::lock", "termcolor::StandardStream::stdout",
              "termcolor::BufferWriter::stdout")
STDERR_FNS = ("std::io::_eprint", "std::io::stderr", "termcolor::StandardStream::stderr",
              "termcolor::BufferWriter::stderr")

# who may write to stdout: (normalised function name suffix) -> reason
STDOUT_ALLOW = {
    "interpreter::library::native::write::display": "the display builtin",
    "interpreter::library::native::base::newline": "the newline builtin",
    "repl::run_with_interpreter": "interactive front end (not used by `ruschm FILE`)",
}
STDERR_ALLOW = {
    "repl::run_with_interpreter": "interactive front end prints errors",
    "main": "the diagnostic of `ruschm FILE`",
}


def _from_location(f, prov, o):
    """Does operand o derive from a `.location` field projection?"""
    l = mir.op_local(o)
    if l is None:
        return False
    reach = prov.reach_locals(l)
    for b, i, s in f.stmts():
        if s["k"] == "assign" and s["place"]["local"] in reach:
            for p in mir.rv_places(s["rv"]):
                if any(e.get("name") == "location" for e in p["proj"]):
                    return True
    return False


def run(ctx):
    fb = ctx.fb()
    ctx.trust("rustc nightly MIR construction and callee resolution; engine/factsdrv serialisation")
    main = fb.find("main", crate="bin")

    # ------------------------------------------------------------------ C17-exit
    ctx.rule("C17-exit", "status 0 iff every form succeeded: a failed evaluation ends in a non-zero exit status, a successful one does not exit")
    ctx.rule("C17-stderr", "the diagnostic goes to standard error only, as one line `FILE:LINE:COL MESSAGE`")
    from . import maintables
    d_main = maintables.rule_main(ctx, "C17-exit", "C17-stderr")

    def _old_exit():
        ctx.rule("C17-exit", "status 0 iff every form succeeded: Err arm of eval_file's result reaches only "
                             "process::exit(c != 0); Ok arm returns without exit")
        ef = [(b, t) for b, t in main.calls() if callee_matches(t, "Interpreter::eval_file")]
        if len(ef) != 1:
            ctx.report("C17-exit", "main/eval_file-call", "expected exactly one call of eval_file in main, found %d" % len(ef),
                       where_of(main))
        else:
            b, t = ef[0]
            sw = mir.result_switch_after(main, b)
            if not sw:
                ctx.report("C17-exit", "main/result-match", "the result of eval_file is not matched on its discriminant",
                           where_of(main, t))
            else:
                sb, targets, other = sw
                ok_t = targets.get(0, other)
                err_t = targets.get(1, other)
                err_blocks = main.reachable(err_t)
                ok_blocks = main.reachable(ok_t)
                exits = [(bb, tt) for bb, tt in main.calls() if callee_matches(tt, "std::process::exit")]
                ctx.inst("C17-exit", "main/err-arm", {"blocks": len(err_blocks)})
                ctx.inst("C17-exit", "main/ok-arm", {"blocks": len(ok_blocks)})
                for bb, tt in exits:
                    code = mir.const_int(tt["args"][0])
                    ctx.inst("C17-exit", "main/exit-call/%s" % code, {"code": code, "where": where_of(main, tt)})
                    if code is None or code == 0:
                        if bb in err_blocks:
                            ctx.report("C17-exit", "main/exit-code", "process::exit in the error arm is called with %r "
                                       "(must be a non-zero constant)" % (code,), where_of(main, tt))
                    if bb in ok_blocks and bb not in err_blocks:
                        ctx.report("C17-exit", "main/ok-exits", "the success arm calls process::exit", where_of(main, tt))
                    if bb in ok_blocks and bb in err_blocks and (code is None or code != 0):
                        pass
                err_exits = [bb for bb, tt in exits if bb in err_blocks]
                if not err_exits:
                    ctx.report("C17-exit", "main/err-no-exit", "no process::exit is reachable from the error arm",
                               where_of(main, t))
                # every path from the error arm must hit an exit: no `return` reachable while avoiding exits
                rets = [r for r in main.return_blocks()]
                wit = mir.paths_avoiding(main, err_t, rets, err_exits)
                if wit is not None:
                    # a return in the error arm is acceptable only if it returns Err (non-zero via Termination)
                    okret = False
                    for bb in wit:
                        for s in main.blocks[bb]["stmts"]:
                            if s["k"] == "assign" and s["place"]["local"] == 0 and s["rv"]["k"] == "aggregate" \
                                    and s["rv"]["kind"].get("variant") == "Err":
                                okret = True
                    if not okret:
                        ctx.report("C17-exit", "main/err-returns", "a path from the error arm reaches `return` without "
                                   "process::exit (status would be 0): blocks %s" % wit, where_of(main, t))
                # ok arm: must reach a return, and exits reachable from the ok arm only if shared (none expected)
                if not (set(rets) & ok_blocks):
                    ctx.report("C17-exit", "main/ok-no-return", "the success arm does not reach `return`", where_of(main, t))
                for bb, tt in exits:
                    if bb in ok_blocks:
                        ctx.report("C17-exit", "main/ok-exits", "process::exit is reachable from the success arm",
                                   where_of(main, tt))

                # -------------------------------------------------------------- C17-stderr
                ctx.rule("C17-stderr", "the diagnostic goes only to the StandardStream::stderr handle, as one line "
                                       "`{file}:{line}:{col} {error}\\n` with the right arguments")
                prov = Prov(main)
                pieces_all = []
                args_all = []
                for bb, tt in main.calls(err_blocks):
                    if callee_matches(tt, "std::io::Write::write_fmt", "std::io::Write::write_all", "std::io::Write::write"):
                        roots = prov.call_roots(tt["args"][0])
                        names = {c for _, c in roots}
                        ctx.inst("C17-stderr", "main/write@%s" % mir.trace_place(main, tt["args"][0])[0],
                                 {"receiver_roots": sorted(names)})
                        if not any(n and n.endswith("StandardStream::stderr") or n == "std::io::stderr" for n in names) \
                                or any(n and ("stdout" in n) for n in names):
                            ctx.report("C17-stderr", "main/write-target", "a write in the error arm does not target the "
                                       "stderr handle (receiver derives from %s)" % sorted(names), where_of(main, tt))
                for bb in sorted(err_blocks):
                    for cb, tt, pieces, kinds, ops in mir.format_calls(main, [bb]):
                        if pieces is None:
                            ctx.report("C17-stderr", "main/template", "format template not decodable", where_of(main, tt))
                            continue
                        pieces_all.append((bb, pieces, kinds, ops, tt))
                # order the format calls along the longest path (with location): by reverse post order
                order = {b2: i for i, b2 in enumerate(main.rpo())}
                pieces_all.sort(key=lambda x: order.get(x[0], 0))
                tmpl = ""
                arg_ops = []
                for bb, pieces, kinds, ops, tt in pieces_all:
                    for p in pieces:
                        if isinstance(p, str):
                            tmpl += p
                        else:
                            tmpl += "{}"
                            arg_ops.append(ops[p[1]] if p[1] < len(ops) else None)
                            args_all.append((kinds[p[1]] if p[1] < len(kinds) else "?",
                                             mir.trace_place(main, ops[p[1]])[0] if p[1] < len(ops) else "?"))
                ctx.inst("C17-stderr", "main/template", {"template": tmpl, "args": args_all})
                if not re.fullmatch(r"\{\}:\{\}:\{\} +\{\}\n", tmpl):
                    ctx.report("C17-stderr", "main/format", "diagnostic template is %r, expected `{}:{}:{} {}\\n`" % tmpl,
                               where_of(main, t))
                else:
                    # arguments: file (derived from env::args), location[0], location[1], the error (Display)
                    a = args_all
                    file_local = None
                    ok = len(a) == 4
                    if ok:
                        ok = a[1][1].endswith("[0]") and a[2][1].endswith("[1]") and \
                            a[1][1][:-3] == a[2][1][:-3] and _from_location(main, prov, arg_ops[1])
                        if not ok:
                            ctx.report("C17-stderr", "main/format-args", "LINE/COL placeholders are fed from %s and %s, "
                                       "expected location[0] and location[1]" % (a[1][1], a[2][1]), where_of(main, t))
                        if a[3][0] != "display":
                            ctx.report("C17-stderr", "main/format-args", "the message is not printed with Display",
                                       where_of(main, t))
                        # line, column and message must all come from the one error value (the Err payload)
                        def err_locals(o):
                            l = mir.op_local(o)
                            return {x for x in prov.reach_locals(l)
                                    if main.local_ty(x).endswith("error::Located<ruschm::error::ErrorData>") or main.local_ty(x).endswith("error::Located<error::ErrorData>")} if l is not None else set()
                        common = err_locals(arg_ops[1]) & err_locals(arg_ops[2]) & err_locals(arg_ops[3])
                        if not common:
                            ctx.report("C17-stderr", "main/format-args", "line, column and message do not derive from "
                                       "one SchemeError value (%s, %s, %s)" % (a[1][1], a[2][1], a[3][1]), where_of(main, t))
                        if "location" not in main.local_name(mir.op_local(arg_ops[1]) or 0) if False else False:
                            pass
                    else:
                        ctx.report("C17-stderr", "main/format-args", "expected 4 placeholders, got %d" % len(a), where_of(main, t))
                # no stdout writer in the error arm
                for bb, tt in main.calls(err_blocks):
                    if callee_matches(tt, *STDOUT_FNS):
                        ctx.report("C17-stderr", "main/stdout-in-error-arm", "the error arm writes to standard output via %s"
                                   % callee(tt), where_of(main, tt))

    ctx.guarded("C17-exit", d_main >= 3, _old_exit)

    # ------------------------------------------------------------------ C17-stdout-census
    ctx.rule("C17-stdout-census", "standard output / standard error are written only by the allowed functions")
    def allowed(owner, table, crate, depth=4):
        """an allowed writer, or a helper whose callers are all allowed writers (a function extracted from one)"""
        if any(owner == k or owner.endswith("::" + k) for k in table):
            return True
        g = fb.call_graph(crate)
        cs = {a.split("::{closure")[0] for a, bs in g.items() if owner in {x.split("::{closure")[0] for x in bs}} - {owner}
        return depth > 0 and bool(cs) and all(allowed(c, table, crate, depth - 1) for c in cs)
    for crate in ("lib", "bin"):
        for f in fb.all(crate):
            for b, t in f.calls():
                c = callee(t)
                if c is None:
                    continue
                owner = f.name.split("::{closure")[0]
                if any(c == x or c.endswith(x) for x in STDOUT_FNS):
                    ctx.inst("C17-stdout-census", "stdout/%s/%s" % (owner, c))
                    if not allowed(owner, STDOUT_ALLOW, crate):
                        ctx.report("C17-stdout-census", "stdout/%s/%s" % (owner, c.rsplit("::", 1)[-1]),
                                   "%s writes to standard output (via %s) but is not one of %s" % (
                                       owner, c, sorted(STDOUT_ALLOW)), where_of(f, t))
                if any(c == x or c.endswith(x) for x in STDERR_FNS):
                    ctx.inst("C17-stdout-census", "stderr/%s/%s" % (owner, c))
                    if not allowed(owner, STDERR_ALLOW, crate):
                        ctx.report("C17-stdout-census", "stderr/%s/%s" % (owner, c.rsplit("::", 1)[-1]),
                                   "%s writes to standard error (via %s) but is not one of %s" % (
                                       owner, c, sorted(STDERR_ALLOW)), where_of(f, t))
    ctx.floor("C17-stdout-census", 6)

    # ------------------------------------------------------------------ C17-stop-at-first / C17-incremental: flow table of eval
    ctx.rule("C17-stop-at-first", "eval stops at the first failing form (read error or evaluation error): nothing after it is evaluated, "
                                  "the error is the result")
    ctx.rule("C17-incremental", "forms are read one at a time, each evaluated before the next is read (effects and output of earlier "
                                "forms precede a later read error)")
    from . import maintables
    d_flow = maintables.rule_eval_flow(ctx, {"stop-at-first": "C17-stop-at-first", "incremental": "C17-incremental"})
    ev = fb.find("interpreter::interpreter::Interpreter::eval")

    def _old_flow():
        # ------------------------------------------------------------------ C17-stop-at-first
        ctx.rule("C17-stop-at-first", "eval stops at the first failing form: try_fold whose closure returns the "
                                      "Result of eval_root_ast (or the reader's error) unchanged")
        ev = fb.find("interpreter::interpreter::Interpreter::eval")
        tf = [(b, t) for b, t in ev.calls() if callee_matches(t, "std::iter::Iterator::try_fold")]
        fe = [(b, t) for b, t in ev.calls() if callee_matches(t, "for_each", "std::iter::Iterator::fold", "Iterator::map")]
        if len(tf) != 1 or fe:
            # alternative shapes (an explicit loop with `?`) are accepted when every eval_root_ast result is
            # propagated with `?`: handled by C08-no-swallow; here we only insist on *some* propagating shape
            loops = ev.loop_blocks()
            era = [(b, t) for b, t in ev.calls() if callee_matches(t, "Interpreter::eval_root_ast")]
            if not (era and all(b in loops for b, _ in era)) or fe:
                ctx.report("C17-stop-at-first", "eval/shape", "eval neither try_folds nor loops over eval_root_ast with "
                           "error propagation", where_of(ev))
            else:
                p = Prov(ev)
                for b, t in era:
                    ctx.inst("C17-stop-at-first", "eval/loop-call")
                    sw = mir.result_switch_after(ev, ev.blocks[b]["term"].get("target")) if False else None
                if not any(c == "interpreter::interpreter::Interpreter::eval_root_ast" or (c or "").endswith("from_residual")
                           for _, c in p.call_roots(0)):
                    ctx.report("C17-stop-at-first", "eval/return", "eval's result does not derive from eval_root_ast",
                               where_of(ev))
        else:
            b, t = tf[0]
            p = Prov(ev)
            if not any((c or "").endswith("try_fold") for _, c in p.call_roots(0)):
                ctx.report("C17-stop-at-first", "eval/return", "eval does not return the result of try_fold", where_of(ev, t))
            cl = fb.closures_of(ev)
            ctx.inst("C17-stop-at-first", "eval/try_fold", {"closures": [c.name for c in cl]})
            found = False
            for c in cl:
                era = [(bb, tt) for bb, tt in c.calls() if callee_matches(tt, "Interpreter::eval_root_ast")]
                if not era:
                    continue
                found = True
                pc = Prov(c)
                roots = {n for _, n in pc.call_roots(0)}
                ctx.inst("C17-stop-at-first", "eval/closure-return", {"roots": sorted(roots)})
                # every return value must be either eval_root_ast's result or a propagated residual
                bad = [r for r in roots if not (r.endswith("eval_root_ast") or r.endswith("from_residual"))]
                consts = [r for r in pc.roots(0) if r[0] in ("agg",)] if not rewrapped_only(c, pc) else []
                if bad or consts:
                    ctx.report("C17-stop-at-first", "eval/closure-swallows", "the fold closure can return a value not "
                               "produced by eval_root_ast (%s) — an error could be replaced" % (bad or consts), where_of(c))
            if not found:
                ctx.report("C17-stop-at-first", "eval/closure", "no closure of eval calls eval_root_ast", where_of(ev))

        # ------------------------------------------------------------------ C17-incremental
        ctx.rule("C17-incremental", "forms are read one at a time, each evaluated before the next is read (output of earlier "
                                    "forms precedes a later read error): outside the parser module nothing consumes a Parser "
                                    "eagerly except the evaluating try_fold / a `next` in the evaluating loop")
        LAZY = {"map", "filter", "filter_map", "enumerate", "peekable", "skip_while", "take_while", "map_while", "skip", "take",
                "scan", "flat_map", "flatten", "fuse", "inspect", "by_ref", "step_by", "chain", "zip", "cloned", "copied", "rev",
                "size_hint", "into_iter"}
        n_inc = 0
        # the code that drives a program file: everything eval_file reaches before a form is handed to eval_root_ast
        # (what happens inside the evaluation of one form, e.g. reading an imported library file, is not the program reader)
        era_n = "interpreter::interpreter::Interpreter::eval_root_ast"
        gl = fb.call_graph("lib")
        drivers = fb.reachable_from(["interpreter::interpreter::Interpreter::eval_file"],
                                    graph={k: (v if k != era_n else set()) for k, v in gl.items()})
        ctx.inst("C17-incremental", "driver-functions", sorted(x for x in drivers if not x.startswith("parser::") and "io::" not in x)[:12])
        for crate in ("lib", "bin"):
            for f in fb.all(crate):
                if f.name.startswith("parser::") or f.name.startswith("<parser::"):
                    continue
                if crate == "lib" and f.name.split("::{closure")[0] not in drivers:
                    continue
                loops = None
                for b, t in f.calls():
                    tys = t.get("argtys") or []
                    if not tys or "parser::Parser<" not in tys[0] or f.blocks[b]["cleanup"]:
                        continue
                    c = callee(t) or ""
                    meth = c.rsplit("::", 1)[-1]
                    if not ("Iterator" in c or "itertools" in c.lower() or "FromIterator" in c or "Extend" in c):
                        continue
                    n_inc += 1
                    owner = f.name.split("::{closure")[0].rsplit("::", 1)[-1]
                    ctx.inst("C17-incremental", "%s/%s" % (owner, meth))
                    if meth in LAZY:
                        continue
                    if meth == "try_fold":
                        ok = any(any(callee_matches(tt, "Interpreter::eval_root_ast") for _, tt in cl.calls()) for cl in fb.closures_of(f))
                        why = "its closure does not evaluate the form"
                    elif meth == "next":
                        loops = f.loop_blocks() if loops is None else loops
                        # a reader of one library definition takes a single form: no loop, nothing to interleave
                        ok = b not in loops or any(callee_matches(tt, "Interpreter::eval_root_ast", "Interpreter::eval_ast",
                                                                     "Interpreter::eval_expression") and bb in loops for bb, tt in f.calls())
                        why = "the loop that reads the forms does not evaluate them"
                    else:
                        ok, why = False, "it drains the reader before anything is evaluated"
                    ctx.oblige(ok)
                    if not ok:
                        ctx.report("C17-incremental", "%s/%s" % (owner, meth), "%s consumes the form reader with `%s`: %s, so output "
                                   "of forms before a read error would be lost / reordered" % (f.name, c, why), where_of(f, t))
        ctx.floor("C17-incremental", 1)
        if n_inc < 1:
            ctx.undecided("C17-incremental", "floor", "no consumer of the form reader found outside the parser module", where_of(ev))


    ctx.guarded("C17-stop-at-first", d_flow, _old_flow)

    # ------------------------------------------------------------------ C17-same-path
    ctx.rule("C17-read-errors", "an unreadable file is a diagnostic and a non-zero status: no Result<_, io::Error> is turned into "
                                "None / a default / nothing anywhere in lib or bin")
    from . import ioerrors
    ioerrors.rule(ctx, "C17-read-errors")
    ctx.rule("C17-working-directory", "a program's file libraries are found next to the program whatever the working directory and however the "
                                      "program was named (relative path with a directory part, absolute path, bare file name): table of "
                                      "file_library_factory with the file system answered")
    from . import libtables as _lt17
    _lt17.rule_location(ctx, "C17-working-directory", "C17-working-directory")
    ctx.rule("C17-diagnostic-position", "the LINE:COL a diagnostic prints is a token location: marker tokens after comments of every shape, "
                                        "CRLF line ends, blank lines and tabs, strings and |identifiers| that span lines are located "
                                        "just after their last character (whole-lexer runs on six texts)")
    from . import lexrun as _lr17
    _lr17.rule_token_locations(ctx, "C17-diagnostic-position")
    # ... and the LINE:COL of a failing top-level form that raises an error without a location of its own (a builtin's type / range
    # error) is where the FORM starts — expression statement, definition, import declaration alike (statement table shared with C15)
    try:
        from . import c15 as _c15
        _c15.statement_location_rule(ctx, fb, "C17-diagnostic-position")
    except mir.AnchorMissing as e:
        ctx.undecided("C17-diagnostic-position", "eval_ast", str(e))
    ctx.rule("C17-file-text", "the reader is handed the file's text (LF or CRLF line ends, with or without a final newline): table of the "
                              "character stream file_char_stream yields for eleven file texts, the file system answered from the text")
    ioerrors.rule_stream(ctx, "C17-file-text")
    ctx.rule("C17-output-complete", "whatever writes program output hands the stream the whole text: no `Write::write` / `Read::read` whose "
                                    "returned byte count is thrown away (a short write silently loses the rest of what was displayed)")
    ioerrors.rule_io_amounts(ctx, "C17-output-complete")
    ctx.rule("C17-same-path", "eval_file = record the program directory, then eval(file_char_stream(path)?)")
    efn = fb.find("interpreter::interpreter::Interpreter::eval_file")
    fcs = [(b, t) for b, t in efn.calls() if callee_matches(t, "io::file_char_stream")]
    evc = [(b, t) for b, t in efn.calls() if callee_matches(t, "Interpreter::eval")]
    ctx.inst("C17-same-path", "eval_file/calls", {"file_char_stream": len(fcs), "eval": len(evc)})
    # every way from eval_file to the evaluation of a form goes through Interpreter::eval (the in-process path)
    g = fb.call_graph("lib")
    g2 = {k: {x for x in v if x != ev.name} for k, v in g.items() if k != ev.name}
    era_name = "interpreter::interpreter::Interpreter::eval_root_ast"
    bypass = era_name in fb.reachable_from([efn.name], graph=g2)
    through = ev.name in fb.reachable_from([efn.name], graph=g)
    ctx.inst("C17-same-path", "eval_file/call-graph", {"reaches_eval": through, "reaches_eval_root_ast_avoiding_eval": bypass})
    ctx.oblige(through and not bypass)
    if bypass or not through:
        ctx.report("C17-same-path", "eval_file/bypasses-eval", "eval_file %s: the file is not run by the code path that "
                   "evaluates the same text in-process" % ("evaluates forms without going through Interpreter::eval" if bypass
                                                           else "never reaches Interpreter::eval"), where_of(efn))
    d_ef = maintables.rule_eval_file(ctx, "C17-same-path")
    if bypass or not through or d_ef >= 3:
        pass
    elif len(fcs) != 1 or len(evc) != 1:
        ctx.note("eval_file reaches eval through a helper; the stream/program-directory sub-rules apply to the direct shape only")
    else:
      with ctx.fallback():
          p = Prov(efn)
          roots = {n for _, n in p.call_roots(0)}
          if not any(r.endswith("Interpreter::eval") for r in roots):
              ctx.report("C17-same-path", "eval_file/return", "eval_file does not return eval's result", where_of(efn))
          # stream argument of eval derives from file_char_stream
          sroots = {n for _, n in p.call_roots(evc[0][1]["args"][1])}
          ctx.inst("C17-same-path", "eval_file/stream", {"roots": sorted(sroots)})
          if not any(r.endswith("file_char_stream") for r in sroots):
              ctx.report("C17-same-path", "eval_file/stream", "eval is not fed from file_char_stream", where_of(efn, evc[0][1]))
          # failure of file_char_stream is propagated: Break arm reaches from_residual -> return
          sw = None
          for b2, t2 in efn.calls():
              if callee_matches(t2, "std::ops::Try::branch") and ("call", fcs[0][0], callee(fcs[0][1])) in p.op_roots(t2["args"][0]):
                  sw = mir.result_switch_after(efn, b2)
          if not sw:
              ctx.report("C17-same-path", "eval_file/open-error", "the result of file_char_stream is not propagated with `?`",
                         where_of(efn, fcs[0][1]))
          else:
              brk = sw[1].get(1, sw[2])
              if any(callee_matches(t3, "Interpreter::eval") for _, t3 in efn.calls(efn.reachable(brk))):
                  ctx.report("C17-same-path", "eval_file/open-error", "evaluation continues after a failed open",
                             where_of(efn, fcs[0][1]))
          # program_directory written before eval
          writes = []
          for b2, i2, s2 in efn.stmts():
              if s2["k"] == "assign" and any(e.get("name") == "program_directory" for e in s2["place"]["proj"]) \
                      and not efn.blocks[b2]["cleanup"]:
                  writes.append(b2)
          ctx.inst("C17-same-path", "eval_file/program_directory", {"write_blocks": writes})
          dom = efn.dominators()
          if not writes or not any(w in dom[evc[0][0]] for w in writes):
              ctx.report("C17-same-path", "eval_file/program-directory", "program_directory is not assigned on every "
                         "path before eval", where_of(efn))
    return EXPLANATION, NOT_DECIDED


def rewrapped_only(c, pc):
    """Every aggregate that can reach the closure's return value is `Ok(payload)` with payload = the success value of a
    `?` on eval_root_ast's result (a re-wrap, not a new value)."""
    for r in pc.roots(0):
        if r[0] != "agg":
            continue
        s = c.blocks[r[1]]["stmts"][r[2]]
        rv = s["rv"]
        if rv["kind"].get("variant") != "Ok" or len(rv["ops"]) != 1:
            return False
        root, path = mir.trace_access(c, rv["ops"][0])
        rl = root[1] if isinstance(root, tuple) and root[0] == "local" else root
        ok = False
        for bb, tt in c.calls():
            if callee_matches(tt, "std::ops::Try::branch") and tt["dest"]["local"] == rl and \
                    any((x[2] or "").endswith("eval_root_ast") for x in pc.op_roots(tt["args"][0]) if x[0] == "call") and \
                    [x for x in path if x not in ("Continue", 0, "0")] == []:
                ok = True
        if not ok:
            return False
    return True


def last_value_rule(ctx, fb, rule):
    """`Interpreter::eval` returns the value of the LAST form it evaluated (None for a definition), whatever came before:
    try_fold shape — the closure ignores its accumulator and returns eval_root_ast's result;
    loop shape — on every path from a successful eval_root_ast to the next iteration the returned variable is overwritten
    with exactly that call's success payload."""
    ev = fb.find("interpreter::interpreter::Interpreter::eval")
    tf = [(b, t) for b, t in ev.calls() if callee_matches(t, "std::iter::Iterator::try_fold")]
    if tf:
        n = 0
        for c in fb.closures_of(ev):
            if not any(callee_matches(tt, "Interpreter::eval_root_ast") for _, tt in c.calls()):
                continue
            n += 1
            pc = Prov(c)
            roots = pc.roots(0)
            acc = [r for r in roots if r[0] == "arg" and r[1] == 2]
            # (arg 3 is the current form: its read error is what `statement?` propagates)
            other = [r for r in roots if not (r[0] == "call" and ((r[2] or "").endswith("eval_root_ast") or (r[2] or "").endswith("from_residual")))
                     and not (r[0] == "arg" and r[1] in (1, 3)) and not (r[0] == "agg" and rewrapped_only(c, pc))]
            ctx.inst(rule, "eval/try_fold-closure", {"return_roots": sorted(str(r) for r in roots)})
            ctx.oblige(not acc and not other)
            if acc or other:
                ctx.report(rule, "eval/closure-keeps-earlier-value", "the fold closure's result can come from %s, not only from the "
                           "evaluation of the current form: a session ending in a definition would show an earlier value"
                           % sorted(str(r) for r in (acc or other)), where_of(c))
        if not n:
            ctx.report(rule, "eval/closure", "no closure of eval calls eval_root_ast", where_of(ev))
        return
    loops = ev.loop_blocks()
    era = [(b, t) for b, t in ev.calls() if callee_matches(t, "Interpreter::eval_root_ast") and b in loops]
    if not era:
        ctx.report(rule, "eval/shape", "eval neither try_folds nor loops over eval_root_ast", where_of(ev))
        return
    # the returned variable
    acc_locals = set()
    for b, i, s, a, v in mir.aggregates(ev):
        if v == "Ok" and s["place"]["local"] == 0 and not ev.blocks[b]["cleanup"]:
            root, path = mir.trace_access(ev, s["rv"]["ops"][0])
            if isinstance(root, tuple) and root[0] == "local":
                acc_locals.add(root[1])
            elif isinstance(root, int):
                acc_locals.add(root)
    ctx.inst(rule, "eval/returned-variable", {"locals": sorted(acc_locals)})
    if len(acc_locals) != 1:
        ctx.report(rule, "eval/returned-variable", "cannot identify the variable eval returns (candidates %s)" % sorted(acc_locals), where_of(ev))
        return
    A = acc_locals.pop()
    nexts = [b for b, t in ev.calls() if b in loops and callee_matches(t, "Iterator>::next", "Iterator::next")]
    for b, t in era:
        dest = t["dest"]["local"]
        # success continuation of this call: the Continue arm of its `?`, or the Ok arm of a match on it
        conts, payload_roots = [], {dest}
        p = Prov(ev)
        for bb, tt in ev.calls():
            if callee_matches(tt, "std::ops::Try::branch") and ("call", b, callee(t)) in p.op_roots(tt["args"][0]):
                sw = mir.result_switch_after(ev, bb)
                if sw and sw[1].get(0) is not None:
                    conts.append(sw[1][0])
                    payload_roots.add(tt["dest"]["local"])
        if not conts:
            sw = mir.result_switch_after(ev, b)
            if sw and sw[1].get(0) is not None:
                conts.append(sw[1][0])
        if not conts:
            ctx.report(rule, "eval/result-not-matched", "the result of eval_root_ast is not matched / propagated", where_of(ev, t))
            continue
        good = set()
        for bb, i, s in ev.stmts():
            if s["k"] == "assign" and s["place"]["local"] == A and not s["place"]["proj"] and bb in loops and s["rv"]["k"] == "use":
                root, path = mir.trace_access(ev, s["rv"]["op"])
                rl = root[1] if isinstance(root, tuple) and root[0] == "local" else root
                if rl in payload_roots and [x for x in path if x not in ("Continue", "Ok", 0, "0")] == []:
                    good.add(bb)
        ctx.inst(rule, "eval/loop-overwrite", {"variable": A, "overwrite_blocks": sorted(good)})
        for c in conts:
            w = mir.paths_avoiding(ev, c, nexts, good)
            ctx.oblige(w is None)
            if w is not None:
                ctx.report(rule, "eval/keeps-earlier-value", "a path from a successfully evaluated form to the next iteration does "
                           "not overwrite the returned variable with that form's value (blocks %s): a submission ending in a "
                           "definition would show an earlier value" % w, where_of(ev, t))
