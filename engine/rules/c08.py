"""C08 — Run-time errors are detected, classified, and leave the interpreter usable (structural part)."""
from . import mir, absint
from .mir import callee, callee_matches, Prov
from .ctx import where_of

EXPLANATION = (
    'Decision tables of the evaluator (abstract interpretation over opaque operands): (arity-per-application) an '
    'application with a wrong argument count yields Err(ArgumentMissMatch) with no frame created, nothing bound, '
    'nothing evaluated — for the initial procedure, for a procedure reached through a tail call and for a '
    'procedure that tail-calls itself; (non-procedure) a non-procedure operator => Err(TypeMisMatch(_, '
    'Procedure)) on both call paths, an operand error is propagated and nothing is applied; (unbound) a missing '
    'variable => Err(UnboundedSymbol) on lookup and assignment, set! never creates a binding; (vector) index '
    'misses => Err(VectorIndexOutOfBounds), literal vectors => Err(RequiresMutable), storage untouched. '
    'Structural rules: (chokepoint) procedure bodies are entered only from apply_procedure or helpers reachable '
    'only from it; (expect-tables) each Value::expect_* is Ok exactly on its variant; exact division is guarded '
    'by a zero test of every divisor (access-path exact); (no-swallow) no Result carrying a SchemeError is '
    'discarded, defaulted or tested-and-ignored. (propagation) a failing internal definition, non-final or final '
    'form of a procedure body stops the application with that error; every form before it was evaluated, in '
    'order, nothing after it.')
NOT_DECIDED = ("that the interpreter 'keeps exactly the effects completed before' the error for arbitrary programs; "
               "the text of messages.")

SCHEME_ERR = "error::Located<error::ErrorData>"


def run(ctx):
    fb = ctx.fb()
    ctx.trust("rustc nightly MIR and resolved callees; decision tables are read by abstract evaluation of loop-free "
              "MIR fragments over finite domains (absint.py)")
    ap = fb.find("interpreter::interpreter::Interpreter::apply_procedure")
    asp = fb.find("interpreter::interpreter::Interpreter::apply_scheme_procedure")
    bpa = fb.find("values::BuiltinProcedureBody::apply")

    # ------------------------------------------------------------------ C08-chokepoint
    ctx.rule("C08-chokepoint", "every calling context applies procedures through apply_procedure")
    callers_ = fb.callers("lib")

    def only_from_apply(nm, depth=4):
        # apply_procedure, or a helper all of whose callers are (a piece extracted from it: it runs under its checks)
        nm = nm.split("::{closure")[0]
        if nm == ap.name:
            return True
        cs = {x.split("::{closure")[0] for x in callers_.get(nm, ())} - {nm}
        return depth > 0 and bool(cs) and all(only_from_apply(x, depth - 1) for x in cs)
    for target, allowed in ((asp.name, {ap.name}), (bpa.name, {ap.name})):
        for f, b, t in fb.call_sites(lambda t: callee(t) == target):
            ctx.inst("C08-chokepoint", "%s<-%s" % (target.rsplit("::", 1)[-1], f.name))
            if f.name not in allowed and not only_from_apply(f.name):
                if target == bpa.name and f.name.split("::{closure")[0].endswith("native::base::apply"):
                    # the `apply` builtin entering a builtin's body itself: decided by running it on a real builtin of two parameters
                    # and lists of 1, 2, 3 elements (does the body see a count its parameters do not allow?)
                    from . import evaltables as _evt08
                    verdict, why = _evt08.native_apply_entry(fb)
                    ctx.oblige(verdict is True)
                    if verdict is True:
                        continue
                    if verdict is None:
                        ctx.undecided("C08-chokepoint", "%s/caller/%s" % (target.rsplit("::", 1)[-1], f.name), "%s is called from %s; whether the "
                                      "argument count is checked on that way in could not be followed (%s)" % (target, f.name, why), where_of(f, t))
                        continue
                    ctx.report("C08-chokepoint", "%s/caller/%s" % (target.rsplit("::", 1)[-1], f.name),
                               "%s is called from %s, bypassing apply_procedure's checks: %s" % (target, f.name, why), where_of(f, t))
                    continue
                if target == asp.name and site_behind_arity_checker(fb, f, b, ap.name):
                    # a second way into the code that applies a user procedure, behind a call of a function that builds the
                    # wrong-count error: the count is checked where the call is made — whether rightly is not decided by this rule
                    ctx.undecided("C08-chokepoint", "%s/caller/%s" % (target.rsplit("::", 1)[-1], f.name), "%s is called from %s behind a "
                                  "check of the argument count made there (a function that builds ArgumentMissMatch dominates the call): "
                                  "not decided by the who-may-call rule" % (target, f.name), where_of(f, t))
                    continue
                ctx.report("C08-chokepoint", "%s/caller/%s" % (target.rsplit("::", 1)[-1], f.name),
                           "%s is called from %s, bypassing apply_procedure's checks" % (target, f.name), where_of(f, t))
    # indirect calls of builtin bodies: fn(ArgVec)->Result<Value> / dyn Fn(ArgVec, Rc<Env>)
    for f in fb.all("lib"):
        for b, t in f.calls():
            if t.get("fn") is None or callee_matches(t, "std::ops::Fn::call", "std::ops::FnOnce::call_once", "std::ops::FnMut::call_mut"):
                fty = t.get("fty", "")
                argtys = " ".join(t.get("argtys", []))
                if ("smallvec::SmallVec<[values::Value<R>; 4]>" in fty or "smallvec::SmallVec<[values::Value<R>; 4]>" in argtys) \
                        and "values::Value<R>" in (fty + argtys) and "Result" in (fty + f.local_ty(t["dest"]["local"])):
                    ctx.inst("C08-chokepoint", "indirect-builtin-call@%s" % f.name)
                    if f.name != bpa.name:
                        ctx.report("C08-chokepoint", "indirect/%s" % f.name, "a builtin body is invoked through a pointer "
                                   "outside BuiltinProcedureBody::apply", where_of(f, t))
    napply = fb.find("interpreter::library::native::base::apply")
    if ap.name not in fb.reachable_from([napply.name]):
        ctx.report("C08-chokepoint", "builtin-apply", "the apply builtin does not go through apply_procedure", where_of(napply))
    ctx.floor("C08-chokepoint", 4)

    # ------------------------------------------------------------------ C08-propagation
    ctx.rule("C08-propagation", "a fault in any form of a procedure body (internal definition, non-final form, final form) stops the "
                                "application with that error; every form before it was evaluated, nothing after it is")
    from . import evaltables as _evt
    _evt.rule_body_errors(ctx, "C08-propagation")

    # ------------------------------------------------------------------ C08-arity-per-application
    ctx.rule("C08-arity-per-application", "the argument count is checked against the parameter list of the procedure "
                                          "that is about to be applied, for every source of that procedure")
    from . import evaltables
    n0 = len(ctx.reports)
    d_ar = evaltables.rule_application(ctx, "C08-arity-per-application", {"arity"})
    d_tr = evaltables.rule_trampoline(ctx, "C08-arity-per-application", {"arity"})
    if len(ctx.reports) > n0 and arity_checked_by_callers(fb, ap):
        # the table applies apply_procedure itself; on this tree every caller of it checks the count first (a function that builds
        # the ArgumentMissMatch error dominates every call of apply_procedure): what the table saw is not what a program can reach
        moved = [r for r in ctx.reports[n0:] if r["rule"] == "C08-arity-per-application"]
        ctx.reports[n0:] = [r for r in ctx.reports[n0:] if r["rule"] != "C08-arity-per-application"]
        ctx.undecided("C08-arity-per-application", "checked-by-callers", "apply_procedure applies without checking the argument count, and every "
                      "one of its callers checks it first (%d table row(s) not counted): not decided by the tables of apply_procedure" % len(moved), where_of(ap))
        arity_ok = None
    elif d_ar >= 12 and d_tr >= 3:
        arity_ok = len(ctx.reports) == n0
    else:
        with ctx.fallback():
            arity_ok = arity_rule(ctx, fb, ap, asp, bpa)
    ctx.extra_cov["arity_rule_holds"] = arity_ok

    # ------------------------------------------------------------------ C08-non-procedure
    ctx.rule("C08-non-procedure", "a non-procedure operator is Err(TypeMisMatch(_, Procedure)) on both call paths")
    ee = fb.find("interpreter::interpreter::Interpreter::eval_expression")
    vidx = dict((n, i) for i, n in fb.variants("parser::parser::ExpressionBody"))
    d_np = evaltables.rule_call_errors(ctx, "C08-non-procedure") + evaltables.rule_epc(ctx, "C08-non-procedure")
    # ... and a call whose operator is written as a literal reaches the evaluator as a call (it is not refused while reading)
    from . import readtables as _rt08
    _rt08.rule_literal_operators(ctx, "C08-non-procedure")
    def _old_nonproc():
        sw = next(iter(mir.discriminant_switches(ee, "ExpressionBody")), None)
        if not sw:
            raise mir.AnchorMissing("eval_expression does not dispatch on ExpressionBody")
        sb, place, adt, targets, other = sw
        call_arm = mir.dominated_region(ee, targets[vidx["ProcedureCall"]])
        vsw = [x for x in mir.discriminant_switches(ee, "values::Value") if x[0] in call_arm]
        pidx = fb.variant_index("values::Value", "Procedure")
        if not vsw:
            ctx.report("C08-non-procedure", "eval_expression/shape", "the operator value is not matched in the call arm "
                       "(shape not recognised)", where_of(ee))
        else:
            vb, vplace, _, vt, vo = vsw[0]
            proc_t = vt.get(pidx)
            non_t = vo if proc_t != vo else None
            if proc_t is None or non_t is None:
                ctx.report("C08-non-procedure", "eval_expression/arms", "no separate arm for non-procedure operators", where_of(ee))
            else:
                reg = mir.dominated_region(ee, non_t)
                aggs = [(v, s) for _, _, s, _, v in mir.aggregates(ee, reg)]
                has_tm = any(v == "TypeMisMatch" for v, _ in aggs)
                ty_proc = any(v == "Procedure" and "Type" in a for _, _, _, a, v in mir.aggregates(ee, reg))
                applies = [callee(t) for _, t in ee.calls(reg) if callee(t) in (ap.name, asp.name, bpa.name)]
                oks = [1 for _, _, s, _, v in mir.aggregates(ee, reg) if v == "Ok"]
                ctx.inst("C08-non-procedure", "eval_expression/non-procedure-arm", {"TypeMisMatch": has_tm, "Type::Procedure": ty_proc})
                if not (has_tm and ty_proc) or applies or oks:
                    ctx.report("C08-non-procedure", "eval_expression/non-procedure-arm", "calling a non-procedure does not end "
                               "in Err(TypeMisMatch(_, Procedure)) only (applies=%s, builds Ok=%s)" % (applies, bool(oks)), where_of(ee))
                # the located error must be returned: region reaches return without assigning the value local
        epc = fb.find("interpreter::interpreter::Interpreter::eval_procedure_call")
        exp = [(b, t) for b, t in epc.calls() if callee_matches(t, "values::Value::expect_procedure")]
        if len(exp) != 1:
            ctx.report("C08-non-procedure", "eval_procedure_call/expect", "eval_procedure_call does not test the operator with "
                       "expect_procedure", where_of(epc))
        else:
            pp = Prov(epc)
            # its result must be `?`-propagated and the Ok payload is the returned procedure
            br = [(b, t) for b, t in epc.calls() if callee_matches(t, "std::ops::Try::branch")
                  and ("call", exp[0][0], callee(exp[0][1])) in pp.op_roots(t["args"][0])]
            ctx.inst("C08-non-procedure", "eval_procedure_call/expect_procedure", {"propagated": bool(br)})
            if not br:
                ctx.report("C08-non-procedure", "eval_procedure_call/propagate", "the failure of expect_procedure is not "
                           "propagated", where_of(epc, exp[0][1]))
            # operand of expect_procedure derives from evaluating the operator expression (param 1)
            ev = [(b, t) for b, t in epc.calls() if callee(t) == ee.name and 1 in pp.arg_roots(t["args"][0])]
            if not ev:
                ctx.report("C08-non-procedure", "eval_procedure_call/operator", "operator expression is not evaluated", where_of(epc))
    ctx.guarded('C08-non-procedure', d_np >= 4, _old_nonproc)

    # ------------------------------------------------------------------ C08-operand-types
    ctx.rule("C08-operand-types", "the numeric predicates = < <= > >= on 0..3 operands one of which is not a number (every position, "
                                  "the comparisons before it holding): a type error, never an invented value")
    from . import numtables as _nt_ot
    _nt_ot.rule_operand_types(ctx, "C08-operand-types")

    # ------------------------------------------------------------------ C08-expect-tables
    ctx.rule("C08-expect-tables", "Value::expect_X is Ok exactly on variant X and Err(TypeMisMatch) otherwise")
    vvars = fb.variants("values::Value")
    nvars = fb.variants("values::Number")
    vi = {n: i for i, n in vvars}
    ni = {n: i for i, n in nvars}
    EXPECT = {
        "expect_number": lambda v, n: v == "Number",
        "expect_integer": lambda v, n: v == "Number" and n == "Integer",
        "expect_real": lambda v, n: v == "Number" and n == "Real",
        "expect_vector": lambda v, n: v == "Vector",
        "expect_list": lambda v, n: v == "Pair",
        "expect_string": lambda v, n: v == "String",
        "expect_symbol": lambda v, n: v == "Symbol",
        "expect_procedure": lambda v, n: v == "Procedure",
        "expect_boolean": lambda v, n: v == "Boolean",
    }
    for name, spec in EXPECT.items():
        f = fb.find("values::Value::" + name)
        rows = []
        for vn, vidx_ in vi.items():
            inners = list(ni.items()) if vn == "Number" else [(None, None)]
            for nn, nidx in inners:
                val = absint.Enum(vidx_, [absint.Enum(nidx, [7, 9]) if nn else absint.UNKNOWN])
                env = {1: val}
                try:
                    kind, b, env = absint.run_fragment(f, 0, env, oracle=lambda *a: None)
                    r = env.get(0)
                    got = r.name if isinstance(r, absint.Enum) and hasattr(r, "name") else "?"
                except (absint.Stuck, absint.Loop) as e:
                    got = "stuck"
                if got not in ("Ok", "Err"):
                    # written through helpers of the crate (another expect_*, an error constructor): follow them
                    from . import machine as _mach
                    try:
                        val2 = absint.Enum(vidx_, [absint.Enum(nidx, [7, 9]) if nn else absint.UNKNOWN])
                        val2.name, val2.adt = vn, "values::Value"
                        if nn:
                            val2.fields[0].name, val2.fields[0].adt = nn, "values::Number"
                        r2 = _mach.Machine(fb, max_visits=4, budget=200).run(f, [val2])
                        got = r2.name if isinstance(r2, absint.Enum) and getattr(r2, "name", None) in ("Ok", "Err") else "stuck"
                    except (absint.Stuck, absint.Loop):
                        got = "stuck"
                want = "Ok" if spec(vn, nn) else "Err"
                rows.append((vn, nn, got))
                ctx.inst("C08-expect-tables", "%s/%s%s" % (name, vn, ("/" + nn) if nn else ""), {"result": got})
                if got == "stuck":
                    ctx.undecided("C08-expect-tables", "%s/%s%s" % (name, vn, ("/" + nn) if nn else ""),
                                  "cannot follow %s on %s%s" % (name, vn, ("(" + nn + ")") if nn else ""), where_of(f))
                elif got != want:
                    ctx.report("C08-expect-tables", "%s/%s%s" % (name, vn, ("/" + nn) if nn else ""),
                               "%s(%s%s) is %s, expected %s" % (name, vn, ("(" + nn + ")") if nn else "", got, want), where_of(f))
        if not any(v == "TypeMisMatch" for _, _, _, _, v in mir.aggregates(f)) and not _err_kind_via_helpers(fb, f, vi, spec, "TypeMisMatch"):
            # (the error may be built by a helper: not evidence of anything by itself)
            ctx.undecided("C08-expect-tables", name + "/error-kind", "%s does not itself build TypeMisMatch (built elsewhere?)" % name, where_of(f))
    ctx.floor("C08-expect-tables", 9 * 10)

    # ------------------------------------------------------------------ C08-unbound
    ctx.rule("C08-unbound", "reading or assigning an unbound variable is Err(UnboundedSymbol); set! never defines")
    d_ub = evaltables.rule_symbol(ctx, "C08-unbound") + evaltables.rule_assignment(ctx, "C08-unbound")
    def _old_unbound():
        sb, place, adt, targets, other = next(iter(mir.discriminant_switches(ee, "ExpressionBody")))
        sym_arm = mir.dominated_region(ee, targets[vidx["Symbol"]])
        gets = [(b, t) for b, t in ee.calls(sym_arm) if callee_matches(t, "environment::LexicalScope::get")]
        if len(gets) != 1:
            ctx.report("C08-unbound", "eval_expression/lookup", "expected one environment lookup in the Symbol arm", where_of(ee))
        else:
            gsw = mir.result_switch_after(ee, gets[0][0])
            if not gsw:
                ctx.report("C08-unbound", "eval_expression/lookup-match", "lookup result is not matched", where_of(ee, gets[0][1]))
            else:
                none_t = gsw[1].get(0, gsw[2])
                reg = mir.dominated_region(ee, none_t)
                ub = any(v == "UnboundedSymbol" for _, _, _, _, v in mir.aggregates(ee, reg))
                err = any(v == "Err" for _, _, _, _, v in mir.aggregates(ee, reg))
                okv = [v for _, _, s, a, v in mir.aggregates(ee, reg) if a.endswith("values::Value") or v == "Ok"]
                ctx.inst("C08-unbound", "eval_expression/none-edge", {"UnboundedSymbol": ub, "Err": err, "invented": okv})
                if not (ub and err) or okv:
                    ctx.report("C08-unbound", "eval_expression/none-edge", "an unbound variable does not end in "
                               "Err(UnboundedSymbol) (invented value: %s)" % okv, where_of(ee, gets[0][1]))
                # env of lookup = param env; name = the symbol payload
                pe = Prov(ee)
                if 2 not in pe.arg_roots(gets[0][1]["args"][0]):
                    ctx.report("C08-unbound", "eval_expression/env", "lookup is not performed in the current environment", where_of(ee))
        # assignment arm: env.set(name, value)? propagated
        asg_arm = mir.dominated_region(ee, targets[vidx["Assignment"]])
        sets = [(b, t) for b, t in ee.calls(asg_arm) if callee_matches(t, "environment::LexicalScope::set")]
        defs_in_asg = [(b, t) for b, t in ee.calls(asg_arm) if callee_matches(t, "environment::LexicalScope::define")]
        ctx.inst("C08-unbound", "eval_expression/assignment", {"set": len(sets), "define": len(defs_in_asg)})
        if len(sets) != 1 or defs_in_asg:
            ctx.report("C08-unbound", "eval_expression/assignment", "set! must call LexicalScope::set exactly once and never "
                       "define (found %d/%d)" % (len(sets), len(defs_in_asg)), where_of(ee))
        else:
            pe = Prov(ee)
            br = [(b, t) for b, t in ee.calls(asg_arm) if callee_matches(t, "std::ops::Try::branch")
                  and ("call", sets[0][0], callee(sets[0][1])) in pe.op_roots(t["args"][0])]
            if not br:
                ctx.report("C08-unbound", "eval_expression/assignment-error", "the result of LexicalScope::set is not "
                           "propagated", where_of(ee, sets[0][1]))
    ctx.guarded('C08-unbound', d_ub >= 4, _old_unbound)

    scope_set_rule(ctx, fb)
    state_restored_rule(ctx, fb)

    # ------------------------------------------------------------------ C08-vector
    ctx.rule("C08-vector", "vector index misses are Err(VectorIndexOutOfBounds); no indexing operator on vector storage; "
                           "exact division tests every divisor for zero")
    for f in fb.all("lib"):
        for b, t in f.calls():
            if callee_matches(t, "std::ops::Index>::index", "std::ops::IndexMut>::index_mut", "std::ops::Index::index",
                              "std::ops::IndexMut::index_mut") and "values::Value" in " ".join(t.get("argtys", [])):
                from . import bounds as _bounds
                if _bounds.index_in_range(f, b, t):
                    continue            # (an index a dominating test shows to be below the length cannot miss)
                if not any("Vec<values::Value" in str(x) or "[values::Value" in str(x) for x in t.get("argtys", [])[:1]):
                    continue            # (a container that merely holds values somewhere inside, e.g. (name, value) pairs: not vector storage)
                short_ = f.name.split("::{closure")[0].rsplit("::", 1)[-1]
                if short_ in ("vector_ref", "vector_set") and evaltables.vector_access_is_safe(fb, short_):
                    continue            # (the vector table ran this builtin on every index class: no panic, misses are errors)
                ctx.report("C08-vector", "%s/index-operator" % f.name, "%s indexes a Vec<Value> with the panicking "
                           "operator" % f.name, where_of(f, t))
        for b, i, s in f.stmts():
            # `v[k]` on a slice lowers to an Index projection guarded by a BoundsCheck assert
            if s["k"] == "assign":
                for pl in mir.rv_places(s["rv"]):
                    if any(e["k"] == "index" for e in pl["proj"]) and "values::Value" in f.local_ty(pl["local"]):
                        lt_ = (f.local_ty(pl["local"]) or "").replace("&mut ", "").replace("&", "").strip()
                        if not (lt_.startswith("[values::Value<") or lt_.startswith("std::vec::Vec<values::Value<")):
                            continue        # (an array of names, of functions returning values, ...: not the storage of a Scheme vector)
                        from . import bounds as _bounds2
                        prs_ = [p_ for p_ in f.preds().get(b, ()) if not f.blocks[p_]["cleanup"]]
                        if len(prs_) == 1 and f.blocks[prs_[0]]["term"]["k"] == "assert" and f.blocks[prs_[0]]["term"].get("kind") == "BoundsCheck" \
                                and _bounds2.bounds_check_holds(f, prs_[0], f.blocks[prs_[0]]["term"]):
                            continue        # (the index is below the length by a dominating test)
                        ctx.report("C08-vector", "%s/index-projection" % f.name, "%s indexes value storage with `[]`" % f.name,
                                   where_of(f, span=s["span"]))
    d_vec = evaltables.rule_vector(ctx, "C08-vector")
    for name in (("vector_ref", "vector_set") if d_vec < 16 else ()):
      with ctx.fallback():
          f = fb.find("interpreter::library::native::base::" + name)
          g = [(b, t) for b, t in f.calls() if callee_matches(t, "<impl [T]>::get", "<impl [T]>::get_mut", "Vec::get", "Vec::get_mut")]
          if len(g) != 1:
              ctx.report("C08-vector", name + "/access", "element access shape not recognised (%d checked accesses)" % len(g), where_of(f))
              continue
          gsw = mir.result_switch_after(f, g[0][0])
          none_t = gsw[1].get(0, gsw[2]) if gsw else None
          reg = mir.dominated_region(f, none_t) if none_t is not None else set()
          oob = any(v == "VectorIndexOutOfBounds" for _, _, _, _, v in mir.aggregates(f, reg))
          okv = any(v == "Ok" for _, _, _, _, v in mir.aggregates(f, reg))
          ctx.inst("C08-vector", name + "/miss-edge", {"VectorIndexOutOfBounds": oob, "builds_ok": okv})
          if not oob or okv:
              ctx.report("C08-vector", name + "/miss-edge", "an out-of-range index does not end in "
                         "Err(VectorIndexOutOfBounds)", where_of(f, g[0][1]))
          # index operand must be the expect_integer result cast to usize, not clamped / wrapped
          pf = Prov(f)
          idx = g[0][1]["args"][1]
          reach = pf.reach_locals(mir.op_local(idx)) if mir.op_local(idx) is not None else set()
          arith = [s for _, _, s in f.stmts() if s["k"] == "assign" and s["place"]["local"] in reach and s["rv"]["k"] == "binop"]
          calls_between = [callee(t) for _, t in f.calls() if t["dest"]["local"] in reach and not pf.is_pass(t)]
          if arith or any(c and not c.endswith("expect_integer") for c in calls_between):
              ctx.report("C08-vector", name + "/index-arith", "the index is transformed before the bounds test (%s)" % (
                  [s["rv"]["op"] for s in arith] + [c for c in calls_between if c and not c.endswith("expect_integer")]), where_of(f))
    div_zero_rule(ctx, fb)

    # ------------------------------------------------------------------ C08-no-swallow
    ctx.rule("C08-no-swallow", "no Result carrying a SchemeError is discarded, defaulted or tested-and-ignored")
    no_swallow(ctx, fb)
    return EXPLANATION, NOT_DECIDED


# =============================================================================================


def arity_rule(ctx, fb, ap, asp, bpa):
    ok = True
    PF_LEN = "ParameterFormalsBody>>::len"
    p = Prov(ap, passthrough_extra=("values::Procedure::get_parameters",))
    psw = [x for x in mir.discriminant_switches(ap, "values::Procedure")]
    if not psw:
        ctx.report("C08-arity-per-application", "apply_procedure/dispatch", "apply_procedure does not dispatch on Procedure", where_of(ap))
        return False
    sb, place, _, targets, other = psw[0]
    P = place["local"]
    proots = {r for r in p.roots(P) if r[0] in ("arg", "call")}
    loops = ap.loops()
    dom = ap.dominators()
    apps = [(b, t) for b, t in ap.calls() if callee(t) in (asp.name, bpa.name)]
    # arity checks in apply_procedure
    checks = find_arity_checks(ap, p, args_hint=2)
    for (cb, X_roots, table_ok, why) in checks:
        ctx.inst("C08-arity-per-application", "apply_procedure/check@%s" % sorted(r[0] + str(r[1]) for r in X_roots),
                 {"covers": sorted(str(r) for r in X_roots), "table_ok": table_ok})
        if not table_ok:
            ok = False
            ctx.report("C08-arity-per-application", "apply_procedure/check-table", "the arity comparison does not implement "
                       "`too few, or too many without a rest parameter`: %s" % why, where_of(ap))
    # checks delegated to a helper: g(.., procedure, ..)? where g compares the argument count with the formals of
    # its parameter on every path to a normal return
    for hb, ht in ap.calls():
        g = fb.by_path(callee(ht) or "")
        if g is None or g.name in (asp.name, bpa.name, ap.name) or ap.blocks[hb]["cleanup"]:
            continue
        pg = Prov(g, passthrough_extra=("values::Procedure::get_parameters",))
        gdom = g.dominators()
        for (cb, gX, table_ok, why) in find_arity_checks(g, pg, args_hint=None):
            if not all(cb in gdom[rb] for rb in g.return_blocks()):
                continue
            # the helper's verdict must be propagated with `?`
            propagated = any(callee_matches(tt, "std::ops::Try::branch") and ("call", hb, callee(ht)) in p.op_roots(tt["args"][0])
                             for _, tt in ap.calls())
            for r in gX:
                if r[0] != "arg" or r[1] - 1 >= len(ht["args"]) or not propagated:
                    continue
                X_roots = {x for x in p.op_roots(ht["args"][r[1] - 1]) if x[0] in ("arg", "call")}
                checks.append((hb, X_roots, table_ok, why))
                ctx.inst("C08-arity-per-application", "apply_procedure/check-via-%s@%s" % (
                    g.name.rsplit("::", 1)[-1], sorted(x[0] + str(x[1]) for x in X_roots)),
                    {"covers": sorted(str(x) for x in X_roots), "table_ok": table_ok})
                if not table_ok:
                    ok = False
                    ctx.report("C08-arity-per-application", "apply_procedure/check-table", "the arity comparison in %s does not "
                               "implement `too few, or too many without a rest parameter`: %s" % (g.name, why), where_of(g))
    # callee-side check in apply_scheme_procedure (covers the User arm for every source)
    pas = Prov(asp)
    callee_checks = find_arity_checks(asp, pas, args_hint=5)
    user_side = False
    for (cb, X_roots, table_ok, why) in callee_checks:
        if ("arg", 1) in X_roots and table_ok:
            firstdef = [b for b, t in asp.calls() if callee_matches(t, "LexicalScope::define") or callee_matches(t, "iter_to_last")]
            if firstdef and all(cb in asp.dominators()[b] for b in firstdef):
                user_side = True
                ctx.inst("C08-arity-per-application", "apply_scheme_procedure/check", {"dominates_binding": True})
    for ab, at in apps:
        is_user = callee(at) == asp.name
        for r in sorted(proots, key=str):
            key = "%s/%s" % ("user" if is_user else "builtin", "initial" if r[0] == "arg" else (r[2] or "call").rsplit("::", 1)[-1])
            covered = False
            if is_user and user_side:
                covered = True
            for (cb, X_roots, table_ok, why) in checks:
                if r not in X_roots or cb not in dom[ab]:
                    continue
                # a source produced inside the function (the tail call on the back edge): every path from
                # its definition to the application must pass the check again
                if r[0] == "call":
                    nxt = ap.blocks[r[1]]["term"].get("target")
                    if nxt is None or mir.paths_avoiding(ap, nxt, [ab], [cb]) is not None:
                        continue
                covered = True
            ctx.inst("C08-arity-per-application", key, {"covered": covered})
            ctx.oblige(covered)
            if not covered:
                ok = False
                what = ("the procedure returned by the tail call (%s)" % r[2]) if r[0] == "call" else "the initial procedure"
                ctx.report("C08-arity-per-application", key,
                           "no argument-count check against the formals of %s dominates the %s application: a procedure "
                           "reached through a tail call is applied with any number of arguments" % (
                               what, "user-procedure" if is_user else "builtin"), where_of(ap, at))
    if not apps:
        ctx.report("C08-arity-per-application", "apply_procedure/apps", "no application sites found", where_of(ap))
        ok = False
    return ok


def find_arity_checks(f, p, args_hint):
    """Comparisons of `args.len()` with the fixed length of some formals in f.
    Returns [(block of the first comparison, roots of the procedure/formals operand, table_ok, why)]."""
    out = []
    for b, t in f.calls():
        if not (callee(t) or "").endswith("ParameterFormalsBody>>::len"):
            continue
        X_roots = {r for r in p.op_roots(t["args"][0]) if r[0] in ("arg", "call")}
        dest = t["dest"]["local"]
        start = t.get("target")
        if start is None:
            continue
        # is the result compared with a length of the argument vector?
        cmp_blocks = []
        tp = p.taint_reach
        for bb, i, s in f.stmts():
            if s["k"] == "assign" and s["rv"]["k"] == "binop" and s["rv"]["op"] in ("Lt", "Gt", "Le", "Ge", "Eq", "Ne"):
                l, r = mir.op_local(s["rv"]["l"]), mir.op_local(s["rv"]["r"])
                if l is None or r is None:
                    continue
                tl, tr = p.taint_reach(l), p.taint_reach(r)
                if (dest in tl) != (dest in tr):
                    other = tr if dest in tl else tl
                    if any(callee_matches(tt, "SmallVec::len", "Vec::len", "<impl [T]>::len") and tt["dest"]["local"] in other
                           for _, tt in f.calls()):
                        cmp_blocks.append(bb)
        if not cmp_blocks:
            continue
        # decision table: walk from `start` with abstract (L, fixed, variadic)
        table_ok, why = True, ""
        err_blocks = {bb for bb, _, _, _, v in mir.aggregates(f) if v == "ArgumentMissMatch"}
        for L in range(0, 4):
            for fixed in range(0, 4):
                for var in (False, True):
                    env = {dest: [fixed, var]}

                    def oracle(ff, bb, tt, env, L=L):
                        if callee_matches(tt, "SmallVec::len", "Vec::len", "<impl [T]>::len"):
                            return L
                        return ("__stop__",)
                    try:
                        kind, sb, env2 = absint.run_fragment(f, start, env, oracle=oracle, stuck_ok=True)
                    except absint.Loop as e:
                        table_ok, why = False, "shape not recognised (%s)" % e
                        break
                    # classify the stop: error construction reachable *only*, or continues
                    reach = f.reachable(sb)
                    rejects = bool(err_blocks & mir.dominated_region(f, sb)) or sb in err_blocks or \
                        any(x in err_blocks for x in _straight(f, sb))
                    want = L < fixed or (L > fixed and not var)
                    if rejects != want:
                        table_ok = False
                        why = "count=%d fixed=%d variadic=%s -> %s (expected %s)" % (
                            L, fixed, var, "error" if rejects else "accepted", "error" if want else "accepted")
                        break
                if not table_ok:
                    break
            if not table_ok:
                break
        out.append((min(cmp_blocks), X_roots, table_ok, why))
    return out


def _straight(f, b, n=12):
    """blocks on the single-successor chain from b"""
    out = [b]
    for _ in range(n):
        s = f.succs(b)
        if len(s) != 1:
            break
        b = s[0]
        out.append(b)
    return out


CELL_WRITES = ("Cell::set", "Cell::replace", "Cell::take", "Cell::swap", "Cell::update", "RefCell::borrow_mut", "RefCell::replace", "RefCell::replace_with",
               "RefCell::swap", "RefCell::take", "Cell<T>::set", "Cell<T>::replace", "RefCell<T>::borrow_mut", "RefCell<T>::replace")


def site_behind_arity_checker(fb, f, b, ap_name=None):
    """is the call at block b of f dominated by a call, in f, of a function of the crate that builds the ArgumentMissMatch error (the
    argument count checked where the call is made)?  Whether that check is the right one is not decided here."""
    checkers = {g.name for g in fb.all("lib") if g.name != ap_name and not g.derived and "::tests::" not in g.name
                and any(v == "ArgumentMissMatch" for _, _, _, _, v in mir.aggregates(g))}
    if f.name in checkers:
        return True
    dom = f.dominators()
    chk = [bb for bb, tt in f.calls() if callee(tt) in checkers]
    return any(bb in dom.get(b, ()) and bb != b for bb in chk)


def arity_checked_by_callers(fb, ap):
    """does every call of apply_procedure (outside itself) sit behind a call, in the same function, of one function of the crate that
    builds the ArgumentMissMatch error — the count checked where the call is made instead of where it is applied?"""
    checkers = {g.name for g in fb.all("lib") if g.name != ap.name and not g.derived and "::tests::" not in g.name
                and any(v == "ArgumentMissMatch" for _, _, _, _, v in mir.aggregates(g))}
    if not checkers:
        return False
    sites = [(f, b, t) for f, b, t in fb.call_sites(lambda t: callee(t) == ap.name) if f.name.split("::{closure")[0] != ap.name
             and "::tests::" not in f.name and not f.name.endswith("_test")]
    if not sites:
        return False
    for f, b, t in sites:
        if f.name in checkers:
            continue                       # (the caller builds the error itself)
        dom = f.dominators()
        chk = [bb for bb, tt in f.calls() if callee(tt) in checkers]
        if not any(bb in dom.get(b, ()) and bb != b for bb in chk):
            return False
    return True


def state_restored_rule(ctx, fb):
    """per-thread state that a function writes on the way in and writes again on the way out (a depth counter, a saved-and-restored
    setting): if every normal way out passes the second write but an error exit (`?`) does not, the failed form leaves the state
    behind and later forms are evaluated under it.  (One-sided pairing: the code itself says the second write belongs to the way
    out.)"""
    ctx.rule("C08-state-restored", "after an error the interpreter evaluates later forms as before: per-thread state written on entry of a "
                                   "function and written back on its normal exits is written back on its error exits too")
    n_keys = 0
    for f in fb.all("lib"):
        if f.derived or "::tests::" in f.name:
            continue
        by_key = {}
        for b, t in f.calls():
            c = callee(t) or ""
            if not c.startswith("std::thread::LocalKey::") or f.blocks[b]["cleanup"]:
                continue
            meth = c.rsplit("::", 1)[-1]
            writes = meth in ("set", "replace", "take", "update", "with_borrow_mut")
            if meth in ("with", "try_with") and len(t.get("args", [])) > 1:
                clo = mir.trace_aggregate(f, t["args"][1])
                cf = fb.by_path(mir.norm(clo["kind"]["def"]), f.crate) if clo and clo.get("kind", {}).get("k") == "closure" else None
                if cf is not None:
                    writes = any(callee_matches(tt, *CELL_WRITES) for _, tt in cf.calls())
            key = mir.tls_key(f, t)
            if key is None:
                continue
            by_key.setdefault(key, []).append((b, writes))
        for key, sites in sorted(by_key.items()):
            W = sorted({b for b, wr in sites if wr})
            if len(W) < 2:
                continue
            dom = f.dominators()
            firsts = [w for w in W if all(w in dom.get(x, ()) for x in W)]
            if len(firsts) != 1:
                continue
            first = firsts[0]
            later = [w for w in W if w != first]
            start = f.blocks[first]["term"].get("target")
            if start is None:
                continue
            rets = f.return_blocks()
            n_keys += 1
            residual = [b for b, t in f.calls() if callee_matches(t, "FromResidual>::from_residual", "FromResidual::from_residual")]
            skipping = mir.paths_avoiding(f, start, rets, later)
            skipping_normal = mir.paths_avoiding(f, start, rets, later + residual)
            short = key.rsplit("::", 1)[-1]
            ctx.inst("C08-state-restored", "%s/%s" % (f.name.rsplit("::", 1)[-1], short), {"writes": len(W), "exit_skipping_the_later_writes": bool(skipping),
                                                                                           "normal_exit_skipping_them": bool(skipping_normal)})
            ctx.oblige(not (skipping and not skipping_normal))
            if skipping and not skipping_normal:
                ctx.report("C08-state-restored", "%s/%s" % (f.name.rsplit("::", 1)[-1], short),
                           "%s writes the per-thread state %s on the way in and writes it again on every normal way out, but an error exit "
                           "(`?`, blocks %s) returns without the second write: a form that fails here leaves the state behind, and later "
                           "forms (on any interpreter of the thread) are evaluated under it" % (f.name, key, skipping[-4:]), where_of(f))
    ctx.inst("C08-state-restored", "functions-with-paired-thread-local-writes", {"count": n_keys})


def scope_set_rule(ctx, fb):
    f = fb.find("environment::LexicalScope::set")
    # semantics on a chain of three frames (scopes.py): no frame binds the name -> Err(UnboundedSymbol) and nothing is written
    from . import scopes
    for found in scopes.subsets(3):
        r = scopes.walk(fb, "set", found, 3)
        key = "LexicalScope::set/bound-in=%s" % sorted(found)
        ctx.inst("C08-unbound", key, {"result": r.get("result"), "stores": [list(x) for x in r.get("stores", [])], "stuck": r.get("stuck")})
        if "stuck" in r:
            ctx.undecided("C08-unbound", key, "cannot follow LexicalScope::set (%s)" % r["stuck"], where_of(f))
        elif not found and (r["result"] != "Err" or r["stores"] or r["inserts"]):
            ctx.report("C08-unbound", key, "assigning an unbound name gives %s (stores %s, inserts %s), expected an error and "
                       "no effect" % (r["result"], r["stores"], r["inserts"]), where_of(f))
        elif not found and "UnboundedSymbol" not in r.get("result_variants", []):
            ctx.report("C08-unbound", "LexicalScope::set/error-kind", "assigning an unbound name fails with %s, expected UnboundedSymbol" % (
                [x for x in r.get("result_variants", []) if x not in ("Err", "Located", "None", "Some")],), where_of(f))
        elif found and r["result"] != "Ok":
            ctx.report("C08-unbound", key, "assigning a bound name gives %s, expected Ok" % r["result"], where_of(f))


def div_zero_rule(ctx, fb):
    # decided by the symbolic division table (numtables.py): on the grid, division by an exact zero — and nothing else — is an
    # error, every other quotient is exact, and the compiler's divide-by-zero assertions are unreachable with a zero divisor
    from . import numtables
    d_tab = numtables.rule_exact_arith(ctx, "C08-vector", {"/": "<values::Number as std::ops::Div>::div"})
    z_tab = numtables.rule_zero_guards(ctx, "C08-vector")
    if d_tab >= 1 and z_tab is not None:
        return
    with ctx.fallback():
        _div_zero_shape_rule(ctx, fb)


def _div_zero_shape_rule(ctx, fb):
    f = fb.find("<values::Number as std::ops::Div>::div")
    p = Prov(f)
    dom = f.dominators()
    # guards: check_division_by_zero(x) followed by `?`; guarded operand roots
    guards = []
    for b, t in f.calls():
        if callee_matches(t, "values::check_division_by_zero"):
            # Continue edge
            for bb, tt in f.calls():
                if callee_matches(tt, "std::ops::Try::branch") and ("call", b, callee(t)) in p.op_roots(tt["args"][0]):
                    sw = mir.result_switch_after(f, bb)
                    if sw and sw[1].get(0) is not None:
                        guards.append((sw[1][0], mir.trace_access(f, t["args"][0]), p.reach_locals(mir.op_local(t["args"][0]))))
    ctx.inst("C08-vector", "div/guards", [g[1] for g in guards])

    def guarded(o, at_block):
        acc = mir.trace_access(f, o)
        l = mir.op_local(o)
        rl = p.reach_locals(l) if l is not None else set()
        for cont, gacc, greach in guards:
            if cont in dom[at_block] and gacc == acc:
                return True
        return False
    n = 0
    for b, i, s in f.stmts():
        if s["k"] != "assign" or f.blocks[b]["cleanup"]:
            continue
        rv = s["rv"]
        if rv["k"] == "binop" and rv["op"] in ("Div", "Rem") and rv.get("lty") == "i32":
            n += 1
            g = guarded(rv["r"], b)
            ctx.inst("C08-vector", "div/%s@%s" % (rv["op"], mir.trace_access(f, rv["r"])), {"guarded": g})
            ctx.oblige(g)
            if not g:
                ctx.report("C08-vector", "div/%s-unguarded" % rv["op"], "exact %s whose divisor is not tested for zero" % rv["op"],
                           where_of(f, span=s["span"]))
        if rv["k"] == "aggregate" and rv["kind"].get("variant") == "Rational" and rv["kind"]["k"] == "adt" \
                and mir.norm(rv["kind"]["adt"]).endswith("values::Number"):
            n += 1
            den = rv["ops"][1]
            # the denominator is a product / copy of operands: every multiplicative factor must be guarded
            factors = _factors(f, den)
            allg = all(guarded(x, b) for x in factors) and bool(factors)
            ctx.inst("C08-vector", "div/Rational-denominator", {"factors": [mir.trace_access(f, x) for x in factors], "guarded": allg})
            ctx.oblige(allg)
            if not allg:
                ctx.report("C08-vector", "div/rational-denominator-unguarded", "a ratio is built whose denominator has a "
                           "factor that is not tested for zero", where_of(f, span=s["span"]))
    # ratio constructors reached through a helper (e.g. a sign-normalising constructor): the argument that
    # becomes the denominator must be guarded at the call site
    for b, t in f.calls():
        g = fb.by_path(callee(t) or "")
        if g is None or f.blocks[b]["cleanup"]:
            continue
        pg = Prov(g)
        den_params = set()
        for bb, i, s in g.stmts():
            rv = s.get("rv") or {}
            if s["k"] == "assign" and rv.get("k") == "aggregate" and rv["kind"].get("variant") == "Rational" \
                    and rv["kind"]["k"] == "adt" and mir.norm(rv["kind"]["adt"]).endswith("values::Number"):
                l = mir.op_local(rv["ops"][1])
                if l is not None:
                    den_params |= {a for a in range(1, g.arg_count + 1) if a in pg.taint_reach(l)}
        for k in sorted(den_params):
            n += 1
            den = t["args"][k - 1]
            factors = _factors(f, den)
            allg = all(guarded(x, b) for x in factors) and bool(factors)
            ctx.inst("C08-vector", "div/Rational-denominator-via-%s" % g.name.rsplit("::", 1)[-1],
                     {"factors": [mir.trace_access(f, x) for x in factors], "guarded": allg})
            ctx.oblige(allg)
            if not allg:
                ctx.report("C08-vector", "div/rational-denominator-unguarded", "a ratio is built (through %s) whose denominator "
                           "has a factor that is not tested for zero" % g.name, where_of(f, t))
    if n < 3:
        ctx.report("C08-vector", "div/floor", "expected the integer and rational division sites in Div::div (found %d)" % n, where_of(f))
    if not any(v == "DivisionByZero" for _, _, _, _, v in mir.aggregates(fb.find("values::check_division_by_zero"))):
        ctx.report("C08-vector", "check_division_by_zero/kind", "check_division_by_zero does not build DivisionByZero", None)
    # decision table of check_division_by_zero
    cz = fb.find("values::check_division_by_zero")
    for v in (-3, 0, 5):
        try:
            kind, b, env = absint.run_fragment(cz, 0, {1: v}, oracle=lambda *a: None)
        except (absint.Stuck, absint.Loop) as e:
            ctx.undecided("C08-vector", "check_division_by_zero/table", "cannot follow check_division_by_zero(%d): %s" % (v, e), where_of(cz))
            continue
        r = env.get(0)
        res = getattr(r, "name", "?")
        ctx.inst("C08-vector", "check_division_by_zero(%d)" % v, {"result": res})
        if (res == "Err") != (v == 0):
            ctx.report("C08-vector", "check_division_by_zero/table", "check_division_by_zero(%d) = %s" % (v, res), where_of(cz))


def _same_source(f, a, b):
    return bool(a & b)


def _factors(f, o, depth=6):
    """Leaves of a product expression (through checked multiplication tuples)."""
    l = mir.op_local(o)
    if l is None:
        return [o]
    ds = mir.defs_of(f).get(l, [])
    if len(ds) != 1 or ds[0][0] != "stmt" or depth == 0:
        return [o]
    rv = ds[0][3]["rv"]
    if rv["k"] == "use":
        pl = mir.op_place(rv["op"])
        if pl is not None and pl["proj"]:
            # `.0` of a checked-arithmetic tuple
            inner = {"k": "copy", "place": {"local": pl["local"], "proj": []}}
            if all(e["k"] == "field" and e["i"] == 0 for e in pl["proj"]):
                dd = mir.defs_of(f).get(pl["local"], [])
                if len(dd) == 1 and dd[0][0] == "stmt" and dd[0][3]["rv"]["k"] == "binop":
                    return _factors(f, inner, depth - 1)
            return [o]
        return _factors(f, rv["op"], depth - 1)
    if rv["k"] == "binop" and rv["op"] in ("Mul", "MulWithOverflow", "MulUnchecked"):
        return _factors(f, rv["l"], depth - 1) + _factors(f, rv["r"], depth - 1)
    return [o]


def _parses_only_compiled_text(f):
    """f takes no arguments and every character stream it makes is made from a string constant compiled into the binary."""
    if f.arg_count != 0:
        return False
    chars = [t for _, t in f.calls() if callee_matches(t, "<impl str>::chars")]
    if not chars or any(mir.str_of(f, t["args"][0]) is None for t in chars):
        return False
    # no other source of text: no file, no argument, no static
    return not any(callee_matches(t, "file_char_stream", "std::fs::", "std::io::", "std::env::") for _, t in f.calls())


def _err_kind_via_helpers(fb, f, vi, spec, kind):
    """The Err of f on a value of another variant, with the crate's helpers followed, holds an error of the given kind."""
    from . import machine as _mach
    for vn, vidx_ in vi.items():
        if vn == "Number" or spec(vn, None):
            continue
        val = absint.Enum(vidx_, [absint.UNKNOWN])
        val.name, val.adt = vn, "values::Value"
        try:
            r = _mach.Machine(fb, max_visits=4, budget=200).run(f, [val])
        except (absint.Stuck, absint.Loop):
            continue
        seen = []

        def walk(v, d=0):
            if d > 8:
                return
            if isinstance(v, absint.Enum):
                if getattr(v, "name", None):
                    seen.append(v.name)
                for x in v.fields:
                    walk(x, d + 1)
            elif isinstance(v, list):
                for x in v:
                    walk(x, d + 1)
        walk(r)
        return kind in seen
    return False


def no_swallow(ctx, fb):
    SWALLOW = ("std::result::Result::ok", "std::result::Result::unwrap_or", "std::result::Result::unwrap_or_default",
               "std::result::Result::unwrap_or_else", "std::result::Result::is_ok", "std::result::Result::is_err",
               "std::result::Result::err", "std::result::Result::map_or", "std::result::Result::map_or_else",
               "std::result::Result::or", "std::result::Result::or_else", "std::result::Result::iter",
               "std::iter::Iterator::flatten", "std::iter::Iterator::filter_map", "std::iter::Iterator::flat_map",
               "std::option::Option::is_some", "std::option::Option::is_none")
    # Parser::advance(count) skips count-1 tokens without inspecting them; that loop is dead as long as every
    # call site passes a constant <= 1 (checked here), so no reader error can be dropped by it.
    adv_ok = True
    for f in fb.all("lib"):
        for b, t in f.calls():
            if callee_matches(t, "parser::parser::Parser::advance", "parser::parser::Parser::advance_unwrap",
                              "parser::parser::Parser::advance_unwrap_take", "parser::parser::Parser::expect_next_nth"):
                cnt = t["args"][1] if len(t["args"]) > 1 else None
                c = mir.trace_const(f, cnt) if cnt is not None else None
                v = c.get("val") if c else None
                if f.name.startswith("parser::parser::Parser::") and f.name.rsplit("::", 1)[-1] in (
                        "advance_unwrap", "advance_unwrap_take", "expect_next_nth") and v is None:
                    continue  # forwards its own `count` parameter
                if not (isinstance(v, int) and v <= 1):
                    adv_ok = False
                    ctx.report("C08-no-swallow", "Parser::advance/count/%s" % f.name, "Parser::advance is called with a "
                               "count that is not a constant <= 1: skipped tokens (and their reader errors) are dropped",
                               where_of(f, t))
    ALLOW = {
        # function-name -> (callee suffix, reason)
        "parser::parser::Parser::advance": ("discarded/next", "skip loop is dead: every call site passes count <= 1 (checked)"),
        "parser::parser::create_syntax_binding::BINDINGS::__rust_std_internal_init_fn":
            ("is_some", "constant input grammar.sld; its well-formedness is decided statically by C05-wellformed"),
    }
    n = 0
    for f in fb.all("lib"):
        if f.derived:
            continue
        for b, t in f.calls():
            dl = t["dest"]["local"]
            dty = f.local_ty(dl)
            if not ((dty.startswith("std::result::Result<") or dty.startswith("std::option::Option<std::result::Result<"))
                    and SCHEME_ERR in dty):
                continue
            n += 1
            # uses of the destination local
            uses = []
            for bb, tt in f.calls():
                for a in tt["args"]:
                    if mir.op_local(a) == dl:
                        uses.append(("call", callee(tt), bb, tt))
                    else:
                        # through a reference to the local
                        l = mir.op_local(a)
                        if l is not None:
                            ds = mir.defs_of(f).get(l, [])
                            if len(ds) == 1 and ds[0][0] == "stmt" and ds[0][3]["rv"]["k"] == "ref" \
                                    and ds[0][3]["rv"]["place"]["local"] == dl and not ds[0][3]["rv"]["place"]["proj"]:
                                uses.append(("call", callee(tt), bb, tt))
            moved = False
            for bb, i, s in f.stmts():
                if s["k"] == "assign":
                    for pl in mir.rv_places(s["rv"]):
                        if pl["local"] == dl:
                            if s["rv"]["k"] == "discriminant":
                                uses.append(("match", None, bb, None))
                            elif s["rv"]["k"] == "ref":
                                pass
                            else:
                                uses.append(("move", None, bb, None))
            if dl == 0:
                uses.append(("return", None, b, None))
            bad = [u for u in uses if u[0] == "call" and u[1] and any(u[1] == s_ or u[1].endswith(s_.split("std::")[-1]) for s_ in SWALLOW)]
            owner = f.name
            for u in bad:
                al = ALLOW.get(owner)
                short = u[1].rsplit("::", 1)[-1]
                if al is None and short in ("is_some", "is_none") and _parses_only_compiled_text(f):
                    # the loader of the bundled derived forms, wherever a restructuring put it: a function without
                    # parameters whose only text is a compiled-in constant drains its parser with next().is_some()/is_none()
                    al = (short, ALLOW["parser::parser::create_syntax_binding::BINDINGS::__rust_std_internal_init_fn"][1])
                if al and short == al[0]:
                    ctx.inst("C08-no-swallow", "%s/allowed/%s" % (owner, short), {"reason": al[1]})
                    continue
                ctx.report("C08-no-swallow", "%s/%s" % (owner, short),
                           "the SchemeError result of %s is consumed by %s in %s (error dropped or replaced)" % (
                               callee(t), u[1], owner), where_of(f, u[3]))
            if not uses and ALLOW.get(owner, ("",))[0] == "discarded/" + (callee(t) or "?").rsplit("::", 1)[-1] and adv_ok:
                ctx.inst("C08-no-swallow", "%s/allowed/discarded" % owner, {"reason": ALLOW[owner][1]})
            elif not uses:
                # never used: only legal if dropped... which discards the error
                ctx.report("C08-no-swallow", "%s/discarded/%s" % (owner, (callee(t) or "?").rsplit("::", 1)[-1]),
                           "the SchemeError result of %s is never inspected in %s" % (callee(t), owner), where_of(f, t))
            ctx.inst("C08-no-swallow", "%s<-%s" % (owner, (callee(t) or "indirect").rsplit("::", 1)[-1]), None, nontrivial=False)
    ctx.extra_cov["result_sites_examined"] = n
    if n < 150:
        ctx.undecided("C08-no-swallow", "floor", "only %d Result<_, SchemeError> producing calls found (expected > 150)" % n)
