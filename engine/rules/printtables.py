"""Printer tables: the text `Display for Value` produces for value skeletons whose leaves are opaque (holes), by abstract
evaluation of the printer (machine.py), and what the reader's lexer (lexrun.py) makes of that text once the holes are filled
with atoms.  Independent of how the printer is split into functions or which formatting API it uses."""
from . import absint, machine, mir, lexrun
from .absint import Enum, UNKNOWN
from .machine import Machine, Sink, Text, Hole, NOT


class Tok:
    def __init__(self, tag):
        self.tag = tag

    def __repr__(self):
        return "<%s>" % self.tag


class Mk:
    def __init__(self, fb):
        self.fb = fb
        self.vi = dict((n, i) for i, n in fb.variants("values::Value"))
        self.gp = dict((n, i) for i, n in fb.variants("parser::pair::GenericPair"))
        self.num = dict((n, i) for i, n in fb.variants("values::Number"))
        self.vr = dict((n, i) for i, n in fb.variants("values::ValueReference"))

    def e(self, m, adt, name, *f):
        x = Enum(m[name], list(f))
        x.name, x.adt = name, adt
        return x

    def value(self, name, *f):
        return self.e(self.vi, "values::Value", name, *f)

    def number(self, name, *f):
        return self.value("Number", self.e(self.num, "values::Number", name, *f))

    def leaf(self, tag):
        """an opaque element: a symbol whose name is a hole"""
        return self.value("Symbol", Tok(tag))

    def lst(self, items, tail=None):
        t = tail if tail is not None else self.value("Pair", self.e(self.gp, "parser::pair::GenericPair", "Empty"))
        for x in reversed(items):
            t = self.value("Pair", self.e(self.gp, "parser::pair::GenericPair", "Some", x, t))
        return t

    def vec(self, items, mutable=False):
        return self.value("Vector", self.e(self.vr, "values::ValueReference", "Mutable" if mutable else "Immutable", list(items)))


def print_value(fb, v):
    fmt = fb.find("<values::Value as std::fmt::Display>::fmt")
    sink = Sink()
    mc = Machine(fb, max_visits=12, budget=600)
    try:
        mc.run(fmt, [v, sink])
    except (absint.Stuck, absint.Loop) as e:
        return ("stuck", str(e))
    return sink.text()


def fill(text, atom=lambda i, h: "h%d" % i):
    """plain text with every hole replaced by an atom; returns (text, [holes])"""
    if isinstance(text, str):
        return text, []
    out, holes = "", []
    for p in text.parts:
        if isinstance(p, str):
            out += p
        else:
            out += atom(len(holes), p)
            holes.append(p)
    return out, holes


def rows(fb):
    """(label, value skeleton, expected token kinds after filling holes with identifiers h0 h1 ...)"""
    m = Mk(fb)
    a, b, c = m.leaf("x0"), m.leaf("x1"), m.leaf("x2")
    ID = lambda i: ("Identifier", "h%d" % i)
    return [
        ("#t", m.value("Boolean", True), [("Boolean", True)]),
        ("#f", m.value("Boolean", False), [("Boolean", False)]),
        ("symbol", a, [ID(0)]),
        ("()", m.lst([]), [("LeftParen", None), ("RightParen", None)]),
        ("(a)", m.lst([a]), [("LeftParen", None), ID(0), ("RightParen", None)]),
        ("(a b c)", m.lst([a, b, c]), [("LeftParen", None), ID(0), ID(1), ID(2), ("RightParen", None)]),
        ("(a . b)", m.lst([a], b), [("LeftParen", None), ID(0), ("Period", None), ID(1), ("RightParen", None)]),
        ("(a b . c)", m.lst([a, b], c), [("LeftParen", None), ID(0), ID(1), ("Period", None), ID(2), ("RightParen", None)]),
        ("((a) b)", m.lst([m.lst([a]), b]), [("LeftParen", None), ("LeftParen", None), ID(0), ("RightParen", None), ID(1), ("RightParen", None)]),
        ("(a ())", m.lst([a, m.lst([])]), [("LeftParen", None), ID(0), ("LeftParen", None), ("RightParen", None), ("RightParen", None)]),
        ("#()", m.vec([]), [("VecConsIntro", None), ("RightParen", None)]),
        ("#(a b c)", m.vec([a, b, c]), [("VecConsIntro", None), ID(0), ID(1), ID(2), ("RightParen", None)]),
        ("#(a b) mutable", m.vec([a, b], True), [("VecConsIntro", None), ID(0), ID(1), ("RightParen", None)]),
        ("#(#(a) (b))", m.vec([m.vec([a]), m.lst([b])]), [("VecConsIntro", None), ("VecConsIntro", None), ID(0), ("RightParen", None),
                                                         ("LeftParen", None), ID(1), ("RightParen", None), ("RightParen", None)]),
        ("(#(a) . b)", m.lst([m.vec([a])], b), [("LeftParen", None), ("VecConsIntro", None), ID(0), ("RightParen", None), ("Period", None), ID(1),
                                                ("RightParen", None)]),
    ]


# ------------------------------------------------------------------------------------------------ reals: which values print how


REAL_CONSTS = {"max_value": 3.4028235e38, "min_value": -3.4028235e38, "infinity": float("inf"), "neg_infinity": float("-inf"),
               "nan": float("nan"), "zero": 0.0, "one": 1.0, "min_positive_value": 1.17549435e-38, "epsilon": 1.1920929e-07, "neg_zero": -0.0}
REAL_CLASSES = [("NaN", float("nan")), ("-inf", float("-inf")), ("the most negative finite real", -3.4028235e38), ("-1.5", -1.5), ("-0.0", -0.0),
                ("0.0", 0.0), ("the least positive real", 1.17549435e-38), ("1.5", 1.5), ("the largest finite real", 3.4028235e38),
                ("+inf", float("inf"))]


def real_print_paths(fb, max_tests=5):
    """Display of Value::Number(Number::Real(r)) with r opaque: every test of r against a constant of the real type (max_value,
    infinity, ...) or a classification (is_nan, is_infinite ...) is explored both ways.  Returns [(conditions, text)] where a
    condition is (op, lhs, rhs, outcome) with r written 'r' and constants by name."""
    import itertools
    m = Mk(fb)
    paths, seen = [], set()
    for schedule in itertools.product((True, False), repeat=max_tests):
        r = Tok("r")
        v = m.number("Real", r)
        conds, k = [], [0]

        def side(x):
            x = absint.deref(x)
            if x is r:
                return "r"
            if isinstance(x, Tok) and isinstance(x.tag, str) and x.tag.startswith("const:"):
                return x.tag[6:]
            if isinstance(x, (int, float)) and not isinstance(x, bool):
                return float(x)
            return None

        def icpt(mc, c, a, tt, g):
            end = c.rsplit("::", 1)[-1]
            if end in REAL_CONSTS and not a:
                return Tok("const:" + end)
            if end in ("eq", "ne", "lt", "le", "gt", "ge") and len(a) == 2:
                l, rr = side(a[0]), side(a[1])
                if l is not None and rr is not None and "r" in (l, rr):
                    i = k[0]
                    k[0] += 1
                    val = schedule[i] if i < len(schedule) else True
                    conds.append((end, l, rr, val))
                    return val
            if end in ("is_nan", "is_infinite", "is_finite", "is_sign_negative", "is_sign_positive", "is_normal") and len(a) == 1 and absint.deref(a[0]) is r:
                i = k[0]
                k[0] += 1
                val = schedule[i] if i < len(schedule) else True
                conds.append((end, "r", None, val))
                return val
            return NOT
        sink = Sink()
        fmt = fb.find("<values::Value as std::fmt::Display>::fmt")
        mc = Machine(fb, intercept=icpt, max_visits=12, budget=600)
        try:
            mc.run(fmt, [v, sink])
        except (absint.Stuck, absint.Loop) as e:
            paths.append({"stuck": str(e), "conds": list(conds)})
            continue
        t = sink.text()
        sig = (tuple(conds), repr(t))
        if sig in seen:
            continue
        seen.add(sig)
        paths.append({"conds": list(conds), "text": t})
    return paths


def real_holds(cond, x):
    import math
    op, l, r, val = cond
    lv = x if l == "r" else (REAL_CONSTS[l] if isinstance(l, str) else l)
    if r is None:
        got = {"is_nan": math.isnan(x), "is_infinite": math.isinf(x), "is_finite": not (math.isnan(x) or math.isinf(x)),
               "is_sign_negative": math.copysign(1.0, x) < 0, "is_sign_positive": math.copysign(1.0, x) > 0,
               "is_normal": not (math.isnan(x) or math.isinf(x)) and abs(x) >= 1.17549435e-38}[op]
        return got == val
    rv = x if r == "r" else (REAL_CONSTS[r] if isinstance(r, str) else r)
    got = {"eq": lv == rv, "ne": lv != rv, "lt": lv < rv, "le": lv <= rv, "gt": lv > rv, "ge": lv >= rv}[op]
    return got == val


# ------------------------------------------------------------------------------------------------ print, then read back with the crate's reader

def build(m, spec):
    """spec -> abstract Value: ("sym", s) | ("int", n) | ("bool", b) | ("vec", [..]) | ("list", [..], tail|None)"""
    k = spec[0]
    if k == "sym":
        return m.value("Symbol", spec[1])
    if k == "int":
        return m.number("Integer", spec[1])
    if k == "bool":
        return m.value("Boolean", spec[1])
    if k == "vec":
        return m.vec([build(m, x) for x in spec[1]])
    if k == "list":
        return m.lst([build(m, x) for x in spec[1]], build(m, spec[2]) if spec[2] is not None else None)
    raise ValueError(k)


def readback_specs():
    S = lambda n: ("sym", n)
    L = lambda *xs, **kw: ("list", list(xs), kw.get("tail"))
    V = lambda *xs: ("vec", list(xs))
    a, b, c = S("a"), S("b"), S("c")
    out = [("()", L()), ("(a)", L(a)), ("(a b c)", L(a, b, c)), ("(a . b)", L(a, tail=b)), ("(a b . c)", L(a, b, tail=c)), ("((a) b)", L(L(a), b)),
           ("(a ())", L(a, L())), ("#()", V()), ("#(a b c)", V(a, b, c)), ("#(#(a) (b))", V(V(a), L(b))), ("(#(a) . b)", L(V(a), tail=b)),
           ("(#t #f)", L(("bool", True), ("bool", False))), ("(1 -2 0)", L(("int", 1), ("int", -2), ("int", 0))), ("#((a . b) ())", V(L(a, tail=b), L())),
           ("(a . #(b))", L(a, tail=V(b))), ("(((a)))", L(L(L(a))))]
    # the symbols the reader's abbreviations stand for, in every position and context: the printed text has to read back as the same
    # structure whether or not the printer abbreviates
    for kw in ("quote", "quasiquote", "unquote", "unquote-splicing"):
        out += [("(%s a)" % kw, L(S(kw), a)), ("#((%s a) b)" % kw, V(L(S(kw), a), b)), ("(b (%s a) c)" % kw, L(b, L(S(kw), a), c)),
                ("(b . #((%s a)))" % kw, L(b, tail=V(L(S(kw), a)))), ("((%s a) . b)" % kw, L(L(S(kw), a), tail=b)),
                ("(%s)" % kw, L(S(kw))), ("(%s a b)" % kw, L(S(kw), a, b)), ("(%s . a)" % kw, L(S(kw), tail=a)), ("#(%s a)" % kw, V(S(kw), a)),
                ("(a %s b)" % kw, L(a, S(kw), b)), ("(%s (%s a))" % (kw, kw), L(S(kw), L(S(kw), a))), ("(%s #(a))" % kw, L(S(kw), V(a))),
                ("(%s (a b))" % kw, L(S(kw), L(a, b))),
                # the same heads on improper lists: exactly one element after the keyword, and a tail
                ("(%s a . b)" % kw, L(S(kw), a, tail=b)), ("(%s a b . c)" % kw, L(S(kw), a, b, tail=c)), ("(%s (a) . b)" % kw, L(S(kw), L(a), tail=b)),
                ("#((%s a . b))" % kw, V(L(S(kw), a, tail=b))), ("(c (%s a . b))" % kw, L(c, L(S(kw), a, tail=b))),
                ("(%s a . #(b))" % kw, L(S(kw), a, tail=V(b))), ("(%s %s . a)" % (kw, kw), L(S(kw), S(kw), tail=a)),
                ("(a . (%s b))" % kw, L(a, S(kw), b)), ("(a %s . b)" % kw, L(a, S(kw), tail=b))]
    # plain symbols over the whole identifier alphabet of R7RS 7.1.1 (ordinary and peculiar, every kind of subsequent): printed bare,
    # they must read back as that symbol — alone and as a vector element
    from . import tokenclass
    idents = [t for t in tokenclass.samples(False) if (tokenclass.classify(t) or ("",))[0] == "Identifier" and not tokenclass.unsupported(t)]
    for t in idents:
        out.append(("symbol %s" % t, S(t)))
    for t in idents[::4]:
        out.append(("#(%s 1)" % t, V(S(t), ("int", 1))))
    return out


def rule_readback(ctx, rule):
    """the text printed for a value, prefixed with ' and handed to the crate's own reader (readtables.py), comes back as (quote V)
    with V the same structure: same nesting, same atoms, dotted tails only where the value has them"""
    from . import readtables
    from .ctx import where_of
    fb = ctx.fb()
    vf = fb.find("<values::Value as std::fmt::Display>::fmt")
    m = Mk(fb)
    decided = 0
    for label, spec in readback_specs():
        key = "read-back/%s" % label
        t = print_value(fb, build(m, spec))
        if isinstance(t, tuple):
            ctx.undecided(rule, key, "cannot follow the printer on %s (%s)" % (label, t[1]), where_of(vf))
            continue
        txt, holes = fill(t)
        if holes:
            ctx.undecided(rule, key, "the printed text of %s has parts that are not known text (%r)" % (label, t), where_of(vf))
            continue
        r = readtables.read(fb, "'" + txt + " ")
        if r[0] in ("stuck",):
            ctx.undecided(rule, key, "cannot follow the reader on the printed text %r (%s)" % (txt, r[1]), where_of(vf))
            continue
        decided += 1
        want = ("list", [("sym", "quote"), spec], None)
        good = r[0] == "datum" and r[1] == want and r[2] == r[3]
        ctx.inst(rule, key, {"printed": txt, "reads_back": good})
        ctx.oblige(good)
        if not good:
            got = readtables.show(r[1]) if r[0] == "datum" else ("a syntax error (%s)" % (r[1],) if r[0] == "error" else repr(r))
            if r[0] == "datum" and r[2] != r[3]:
                got += " followed by %d unread token(s)" % (r[3] - r[2])
            ctx.report(rule, key, "the value %s is printed as %r; quoted and read back that is %s, expected %s" % (
                label, txt, got, readtables.show(want)), where_of(vf))
    return decided


# ------------------------------------------------------------------------------------------------ finite reals: print, read back

REAL_SAMPLES = [1.0, -1.0, 0.0, -0.0, 1.5, -2.25, 0.1, 0.3, 100.0, 123456.79, 9999999.0, 16777216.0, 2147483648.0, -2147483648.0, 4294967296.0,
                1e10, -1e10, 1e15, 1e16, 1e20, 3.4028235e38, 1e-4, 1e-5, 1e-7, 1.17549435e-38, 0.33333334, 65536.0, 1e9, 2147483500.0]


def rule_real_readback(ctx, rule):
    """finite reals across the magnitudes (fractions, integral values below and above 2^24 / 2^31 / 2^32, powers of ten up to the
    largest, the smallest normal, both zeros), alone and inside a list and a vector: the printed text is a real literal for the
    crate's reader and denotes the same binary32 number — not an integer, not a syntax error"""
    from . import readtables
    from .ctx import where_of
    from .rustfloat import f32
    import math
    fb = ctx.fb()
    vf = fb.find("<values::Value as std::fmt::Display>::fmt")
    m = Mk(fb)
    decided = 0
    for v in REAL_SAMPLES:
        x = f32(v)
        for ctxname, wrap, unwrap in (("alone", lambda r: r, lambda d: d),
                                      ("in-a-list", lambda r: m.lst([m.value("Symbol", "a"), r]), lambda d: d[1][1] if d[0] == "list" and len(d[1]) == 2 else None),
                                      ("in-a-vector", lambda r: m.vec([r]), lambda d: d[1][0] if d[0] == "vec" and len(d[1]) == 1 else None)):
            if ctxname != "alone" and v not in (1.0, 4294967296.0, 1e20, 0.1, -0.0):
                continue
            key = "real/%r/%s" % (v, ctxname)
            t = print_value(fb, wrap(m.number("Real", x)))
            if isinstance(t, tuple):
                ctx.undecided(rule, key, "cannot follow the printer on the real %r (%s)" % (v, t[1]), where_of(vf))
                continue
            txt, holes = fill(t)
            if holes:
                ctx.undecided(rule, key, "the printed text of the real %r has parts that are not known text (%r)" % (v, t), where_of(vf))
                continue
            r = readtables.read(fb, "'" + txt + " ")
            if r[0] == "stuck":
                ctx.undecided(rule, key, "cannot follow the reader on the printed text %r (%s)" % (txt, r[1]), where_of(vf))
                continue
            decided += 1
            got, why = None, None
            if r[0] != "datum":
                why = "a syntax error (%s)" % (r[1],) if r[0] == "error" else repr(r)
            elif not (r[1][0] == "list" and len(r[1][1]) == 2 and r[1][1][0] == ("sym", "quote")) or r[2] != r[3]:
                why = "%s%s" % (readtables.show(r[1]), "" if r[2] == r[3] else " followed by unread tokens")
            else:
                d = unwrap(r[1][1][1])
                if d is None or d[0] != "real":
                    why = "%s, which is not a real (the exactness, or the structure, changed)" % readtables.show(r[1][1][1])
                else:
                    try:
                        back = f32(float(d[1]))
                    except ValueError:
                        back = None
                    if back is None or not (back == x and math.copysign(1.0, back) == math.copysign(1.0, x)):
                        why = "the real %s, another number" % d[1]
            good = why is None
            ctx.inst(rule, key, {"printed": txt, "reads_back": good})
            ctx.oblige(good)
            if not good:
                ctx.report(rule, key, "the finite real %r (%s) is printed as %r; quoted and read back that is %s" % (v, ctxname, txt, why), where_of(vf))
    return decided


def rule_ratio_readback(ctx, rule):
    """exact ratios of both signs, in lowest terms and not (arithmetic does not reduce its results: (- 1/4 3/4) is -8/16): the printed
    text, read by the crate's reader and turned into a value by the interpreter's own literal conversion, is an exact number of the
    same value"""
    from . import readtables
    from .ctx import where_of
    from fractions import Fraction
    fb = ctx.fb()
    vf = fb.find("<values::Value as std::fmt::Display>::fmt")
    m = Mk(fb)
    num = dict((n, i) for i, n in fb.variants("values::Number"))
    decided = 0
    for n in (-32, -8, -6, -3, -2, -1, 1, 2, 3, 6, 8, 32):
        for d in (2, 3, 4, 16):
            key = "ratio/%d/%d" % (n, d)
            t = print_value(fb, m.number("Rational", n, d))
            if isinstance(t, tuple):
                ctx.undecided(rule, key, "cannot follow the printer on the ratio %d/%d (%s)" % (n, d, t[1]), where_of(vf))
                continue
            txt, holes = fill(t)
            if holes:
                ctx.undecided(rule, key, "the printed text of the ratio %d/%d has parts that are not known text (%r)" % (n, d, t), where_of(vf))
                continue
            r = readtables.literal_value(fb, txt)
            if r[0] == "stuck":
                ctx.undecided(rule, key, "cannot follow the reader / the literal conversion on the printed text %r (%s)" % (txt, r[1]), where_of(vf))
                continue
            decided += 1
            why = None
            if r[0] != "value":
                why = "%s (%s)" % ("an error" if r[0] == "error" else "a crash", r[1])
            else:
                nums = [x for x in _find(r[1], "Number")]
                nv = nums[0].fields[0] if nums and nums[0].fields else None
                back = None
                if isinstance(nv, Enum) and nv.variant == num.get("Integer") and isinstance(nv.fields[0], int):
                    back = Fraction(nv.fields[0])
                elif isinstance(nv, Enum) and nv.variant == num.get("Rational") and all(isinstance(x, int) and not isinstance(x, bool) for x in nv.fields[:2]):
                    back = Fraction(nv.fields[0], nv.fields[1]) if nv.fields[1] != 0 else "a ratio with denominator 0"
                    if isinstance(back, Fraction) and nv.fields[1] < 0:
                        back = "the ratio %d/%d, stored with a negative denominator" % (nv.fields[0], nv.fields[1])
                if back is None:
                    why = "%r, which is not an exact number" % (r[1],)
                elif back != Fraction(n, d):
                    why = "%s, another number" % (back,)
            good = why is None
            ctx.inst(rule, key, {"printed": txt, "reads_back": good})
            ctx.oblige(good)
            if not good:
                ctx.report(rule, key, "the exact ratio %d/%d is printed as %r; read back as a literal that is %s" % (n, d, txt, why), where_of(vf))
    return decided


def _find(v, name, depth=8):
    if isinstance(v, Enum) and depth >= 0:
        if getattr(v, "name", None) == name:
            yield v
        for x in v.fields:
            yield from _find(x, name, depth - 1)
    elif isinstance(v, list) and depth >= 0:
        for x in v:
            yield from _find(x, name, depth - 1)


# ------------------------------------------------------------------------------------------------ values do not print where they were typed

def rule_position_free(ctx, rule):
    """the text printed for a user procedure (as a value, hence also inside error messages that quote a value) is the same wherever
    its lambda expression was typed: two procedures that differ only in the line / column of their parameter list and body print alike"""
    from . import evaltables
    from .ctx import where_of
    fb = ctx.fb()
    vf = fb.find("<values::Value as std::fmt::Display>::fmt")
    w = evaltables.World(fb)
    decided = 0
    for shape, fixed, rest, ndefs in (("fixed", ["a", "b"], None, 0), ("rest", ["a"], "r", 0), ("thunk-with-a-definition", [], None, 1)):
        texts = []
        for shift in (0, 37):
            w.nloc = shift * 10
            defs = [("d", w.sym("D1"))] if ndefs else []
            sp = w.scheme_procedure(w.formals(fixed, rest), defs, [w.sym("B1"), w.call(w.sym("F"), [w.sym("X")])])
            p = w.user(sp, evaltables.Frame(None, "closure-env"))
            v = w.procedure_value(p)
            v.adt = "values::Value"
            t = print_value(fb, v)
            texts.append(t)
        key = "procedure/%s" % shape
        if any(isinstance(t, tuple) for t in texts):
            why = next(t[1] for t in texts if isinstance(t, tuple))
            ctx.undecided(rule, key, "cannot follow the printer on a user procedure (%s)" % why, where_of(vf))
            continue
        a_, b_ = fill(texts[0])[0], fill(texts[1])[0]
        decided += 1
        good = a_ == b_
        ctx.inst(rule, key, {"text": a_, "same_at_other_position": good})
        ctx.oblige(good)
        if not good:
            ctx.report(rule, key, "a procedure prints as %r when typed at one place and as %r when the same lambda expression is typed at "
                       "another: the transcript of a session depends on how its forms are split across lines" % (a_, b_), where_of(vf))
    return decided


def _holds_located(fb, ty, seen=None, depth=6):
    """does a value of this type hold a source position (error::Located<..>) somewhere inside?"""
    import re
    seen = seen if seen is not None else set()
    if "error::Located<" in ty or ty.startswith("error::Located"):
        return True
    if depth <= 0:
        return False
    for name in set(re.findall(r"[A-Za-z_][\w]*(?:::[A-Za-z_][\w]*)+", ty)):
        n = mir.norm(name)
        if n in seen or n not in fb.adts:
            continue
        seen.add(n)
        for v in fb.adts[n]["variants"]:
            for fld in v["fields"]:
                if _holds_located(fb, fld["ty"], seen, depth - 1):
                    return True
    return False


def located_debug_shows_position(fb):
    """does `{:?}` of a Located<T> print its line / column?  True / False / None (cannot tell)"""
    f = fb.find("<error::Located as std::fmt::Debug>::fmt", required=False)
    if f is None or getattr(f, "missing", False):
        return None
    if f.derived:
        return True                     # #[derive(Debug)] prints every field
    sink = Sink()
    try:
        Machine(fb, max_visits=6, budget=200).run(f, [[Tok("data"), machine.some([777, 888])], sink])
    except (absint.Stuck, absint.Loop):
        return None
    txt = fill(sink.text())[0]
    if "777" in txt or "888" in txt:
        return True
    return False


def rule_messages_position_free(ctx, rule):
    """error messages: a `{:?}` placeholder whose argument holds source positions prints them, so the same mistake is reported with a
    different text when the form is laid out differently (the position belongs in the LINE:COL prefix only)"""
    from .ctx import where_of
    fb = ctx.fb()
    shows = located_debug_shows_position(fb)
    n = 0
    for f in fb.all("lib"):
        if not (f.trait and "fmt::Display" in f.trait and f.name.endswith("::fmt") and "error::" in (f.self_ty or "") and "Located" not in (f.self_ty or "")):
            continue
        for b, t, pieces, kinds, ops in mir.format_calls(f):
            if not pieces:
                continue
            lead = next((p for p in pieces if isinstance(p, str) and p.strip()), "?").strip()
            for k, o in zip(kinds, ops):
                if k != "debug":
                    continue
                l = mir.op_local(o)
                ty = f.local_ty(l) if l is not None else ""
                n += 1
                key = "error-message/%s/%s" % ((f.self_ty or "?").rsplit("::", 1)[-1], lead[:40])
                holds = _holds_located(fb, ty or "")
                ctx.inst(rule, key, {"debug_argument": ty, "holds_positions": holds})
                if not holds:
                    ctx.oblige(True)
                    continue
                if shows is None:
                    ctx.undecided(rule, key, "cannot tell what `{:?}` of a Located value prints", where_of(f, t))
                    continue
                ctx.oblige(not shows)
                if shows:
                    ctx.report(rule, key, "the message \"%s ...\" prints its argument (%s) with {:?}; that value holds source positions and "
                               "Located's Debug prints them: the same error reads differently when the offending form is split across lines "
                               "differently" % (lead, ty), where_of(f, t))
    return n
