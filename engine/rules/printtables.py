"""Printer tables: the text `Display for Value` produces for value skeletons whose leaves are opaque (holes), by abstract
evaluation of the printer (machine.py), and what the reader's lexer (lexrun.py) makes of that text once the holes are filled
with atoms.  Independent of how the printer is split into functions or which formatting API it uses."""
from . import absint, machine, mir, lexrun
from .absint import Enum, UNKNOWN
from .machine import Machine, Sink, Text, Hole


class Tok:
    def __init__(self, tag):
        self.tag = tag

    def __repr__(self):
        return "<%s>" % self.tag


class Mk:
    def __init__(self, fb):
        self.fb = fb
        self.vi = dict((n, i) for i, n in fb.variants("values::Value"))
        self.gp = dict((n, i) for i, n in fb.variants("parser::pair::GenericPair"))
        self.num = dict((n, i) for i, n in fb.variants("values::Number"))
        self.vr = dict((n, i) for i, n in fb.variants("values::ValueReference"))

    def e(self, m, adt, name, *f):
        x = Enum(m[name], list(f))
        x.name, x.adt = name, adt
        return x

    def value(self, name, *f):
        return self.e(self.vi, "values::Value", name, *f)

    def number(self, name, *f):
        return self.value("Number", self.e(self.num, "values::Number", name, *f))

    def leaf(self, tag):
        """an opaque element: a symbol whose name is a hole"""
        return self.value("Symbol", Tok(tag))

    def lst(self, items, tail=None):
        t = tail if tail is not None else self.value("Pair", self.e(self.gp, "parser::pair::GenericPair", "Empty"))
        for x in reversed(items):
            t = self.value("Pair", self.e(self.gp, "parser::pair::GenericPair", "Some", x, t))
        return t

    def vec(self, items, mutable=False):
        return self.value("Vector", self.e(self.vr, "values::ValueReference", "Mutable" if mutable else "Immutable", list(items)))


def print_value(fb, v):
    fmt = fb.find("<values::Value as std::fmt::Display>::fmt")
    sink = Sink()
    mc = Machine(fb, max_visits=12, budget=600)
    try:
        mc.run(fmt, [v, sink])
    except (absint.Stuck, absint.Loop) as e:
        return ("stuck", str(e))
    return sink.text()


def fill(text, atom=lambda i, h: "h%d" % i):
    """plain text with every hole replaced by an atom; returns (text, [holes])"""
    if isinstance(text, str):
        return text, []
    out, holes = "", []
    for p in text.parts:
        if isinstance(p, str):
            out += p
        else:
            out += atom(len(holes), p)
            holes.append(p)
    return out, holes


def rows(fb):
    """(label, value skeleton, expected token kinds after filling holes with identifiers h0 h1 ...)"""
    m = Mk(fb)
    a, b, c = m.leaf("x0"), m.leaf("x1"), m.leaf("x2")
    ID = lambda i: ("Identifier", "h%d" % i)
    return [
        ("#t", m.value("Boolean", True), [("Boolean", True)]),
        ("#f", m.value("Boolean", False), [("Boolean", False)]),
        ("symbol", a, [ID(0)]),
        ("()", m.lst([]), [("LeftParen", None), ("RightParen", None)]),
        ("(a)", m.lst([a]), [("LeftParen", None), ID(0), ("RightParen", None)]),
        ("(a b c)", m.lst([a, b, c]), [("LeftParen", None), ID(0), ID(1), ID(2), ("RightParen", None)]),
        ("(a . b)", m.lst([a], b), [("LeftParen", None), ID(0), ("Period", None), ID(1), ("RightParen", None)]),
        ("(a b . c)", m.lst([a, b], c), [("LeftParen", None), ID(0), ID(1), ("Period", None), ID(2), ("RightParen", None)]),
        ("((a) b)", m.lst([m.lst([a]), b]), [("LeftParen", None), ("LeftParen", None), ID(0), ("RightParen", None), ID(1), ("RightParen", None)]),
        ("(a ())", m.lst([a, m.lst([])]), [("LeftParen", None), ID(0), ("LeftParen", None), ("RightParen", None), ("RightParen", None)]),
        ("#()", m.vec([]), [("VecConsIntro", None), ("RightParen", None)]),
        ("#(a b c)", m.vec([a, b, c]), [("VecConsIntro", None), ID(0), ID(1), ID(2), ("RightParen", None)]),
        ("#(a b) mutable", m.vec([a, b], True), [("VecConsIntro", None), ID(0), ID(1), ("RightParen", None)]),
        ("#(#(a) (b))", m.vec([m.vec([a]), m.lst([b])]), [("VecConsIntro", None), ("VecConsIntro", None), ID(0), ("RightParen", None),
                                                         ("LeftParen", None), ID(1), ("RightParen", None), ("RightParen", None)]),
        ("(#(a) . b)", m.lst([m.vec([a])], b), [("LeftParen", None), ("VecConsIntro", None), ID(0), ("RightParen", None), ("Period", None), ID(1),
                                                ("RightParen", None)]),
    ]
