"""The datum reader as a table: text -> lexer (lexrun.py) -> the crate's own parser (Parser::advance + Parser::current_datum, followed
by the abstract machine with the token stream answered from the lexer's tokens) -> datum, rendered as a small Python structure:

    ("sym", name) | ("int", n) | ("bool", b) | ("char", code) | ("str", s) | ("ratio", n, d) | ("real", text) | ("vec", [items])
    | ("list", [items], tail-or-None)

`read(fb, text)` returns ("datum", d) | ("none",) | ("error", kind) | ("stuck", why).  Nothing is executed: both the lexer and the
parser are interpreted from their MIR on this one text."""
from . import absint, machine, mir, lexrun
from .absint import Enum, UNKNOWN
from .machine import Machine, NOT, some, none


class TokenStream:
    def __init__(self, items):
        self.items, self.pos = list(items), 0


def _names(fb, adt):
    return dict((i, n) for i, n in fb.variants(adt))


def render(fb, d):
    """abstract Datum ([body, location] / Located enum) -> structure"""
    body = d.fields[0] if isinstance(d, Enum) and len(d.fields) == 2 else (d[0] if isinstance(d, list) and len(d) == 2 else d)
    if not isinstance(body, Enum):
        raise ValueError("not a datum: %r" % (d,))
    kinds = _names(fb, "parser::datum::DatumBody")
    k = kinds.get(body.variant)
    if k == "Symbol":
        n = body.fields[0]
        n = n.flat() if isinstance(n, machine.Text) else n
        return ("sym", n)
    if k == "Primitive":
        p = body.fields[0]
        pk = _names(fb, "parser::datum::Primitive").get(p.variant)
        v = p.fields[0] if p.fields else None
        if pk == "Integer":
            return ("int", v)
        if pk == "Boolean":
            return ("bool", v)
        if pk == "Character":
            return ("char", v)
        if pk == "String":
            return ("str", v.flat() if isinstance(v, machine.Text) else v)
        if pk == "Rational":
            return ("ratio", p.fields[0], p.fields[1])
        return ("real", v)
    if k == "Vector":
        return ("vec", [render(fb, x) for x in body.fields[0]])
    if k == "Pair":
        items, cur = [], body.fields[0]
        gp = _names(fb, "parser::pair::GenericPair")
        for _ in range(200):
            if not isinstance(cur, Enum):
                raise ValueError("not a pair: %r" % (cur,))
            if gp.get(cur.variant) == "Empty":
                return ("list", items, None)
            car, cdr = cur.fields[0], cur.fields[1]
            items.append(render(fb, car))
            cb = cdr.fields[0] if isinstance(cdr, Enum) and len(cdr.fields) == 2 else cdr[0]
            if isinstance(cb, Enum) and kinds.get(cb.variant) == "Pair":
                cur = cb.fields[0]
                continue
            return ("list", items, render(fb, cdr))
        raise ValueError("list too long")
    raise ValueError("unknown datum kind %r" % (k,))


def read(fb, text, max_tokens=60):
    raw = []
    toks = lexrun.lex(fb, text, max_tokens=max_tokens, raw=raw)
    if toks and toks[-1][0] in ("stuck", "panic"):
        return (toks[-1][0], "lexer: %s" % (toks[-1][1],))
    ts = TokenStream(raw)
    try:
        names = [f["name"] for f in fb.adt("parser::parser::Parser")["variants"][0]["fields"]]
        adv = fb.find("parser::parser::Parser::advance")
        cd = fb.find("parser::parser::Parser::current_datum")
    except (mir.AnchorMissing, KeyError, TypeError) as e:
        return ("stuck", "parser entry points: %s" % e)
    if getattr(adv, "missing", False) or getattr(cd, "missing", False) or not {"current", "lexer", "location"} <= set(names):
        return ("stuck", "the parser is not driven by advance / current_datum over current, lexer, location on this tree")
    P = [UNKNOWN for _ in names]
    P[names.index("current")] = none()
    P[names.index("lexer")] = ts
    P[names.index("location")] = none()

    def icpt(mc, c, a, tt, g):
        a0 = a[0] if a else None
        if a0 is ts:
            if c.endswith("Peekable::peek") or c.endswith("Peekable::peek_mut"):
                return some(ts.items[ts.pos]) if ts.pos < len(ts.items) else none()
            if c.endswith("Peekable as std::iter::Iterator>::next"):
                if ts.pos < len(ts.items):
                    ts.pos += 1
                    return some(ts.items[ts.pos - 1])
                return none()
            if c.endswith("Peekable::next_if") or c.endswith("Peekable::next_if_eq"):
                raise absint.Stuck("next_if on the token stream")
        return NOT
    try:
        r0 = Machine(fb, intercept=icpt, max_visits=max(40, len(raw) + 8), budget=6000).run(adv, [P, 1])
        if isinstance(r0, Enum) and getattr(r0, "name", None) == "Err":
            return ("error", _err_kind(fb, r0))
        mc = Machine(fb, intercept=icpt, max_visits=max(40, len(raw) + 8), budget=20000)
        r = mc.run(cd, [P])
    except (absint.Stuck, absint.Loop) as e:
        return ("stuck", str(e))
    if any(e[0] == "panic" for e in mc.events):
        return ("panic", [e[1] for e in mc.events if e[0] == "panic"][0])
    if not isinstance(r, Enum):
        return ("stuck", "result %r" % (r,))
    if getattr(r, "name", None) == "Err" or r.variant == 1:
        return ("error", _err_kind(fb, r))
    opt = r.fields[0] if r.fields else None
    if isinstance(opt, Enum) and opt.variant == 0 and not opt.fields:
        return ("none",)
    read.last_raw = opt.fields[0] if isinstance(opt, Enum) and opt.fields else None
    try:
        return ("datum", render(fb, opt.fields[0]), ts.pos, len(ts.items))
    except (ValueError, AttributeError, IndexError, TypeError) as e:
        return ("stuck", "cannot render the datum (%s)" % e)


read.last_raw = None


def literal_value(fb, text):
    """the value the evaluator makes of the datum `text` denotes (the reader, then the interpreter's own conversion of a literal
    datum into a value): ("value", abstract Value) | ("error", kind) | ("stuck", why)"""
    r = read(fb, text + " ")
    if r[0] != "datum":
        return r if r[0] in ("stuck", "error") else ("stuck", repr(r))
    if r[2] != r[3]:
        return ("stuck", "the text is read as more than one datum")
    raw = read.last_raw
    try:
        rl = fb.find("interpreter::interpreter::Interpreter::read_literal")
    except mir.AnchorMissing as e:
        return ("stuck", str(e))
    if getattr(rl, "missing", False) or raw is None:
        return ("stuck", "no read_literal on this tree")
    try:
        mc = Machine(fb, max_visits=80, budget=6000)
        v = mc.run(rl, [raw, UNKNOWN][:rl.arg_count])
    except (absint.Stuck, absint.Loop) as e:
        return ("stuck", str(e))
    if any(e[0] == "panic" for e in mc.events):
        return ("panic", [e[1] for e in mc.events if e[0] == "panic"][0])
    if isinstance(v, Enum) and getattr(v, "name", None) == "Ok" and v.fields:
        return ("value", v.fields[0])
    if isinstance(v, Enum) and getattr(v, "name", None) == "Err":
        return ("error", _err_kind(fb, v))
    return ("stuck", "result %r" % (v,))


def _err_kind(fb, r):
    se = _names(fb, "parser::error::SyntaxError")
    for x in lexrun._enums(r):
        n = getattr(x, "name", None)
        if n in se.values():
            return n
    # unnamed enums: the SyntaxError payload sits under ErrorData::Syntax
    best = None
    for x in lexrun._enums(r):
        if getattr(x, "adt", "").endswith("SyntaxError"):
            best = se.get(x.variant)
    return best or "error"


def show(d):
    k = d[0]
    if k == "sym":
        t = str(d[1])
        import re as _re
        # (a symbol that would read as something else when written bare is shown between bars)
        return t if t and t != "." and not _re.search(r"[\s()|\"';]", t) and not _re.match(r"^[+-]?\.?\d", t) and not t.startswith("#") else "|%s|" % t
    if k == "int":
        return str(d[1])
    if k == "bool":
        return "#t" if d[1] else "#f"
    if k == "char":
        return "#\\%s" % (chr(d[1]) if isinstance(d[1], int) else d[1])
    if k == "str":
        return '"%s"' % d[1]
    if k == "ratio":
        return "%s/%s" % (d[1], d[2])
    if k == "real":
        return str(d[1])
    if k == "vec":
        return "#(" + " ".join(show(x) for x in d[1]) + ")"
    if k == "list":
        return "(" + " ".join(show(x) for x in d[1]) + ((" . " + show(d[2])) if d[2] is not None else "") + ")"
    return repr(d)


# ------------------------------------------------------------------------------------------------ C06: structure and layout

STRUCTURES = [
    "()", "(a)", "(a b c)", "(a . b)", "(a b . c)", "((a) (b (c)))", "(() ())", "#()", "#(a b)", "#(a #(b) (c . d))", "(a . (b . (c . ())))",
    "(a . (b c))", "((a . b) . (c . d))", "(#(a) . #(b))", "'a", "'()", "'(a b)", "'#(a)", "''a", "'(a 'b)", "('a . 'b)", "#('a b)", "#(a '(b 'c))",
    "(a '#(b))", "(quote a)", "(1 -2 #t #f)", "(a (b (c (d (e)))))", "#(#(#(a)))", "('a)", "(a . 'b)",
    # bar-quoted identifiers are symbols whatever is between the bars: a dot, an ellipsis, digits, a boolean's spelling
    "(a |.| b)", "#(x |.|)", "'|.|", "(|.| . |.|)", "(|...| |1| |#t| |-| |1/2|)", "(a . |.|)",
]


def layouts(text):
    """the same token sequence laid out differently: every blank replaced / tokens spread; comments between tokens"""
    import re
    toks = re.findall(r"#\(|[()']|[^\s()']+", text)
    out = [text]

    def join(sep_fn):
        s = ""
        for i, t in enumerate(toks):
            s += t
            if i + 1 < len(toks):
                nxt = toks[i + 1]
                need = not (t in ("(", "#(", "'") or nxt == ")")          # a blank is needed only between two atoms / after a closer
                s += sep_fn(i, need)
        return s
    out.append(join(lambda i, need: " " if need else ""))                       # minimal spacing
    out.append(join(lambda i, need: "\n  "))                                     # one token per line
    out.append(join(lambda i, need: " \t " if i % 2 else "\r\n"))              # tabs and CRLF
    out.append(join(lambda i, need: " ; note (\n" if i % 3 == 0 else " "))     # line comments holding a parenthesis
    out.append(join(lambda i, need: " #| x ( |# " if i % 2 == 0 else " "))     # block comments
    seen, uniq = set(), []
    for t in out:
        if t not in seen:
            seen.add(t)
            uniq.append(t)
    return uniq


def _from_reference(d):
    from scm import reader as R
    if isinstance(d, R.Sym):
        return ("sym", d.name)
    if isinstance(d, R.Lit):
        if d.kind == "int":
            return ("int", d.value)
        if d.kind == "bool":
            return ("bool", d.value)
        return (d.kind, d.value)
    if isinstance(d, R.Dotted):
        items = [_from_reference(x) for x in d.items]
        tail = _from_reference(d.tail)
        if tail[0] == "list":                       # (a . (b c)) is (a b c)
            return ("list", items + tail[1], tail[2])
        return ("list", items, tail)
    if isinstance(d, R.Vec):
        return ("vec", [_from_reference(x) for x in d.items])
    if isinstance(d, list):
        return ("list", [_from_reference(x) for x in d], None)
    raise ValueError(repr(d))


def rule_structure(ctx, rule, rule_layout=None):
    """parentheses, dotted tails, vector syntax and the quote abbreviation build the structure they denote, whatever the layout: every
    structure text, in six layouts, read by the crate's own lexer and parser; the oracle is the framework's independent reader"""
    from scm import reader as R
    from .ctx import where_of
    fb = ctx.fb()
    cd = fb.find("parser::parser::Parser::current_datum", required=False)
    where = where_of(cd) if cd is not None and not getattr(cd, "missing", False) else None
    decided = 0
    thorough = ctx.tier == "thorough"
    # block comments belong to the layouts only where the reader has them: a lexer that answers `#|` with "unrecognized token" does
    # not support the form (the property is about the supported lexical grammar), one that reads through it is held to it
    block_comments = True
    if thorough:
        probe = read(fb, "#| x |# a ")
        block_comments = probe[0] == "datum"
        ctx.inst(rule, "layouts/block-comments", {"supported_by_the_reader": block_comments})
        if probe[0] == "error":
            ctx.assume("`#| ... |#` block comments are not part of the lexical grammar this reader supports (`#|` is answered with a syntax "
                       "error): layouts with block comments are outside the property")
    for text in STRUCTURES:
        try:
            want = _from_reference(R.read_all(text)[0])
        except Exception as e:      # the oracle does not read it: not a row
            continue
        bad = None
        n = und = 0
        for lay in (layouts(text) if thorough else layouts(text)[:4]):
            if "#|" in lay and not block_comments:
                continue
            r = read(fb, lay + " ")
            if r[0] == "stuck":
                und += 1
                continue
            n += 1
            if not (r[0] == "datum" and r[1] == want and r[2] == r[3]) and bad is None:
                got = show(r[1]) if r[0] == "datum" else ("a syntax error (%s)" % (r[1],) if r[0] == "error" else repr(r[:2]))
                bad = (lay, got)
        key = "structure/%s" % text
        if not n:
            ctx.undecided(rule, key, "cannot follow the reader on %r" % text, where)
            continue
        decided += 1
        ctx.inst(rule, key, {"layouts": n, "not_followed": und, "agrees": bad is None})
        ctx.oblige(bad is None)
        if bad:
            ctx.report(rule_layout if (rule_layout and bad[0] != text) else rule, key,
                       "the text %r is read as %s; it denotes %s" % (bad[0], bad[1], show(want)), where)
    return decided


# ------------------------------------------------------------------------------------------------ C15: where syntax errors point

SYNTAX_FAULTS = [
    # (text, the faulty sub-form): the sub-form is malformed, nested in a top-level form that goes on after it, also on later lines
    ("(list (if)\n  1 2)", "(if)"),
    ("(list 1\n  (define)\n  2\n  3)", "(define)"),
    ("(f (lambda)\n   x\n   y)", "(lambda)"),
    ("(g (set! x)\n)", "(set! x)"),
    ("(h ()\n 1)", "()"),
    ("(list (if))", "(if)"),
    ("(if)", "(if)"),
]


def parse_statement(fb, text):
    """Parser::advance(1) then Parser::parse_current on `text` with an empty syntax environment: ("ok", value) | ("error", kind,
    location | None) | ("stuck", why)"""
    raw = []
    toks = lexrun.lex(fb, text, max_tokens=80, raw=raw)
    if toks and toks[-1][0] in ("stuck", "panic"):
        return ("stuck", "lexer: %s" % (toks[-1][1],))
    ts = TokenStream(raw)
    try:
        names = [f["name"] for f in fb.adt("parser::parser::Parser")["variants"][0]["fields"]]
        adv = fb.find("parser::parser::Parser::advance")
        pc = fb.find("parser::parser::Parser::parse_current")
    except (mir.AnchorMissing, KeyError, TypeError) as e:
        return ("stuck", "parser entry points: %s" % e)
    if getattr(adv, "missing", False) or getattr(pc, "missing", False) or not {"current", "lexer", "location"} <= set(names):
        return ("stuck", "the parser is not driven by advance / parse_current on this tree")

    class Scope:
        pass
    senv = Scope()
    P = [UNKNOWN for _ in names]
    P[names.index("current")] = none()
    P[names.index("lexer")] = ts
    P[names.index("location")] = none()
    if "syntax_env" in names:
        P[names.index("syntax_env")] = senv

    def icpt(mc, c, a, tt, g):
        a0 = a[0] if a else None
        if a0 is ts:
            if c.endswith("Peekable::peek") or c.endswith("Peekable::peek_mut"):
                return some(ts.items[ts.pos]) if ts.pos < len(ts.items) else none()
            if c.endswith("Peekable as std::iter::Iterator>::next"):
                if ts.pos < len(ts.items):
                    ts.pos += 1
                    return some(ts.items[ts.pos - 1])
                return none()
        if c.startswith("environment::LexicalScope::") and a0 is senv:
            end = c.rsplit("::", 1)[-1]
            if end in ("get", "get_mut"):
                return none()                      # no macro is bound: every keyword is a core form or a variable
            if end == "new_child":
                return senv
            if end == "define":
                return []
        return NOT
    try:
        r0 = Machine(fb, intercept=icpt, max_visits=max(40, len(raw) + 8), budget=6000).run(adv, [P, 1])
        if isinstance(r0, Enum) and getattr(r0, "name", None) == "Err":
            return ("error", _err_kind(fb, r0), _err_loc(r0))
        mc = Machine(fb, intercept=icpt, max_visits=max(40, len(raw) + 8), budget=30000)
        args = [P] + ([senv] if pc.arg_count >= 2 else [])
        r = mc.run(pc, args)
    except (absint.Stuck, absint.Loop) as e:
        return ("stuck", str(e))
    if not isinstance(r, Enum):
        return ("stuck", "result %r" % (r,))
    if getattr(r, "name", None) == "Err" or r.variant == 1:
        return ("error", _err_kind(fb, r), _err_loc(r))
    return ("ok", r)


def parse_program(fb, text, max_statements=4):
    """the statements of `text` parsed one after the other by ONE parser whose syntax environment starts empty and keeps what
    define-syntax binds (so that a macro defined by the first form is expanded in the next): [("ok", value) | ("error", kind, loc) |
    ("stuck", why)], one per statement read"""
    raw = []
    toks = lexrun.lex(fb, text, max_tokens=160, raw=raw)
    if toks and toks[-1][0] in ("stuck", "panic"):
        return [("stuck", "lexer: %s" % (toks[-1][1],))]
    ts = TokenStream(raw)
    try:
        names = [f["name"] for f in fb.adt("parser::parser::Parser")["variants"][0]["fields"]]
        adv = fb.find("parser::parser::Parser::advance")
        pc = fb.find("parser::parser::Parser::parse_current")
    except (mir.AnchorMissing, KeyError, TypeError) as e:
        return [("stuck", "parser entry points: %s" % e)]
    if getattr(adv, "missing", False) or getattr(pc, "missing", False) or not {"current", "lexer", "location"} <= set(names):
        return [("stuck", "the parser is not driven by advance / parse_current on this tree")]

    class Scope:
        def __init__(self):
            self.d = {}
    senv = Scope()
    P = [UNKNOWN for _ in names]
    P[names.index("current")] = none()
    P[names.index("lexer")] = ts
    P[names.index("location")] = none()
    if "syntax_env" in names:
        P[names.index("syntax_env")] = senv

    def icpt(mc, c, a, tt, g):
        a0 = a[0] if a else None
        if a0 is ts:
            if c.endswith("Peekable::peek") or c.endswith("Peekable::peek_mut"):
                return some(ts.items[ts.pos]) if ts.pos < len(ts.items) else none()
            if c.endswith("Peekable as std::iter::Iterator>::next"):
                if ts.pos < len(ts.items):
                    ts.pos += 1
                    return some(ts.items[ts.pos - 1])
                return none()
        if c.startswith("environment::LexicalScope::") and a0 is senv:
            end = c.rsplit("::", 1)[-1]
            if end in ("get", "get_mut"):
                k_ = a[1]
                return some(senv.d[k_]) if isinstance(k_, str) and k_ in senv.d else none()
            if end == "new_child":
                return senv
            if end == "define":
                if isinstance(a[1], str):
                    senv.d[a[1]] = a[2]
                return []
        return NOT
    out = []
    for _ in range(max_statements):
        try:
            r0 = Machine(fb, intercept=icpt, max_visits=max(40, len(raw) + 8), budget=6000).run(adv, [P, 1])
            if isinstance(r0, Enum) and getattr(r0, "name", None) == "Err":
                out.append(("error", _err_kind(fb, r0), _err_loc(r0)))
                break
            cur = P[names.index("current")]
            if isinstance(cur, Enum) and cur.variant == 0 and not cur.fields:
                break                                   # end of input
            mc = Machine(fb, intercept=icpt, max_visits=max(60, len(raw) + 8), budget=40000)
            r = mc.run(pc, [P] + ([senv] if pc.arg_count >= 2 else []))
        except (absint.Stuck, absint.Loop) as e:
            out.append(("stuck", str(e)))
            break
        if not isinstance(r, Enum):
            out.append(("stuck", "result %r" % (r,)))
            break
        if getattr(r, "name", None) == "Err" or r.variant == 1:
            out.append(("error", _err_kind(fb, r), _err_loc(r)))
            break
        out.append(("ok", r))
    return out


def symbol_locations(v, out, depth=40):
    """{symbol name: [locations]} of every Located whose data is a Symbol expression / datum, anywhere in a parsed statement"""
    if depth < 0:
        return
    pair = v.fields if isinstance(v, Enum) else (v if isinstance(v, list) else None)
    if pair is not None and len(pair) == 2 and isinstance(pair[0], Enum) and len(pair[0].fields) == 1 and isinstance(pair[0].fields[0], str) \
            and isinstance(pair[1], Enum) and (pair[1].variant == 0 or (pair[1].fields and isinstance(pair[1].fields[0], list))):
        loc = pair[1].fields[0] if pair[1].variant == 1 and pair[1].fields else None
        out.setdefault(pair[0].fields[0], []).append([absint.deref(q) for q in loc] if isinstance(loc, list) else None)
    for x in (pair or []):
        symbol_locations(x, out, depth - 1)


def rule_macro_argument_locations(ctx, rule):
    """identifiers the user writes as arguments of a macro use keep their own positions through the expansion — the first, the
    second and the later items matched by an ellipsis variable, a single variable, arguments of a derived-form-like nesting — so that
    an unbound variable among them is reported where it stands.  -> rows decided"""
    from .ctx import where_of
    fb = ctx.fb()
    pc = fb.find("parser::parser::Parser::parse_current", required=False)
    where = where_of(pc) if pc is not None and not getattr(pc, "missing", False) else None
    programs = [
        ("ellipsis-run", "(define-syntax m1 (syntax-rules () ((m1 v w ...) (k2 v w ...))))\n(m1 a1\n   a2 a3\n      a4)"),
        ("nested-run", "(define-syntax m2 (syntax-rules () ((m2 (n i) ...) ((lambda (n ...) n ...) i ...))))\n(m2 (p1 b1)\n  (p2 b2)\n  (p3 b3))"),
        ("single-variables", "(define-syntax m3 (syntax-rules () ((m3 x y) (k3 y x))))\n(m3 c1\n  c2)"),
    ]
    decided = 0
    for label, text in programs:
        key = "macro-argument-locations/%s" % label
        rs = parse_program(fb, text + " ")
        if len(rs) < 2 or rs[0][0] != "ok" or rs[1][0] != "ok":
            bad = next((r for r in rs if r[0] != "ok"), ("stuck", "fewer statements than written"))
            ctx.undecided(rule, key, "cannot follow the parser on the macro definition and its use (%s: %s)" % (bad[0], bad[1]), where)
            continue
        locs = {}
        symbol_locations(rs[1][1], locs)
        import re
        lines = text.split("\n")
        wrong = []
        names_ = sorted(set(re.findall(r"\b[abc][0-9]\b", text)))
        for n in names_:
            li = next(i for i, l in enumerate(lines) if re.search(r"\b%s\b" % n, l))
            col = re.search(r"\b%s\b" % n, lines[li]).start()
            want = [[li + 1, col + 1], [li + 1, col + 1 + len(n)]]          # (the lexer's position of a token: its start or just past its end)
            got = locs.get(n)
            if not got:
                wrong.append((n, "absent from the expansion", want[0]))
            elif any(g not in want for g in got):
                wrong.append((n, got, want[0]))
        decided += 1
        ctx.inst(rule, key, {"identifiers": names_, "all_keep_their_position": not wrong})
        ctx.oblige(not wrong)
        if wrong:
            n, got, want = wrong[0]
            ctx.report(rule, key, "in the expansion of %r the identifier %s the user wrote at %s is located at %s: an unbound variable there is "
                       "reported away from the identifier" % (text.split("\n", 1)[1], n, want, got), where)
    return decided


def _err_loc(r):
    x = r.fields[0] if isinstance(r, Enum) and r.fields else None
    loc = x.fields[1] if isinstance(x, Enum) and len(x.fields) == 2 else (x[1] if isinstance(x, list) and len(x) == 2 else None)
    if isinstance(loc, Enum) and loc.variant == 1 and loc.fields:
        v = loc.fields[0]
        return [absint.deref(q) for q in v] if isinstance(v, list) else None
    return None


def _end_of(text, sub):
    """(line, column just after the last character) of the first occurrence of `sub` — the location the lexer gives its last token"""
    i = text.index(sub) + len(sub)
    line = text.count("\n", 0, i) + 1
    col = i - (text.rfind("\n", 0, i) + 1) + 1
    return [line, col]


def rule_syntax_error_locations(ctx, rule):
    """a syntax error about a malformed sub-form carries no location, or one at or before that sub-form's last token — never a later
    position of the enclosing top-level form"""
    from .ctx import where_of
    fb = ctx.fb()
    pc = fb.find("parser::parser::Parser::parse_current", required=False)
    where = where_of(pc) if pc is not None and not getattr(pc, "missing", False) else None
    decided = 0
    for text, sub in SYNTAX_FAULTS:
        key = "syntax-error/%s in %s" % (sub, text.replace("\n", "\\n"))
        r = parse_statement(fb, text + " ")
        if r[0] == "stuck":
            ctx.undecided(rule, key, "cannot follow the parser on %r (%s)" % (text, r[1]), where)
            continue
        if r[0] != "error":
            ctx.undecided(rule, key, "%r is not a syntax error on this tree (%r)" % (text, r[1]), where)
            continue
        decided += 1
        loc, end = r[2], _end_of(text, sub)
        good = loc is None or (loc[0], loc[1]) <= (end[0], end[1])
        ctx.inst(rule, key, {"error": r[1], "location": loc, "faulty_form_ends_at": end})
        ctx.oblige(good)
        if not good:
            ctx.report(rule, key, "the syntax error (%s) about the malformed %s in %r is located at %s, after the form it is about (which ends "
                       "at %s)" % (r[1], sub, text, loc, end), where)
    return decided


# ------------------------------------------------------------------------------------------------ the parser keeps every sub-form

CORE_FORMS = [
    "((lambda () m1))", "((lambda () m1 m2))", "((lambda () (define d1 m1) m2))", "((lambda () (define d1 m1) (define d2 m2) m3))",
    "((lambda () (define d1 m1) m2 m3))", "((lambda (p1) (define d1 m1) m2) m3)", "((lambda (p1 p2) m1) m2 m3)", "((lambda p1 m1) m2)",
    "((lambda (p1 . p2) m1 m2) m3 m4)", "(if m1 m2 m3)", "(if m1 m2)", "(set! v1 m1)", "(define v1 m1)", "(define (f1 p1) (define d1 m1) m2)",
    "(define (f1 . p1) m1)", "(f1 m1 (g1 m2) m3)", "(lambda (p1) (define d1 m1) m2)", "((lambda () ((lambda () (define d1 m1) m2))))",
    "(f1 ((lambda () (define d1 m1) m2)))", "(if ((lambda () m1)) ((lambda () (define d1 m2) m3)) m4)",
    # body forms that are not the last one: calls, conditionals whose arms are constants but whose test is a call (what `and` with
    # constant later operands expands to), assignments.  (Every identifier sits where evaluating it can have an effect: a parser that
    # drops forms without effect — a literal, a lambda expression never called — is not this table's subject.)
    "((lambda () (if (f1 m1) 1 2) m2))", "((lambda () (if (f1 m1) 1) m2))", "(lambda () (if (f1 m1) (if (g1 m2) #t #f) #f) m3)",
    "(define (f1) (if (g1 m1) 1 2) m2)", "((lambda () (f1 m1) (g1) m2))", "((lambda () (set! v1 (f1 m1)) m2))",
    "((lambda () (if (f1 m1) 3 \"s\") (g1 m3)))",
]


def _count_strings(v, names, out, depth=0):
    if depth > 60:
        return
    if isinstance(v, str):
        if v in names:
            out[v] = out.get(v, 0) + 1
        return
    if isinstance(v, machine.Text):
        t = v.flat()
        if isinstance(t, str) and t in names:
            out[t] = out.get(t, 0) + 1
        return
    if isinstance(v, Enum):
        for x in v.fields:
            _count_strings(x, names, out, depth + 1)
    elif isinstance(v, (list, tuple)):
        for x in v:
            _count_strings(x, names, out, depth + 1)


def rule_core_forms(ctx, rule):
    """the parser turns a core form (lambda with internal definitions and several body forms, if, set!, define, a call — nested, and in the
    thunk shapes the derived forms expand to) into an expression that still holds every sub-form: each marker identifier of the text
    occurs in the parsed statement as often as in the text (nothing folded away, nothing duplicated)"""
    import re
    from .ctx import where_of
    fb = ctx.fb()
    pc = fb.find("parser::parser::Parser::parse_current", required=False)
    where = where_of(pc) if pc is not None and not getattr(pc, "missing", False) else None
    decided = 0
    for text in CORE_FORMS:
        key = "core-form/%s" % text
        r = parse_statement(fb, text + " ")
        if r[0] == "stuck":
            ctx.undecided(rule, key, "cannot follow the parser on %r (%s)" % (text, r[1]), where)
            continue
        if r[0] == "error":
            ctx.undecided(rule, key, "%r is rejected on this tree (%s)" % (text, r[1]), where)
            continue
        names = set(re.findall(r"\b[mdvpfg][0-9]\b", text))
        want = {n: len(re.findall(r"\b%s\b" % n, text)) for n in names}
        got = {}
        _count_strings(r[1], names, got)
        decided += 1
        good = got == want
        ctx.inst(rule, key, {"identifiers": len(names), "all_kept": good})
        ctx.oblige(good)
        if not good:
            lost = sorted(n for n in names if got.get(n, 0) < want[n])
            dup = sorted(n for n in names if got.get(n, 0) > want[n])
            ctx.report(rule, key, "the parsed form of %r %s%s: a sub-form of a core form is %s by the parser" % (
                text, ("no longer holds %s" % lost) if lost else "", ((" and " if lost else "") + "holds %s more than once" % dup) if dup else "",
                "dropped" if lost else "duplicated"), where)
    return decided


# ------------------------------------------------------------------------------------------------ what each core keyword is parsed as

KEYWORD_FORMS = [
    ("define", "(define d1 m1)", "Definition"), ("define/procedure", "(define (f1 p1) m1)", "Definition"),
    ("lambda", "(lambda (p1) m1)", "Procedure"), ("if", "(if m1 m2 m3)", "Conditional"), ("quote", "(quote m1)", "Quote"),
    ("quote-abbreviation", "'m1", "Quote"), ("quote-abbreviation/list", "'(m1 m2)", "Quote"), ("set!", "(set! d1 m1)", "Assignment"),
    ("define-syntax", "(define-syntax k1 (syntax-rules () ((k1 p1) p1)))", "SyntaxDefinition"),
    ("import", "(import (only (l1 l2) d1))", "ImportDeclaration"),
    ("define-library", "(define-library (l1) (export d1 (rename d2 d3)) (begin (define d1 1) (define d2 2)))", "LibraryDefinition"),
    ("call", "(f1 m1 m2)", "ProcedureCall"),
]


def _named(v, name, out, depth=14):
    if depth < 0:
        return
    if isinstance(v, Enum):
        if getattr(v, "name", None) == name:
            out.append(v)
        for x in v.fields:
            _named(x, name, out, depth - 1)
    elif isinstance(v, (list, tuple)):
        for x in v:
            _named(x, name, out, depth - 1)


def rule_keywords(ctx, rule, only=None):
    """every core keyword, given to the crate's own lexer and parser in one form each, comes out as the statement / expression it
    denotes (a definition, a lambda expression, a conditional, a quotation — also written 'x —, an assignment, a syntax definition, an
    import declaration, a library definition, a call); -> {keyword: True | False | None (not followed)}"""
    from .ctx import where_of
    fb = ctx.fb()
    pc = fb.find("parser::parser::Parser::parse_current", required=False)
    where = where_of(pc) if pc is not None and not getattr(pc, "missing", False) else None
    out = {}
    for kw, text, variant in KEYWORD_FORMS:
        if only is not None and kw.split("/")[0] not in only:
            continue
        key = "keyword/%s" % kw
        r = parse_statement(fb, text + " ")
        if r[0] == "stuck":
            ctx.undecided(rule, key, "cannot follow the parser on %r (%s)" % (text, r[1]), where)
            out[kw] = None
            continue
        hits = []
        if r[0] == "ok":
            _named(r[1], variant, hits)
        good = r[0] == "ok" and bool(hits)
        if good and kw == "define-library":
            ren = []
            _named(r[1], "Rename", ren)
            good = any(list(x.fields[:2]) == ["d2", "d3"] for x in ren)
            if not good:
                ctx.inst(rule, key, {"parsed_as": variant, "export_rename": [list(x.fields[:2]) for x in ren]})
                ctx.oblige(False)
                ctx.report(rule, key + "/export-rename", "(export (rename d2 d3)) is parsed as %s, expected the export specification Rename(internal d2, "
                           "external d3)" % ([list(x.fields[:2]) for x in ren],), where)
                out[kw] = False
                continue
        out[kw] = good
        ctx.inst(rule, key, {"parsed_as": variant if good else (r[0] if r[0] != "ok" else "something else")})
        ctx.oblige(good)
        if not good:
            ctx.report(rule, key, "%r is %s, expected a %s" % (text, ("rejected by the parser (%s)" % (r[1],)) if r[0] == "error" else
                                                            "parsed as something that is not a %s" % variant, variant), where)
    return out


# ------------------------------------------------------------------------------------------------ calls whose operator is a literal

LITERAL_OPERATOR_TEXTS = ["(5 m1)", '("s" m1)', "(#t m1)", "(#\\a m1)", "(1.5 m1 m2)", "(1/2)", "((lambda () (7 m1)))", "(if m1 (5 m2) m3)",
                          "(define (f1) (7 m1))", "(f1 (5 m1))", "(#(1 2) m1)"]


def rule_literal_operators(ctx, rule):
    """a call whose operator is a literal — (5 x), ("no" 1) — is a program like any other: it is *run*, and calling the non-procedure
    is the run-time error of that call when (and only when) it is reached.  The parser must hand it over as a call with all its
    sub-forms; rejecting it while reading turns a run-time fault of one call into a syntax error of the whole top-level form (the
    effects before the call are lost, code that never reaches the call is refused)."""
    import re
    from .ctx import where_of
    fb = ctx.fb()
    pc = fb.find("parser::parser::Parser::parse_current", required=False)
    where = where_of(pc) if pc is not None and not getattr(pc, "missing", False) else None
    decided = 0
    for text in LITERAL_OPERATOR_TEXTS:
        key = "literal-operator/%s" % text
        r = parse_statement(fb, text + " ")
        if r[0] == "stuck":
            ctx.undecided(rule, key, "cannot follow the parser on %r (%s)" % (text, r[1]), where)
            continue
        decided += 1
        if r[0] == "error":
            ctx.inst(rule, key, {"parsed": False})
            ctx.oblige(False)
            ctx.report(rule, key, "the form %s is rejected by the parser (%s): a call of a non-procedure is a run-time error of that call — here "
                       "the whole top-level form is refused before anything runs, so effects before the call never happen, a procedure whose "
                       "body holds the call is never defined, and code that does not reach the call is refused too" % (text, r[1]), where)
            continue
        names = set(re.findall(r"\b[mf][0-9]\b", text))
        want = {n: len(re.findall(r"\b%s\b" % n, text)) for n in names}
        got = {}
        _count_strings(r[1], names, got)
        good = got == want
        ctx.inst(rule, key, {"parsed": True, "all_sub_forms_kept": good})
        ctx.oblige(good)
        if not good:
            ctx.report(rule, key, "the parsed form of %s does not hold every sub-form (%s expected, %s found)" % (text, want, got), where)
    return decided
