"""The datum reader as a table: text -> lexer (lexrun.py) -> the crate's own parser (Parser::advance + Parser::current_datum, followed
by the abstract machine with the token stream answered from the lexer's tokens) -> datum, rendered as a small Python structure:

    ("sym", name) | ("int", n) | ("bool", b) | ("char", code) | ("str", s) | ("ratio", n, d) | ("real", text) | ("vec", [items])
    | ("list", [items], tail-or-None)

`read(fb, text)` returns ("datum", d) | ("none",) | ("error", kind) | ("stuck", why).  Nothing is executed: both the lexer and the
parser are interpreted from their MIR on this one text."""
from . import absint, machine, mir, lexrun
from .absint import Enum, UNKNOWN
from .machine import Machine, NOT, some, none


class TokenStream:
    def __init__(self, items):
        self.items, self.pos = list(items), 0


def _names(fb, adt):
    return dict((i, n) for i, n in fb.variants(adt))


def render(fb, d):
    """abstract Datum ([body, location] / Located enum) -> structure"""
    body = d.fields[0] if isinstance(d, Enum) and len(d.fields) == 2 else (d[0] if isinstance(d, list) and len(d) == 2 else d)
    if not isinstance(body, Enum):
        raise ValueError("not a datum: %r" % (d,))
    kinds = _names(fb, "parser::datum::DatumBody")
    k = kinds.get(body.variant)
    if k == "Symbol":
        n = body.fields[0]
        n = n.flat() if isinstance(n, machine.Text) else n
        return ("sym", n)
    if k == "Primitive":
        p = body.fields[0]
        pk = _names(fb, "parser::datum::Primitive").get(p.variant)
        v = p.fields[0] if p.fields else None
        if pk == "Integer":
            return ("int", v)
        if pk == "Boolean":
            return ("bool", v)
        if pk == "Character":
            return ("char", v)
        if pk == "String":
            return ("str", v.flat() if isinstance(v, machine.Text) else v)
        if pk == "Rational":
            return ("ratio", p.fields[0], p.fields[1])
        return ("real", v)
    if k == "Vector":
        return ("vec", [render(fb, x) for x in body.fields[0]])
    if k == "Pair":
        items, cur = [], body.fields[0]
        gp = _names(fb, "parser::pair::GenericPair")
        for _ in range(200):
            if not isinstance(cur, Enum):
                raise ValueError("not a pair: %r" % (cur,))
            if gp.get(cur.variant) == "Empty":
                return ("list", items, None)
            car, cdr = cur.fields[0], cur.fields[1]
            items.append(render(fb, car))
            cb = cdr.fields[0] if isinstance(cdr, Enum) and len(cdr.fields) == 2 else cdr[0]
            if isinstance(cb, Enum) and kinds.get(cb.variant) == "Pair":
                cur = cb.fields[0]
                continue
            return ("list", items, render(fb, cdr))
        raise ValueError("list too long")
    raise ValueError("unknown datum kind %r" % (k,))


def read(fb, text, max_tokens=60):
    raw = []
    toks = lexrun.lex(fb, text, max_tokens=max_tokens, raw=raw)
    if toks and toks[-1][0] in ("stuck", "panic"):
        return (toks[-1][0], "lexer: %s" % (toks[-1][1],))
    ts = TokenStream(raw)
    try:
        names = [f["name"] for f in fb.adt("parser::parser::Parser")["variants"][0]["fields"]]
        adv = fb.find("parser::parser::Parser::advance")
        cd = fb.find("parser::parser::Parser::current_datum")
    except (mir.AnchorMissing, KeyError, TypeError) as e:
        return ("stuck", "parser entry points: %s" % e)
    if getattr(adv, "missing", False) or getattr(cd, "missing", False) or not {"current", "lexer", "location"} <= set(names):
        return ("stuck", "the parser is not driven by advance / current_datum over current, lexer, location on this tree")
    P = [UNKNOWN for _ in names]
    P[names.index("current")] = none()
    P[names.index("lexer")] = ts
    P[names.index("location")] = none()

    def icpt(mc, c, a, tt, g):
        a0 = a[0] if a else None
        if a0 is ts:
            if c.endswith("Peekable::peek") or c.endswith("Peekable::peek_mut"):
                return some(ts.items[ts.pos]) if ts.pos < len(ts.items) else none()
            if c.endswith("Peekable as std::iter::Iterator>::next"):
                if ts.pos < len(ts.items):
                    ts.pos += 1
                    return some(ts.items[ts.pos - 1])
                return none()
            if c.endswith("Peekable::next_if") or c.endswith("Peekable::next_if_eq"):
                raise absint.Stuck("next_if on the token stream")
        return NOT
    try:
        r0 = Machine(fb, intercept=icpt, max_visits=max(40, len(raw) + 8), budget=6000).run(adv, [P, 1])
        if isinstance(r0, Enum) and getattr(r0, "name", None) == "Err":
            return ("error", _err_kind(fb, r0))
        mc = Machine(fb, intercept=icpt, max_visits=max(40, len(raw) + 8), budget=20000)
        r = mc.run(cd, [P])
    except (absint.Stuck, absint.Loop) as e:
        return ("stuck", str(e))
    if any(e[0] == "panic" for e in mc.events):
        return ("panic", [e[1] for e in mc.events if e[0] == "panic"][0])
    if not isinstance(r, Enum):
        return ("stuck", "result %r" % (r,))
    if getattr(r, "name", None) == "Err" or r.variant == 1:
        return ("error", _err_kind(fb, r))
    opt = r.fields[0] if r.fields else None
    if isinstance(opt, Enum) and opt.variant == 0 and not opt.fields:
        return ("none",)
    try:
        return ("datum", render(fb, opt.fields[0]), ts.pos, len(ts.items))
    except (ValueError, AttributeError, IndexError, TypeError) as e:
        return ("stuck", "cannot render the datum (%s)" % e)


def _err_kind(fb, r):
    se = _names(fb, "parser::error::SyntaxError")
    for x in lexrun._enums(r):
        n = getattr(x, "name", None)
        if n in se.values():
            return n
    # unnamed enums: the SyntaxError payload sits under ErrorData::Syntax
    best = None
    for x in lexrun._enums(r):
        if getattr(x, "adt", "").endswith("SyntaxError"):
            best = se.get(x.variant)
    return best or "error"


def show(d):
    k = d[0]
    if k == "sym":
        return str(d[1])
    if k == "int":
        return str(d[1])
    if k == "bool":
        return "#t" if d[1] else "#f"
    if k == "char":
        return "#\\%s" % (chr(d[1]) if isinstance(d[1], int) else d[1])
    if k == "str":
        return '"%s"' % d[1]
    if k == "ratio":
        return "%s/%s" % (d[1], d[2])
    if k == "real":
        return str(d[1])
    if k == "vec":
        return "#(" + " ".join(show(x) for x in d[1]) + ")"
    if k == "list":
        return "(" + " ".join(show(x) for x in d[1]) + ((" . " + show(d[2])) if d[2] is not None else "") + ")"
    return repr(d)
