"""Decision tables of the import-set algebra (machine.py): Interpreter::eval_import_set on symbolic import sets over a library
that exports a, b, c (values are opaque tokens).  The expected binding set is computed by the R7RS algebra in Python; the
table states, for every operator and for nestings of two, exactly which (name, value) pairs come out."""
import itertools
from . import absint, machine, mir
from .absint import Enum, UNKNOWN
from .machine import NOT, Machine, ok, err, some, none, Iter, Map

ITP = "interpreter::interpreter::Interpreter::"


def fresh_fields(fb, adt="interpreter::interpreter::Interpreter"):
    """the fields of a struct with nothing known about them — except that fields of a std container type (HashSet / HashMap / Vec /
    String / Option) start out empty, as in a freshly constructed value; a table row then sets what it is about"""
    out = []
    for x in fb.adt(adt)["variants"][0]["fields"]:
        ty = x.get("ty") or ""
        if ty.startswith("std::collections::HashSet<") or ty.startswith("std::collections::HashMap<") or ty.startswith("std::collections::BTree"):
            out.append(Map())
        elif ty.startswith("std::vec::Vec<"):
            out.append([])
        elif ty.startswith("std::option::Option<"):
            out.append(none())
        else:
            out.append(UNKNOWN)
    return out


class Val:
    def __init__(self, tag):
        self.tag = tag

    def __repr__(self):
        return "<%s>" % self.tag


class World:
    def __init__(self, fb):
        self.fb = fb
        self.isb = dict((n, i) for i, n in fb.variants("parser::parser::ImportSetBody"))
        self.f = fb.find(ITP + "eval_import_set")
        self.fields = [x["name"] for x in fb.adt("interpreter::interpreter::Interpreter")["variants"][0]["fields"]]
        self.nloc = 0

    def loc(self):
        self.nloc += 1
        return some([200 + self.nloc, 1])

    def node(self, name, *fields):
        e = Enum(self.isb[name], list(fields))
        e.name, e.adt = name, "parser::parser::ImportSetBody"
        return [e, self.loc()]

    def direct(self, lib):
        return self.node("Direct", [lib, self.loc()])

    def build(self, spec, lib):
        """spec: ('lib',) | ('only', spec, [names]) | ('except', spec, [names]) | ('prefix', spec, p) | ('rename', spec, [(a, b)])"""
        k = spec[0]
        if k == "lib":
            return self.direct(lib)
        inner = self.build(spec[1], lib)
        if k == "only":
            return self.node("Only", inner, list(spec[2]))
        if k == "except":
            return self.node("Except", inner, list(spec[2]))
        if k == "prefix":
            return self.node("Prefix", inner, spec[2])
        if k == "rename":
            return self.node("Rename", inner, [[a, b] for a, b in spec[2]])
        raise ValueError(k)


def reference(spec, exports):
    k = spec[0]
    if k == "lib":
        return list(exports)
    inner = reference(spec[1], exports)
    if k == "only":
        return [(n, v) for n, v in inner if n in spec[2]]
    if k == "except":
        return [(n, v) for n, v in inner if n not in spec[2]]
    if k == "prefix":
        return [(spec[2] + n, v) for n, v in inner]
    if k == "rename":
        m = dict(spec[2])
        return [(m.get(n, n), v) for n, v in inner]


def spec_datum(d, spec):
    """the import set as the datum the user writes"""
    k = spec[0]
    if k == "lib":
        return d.lst([d.sym("mylib"), d.sym("sub")])
    inner = spec_datum(d, spec[1])
    if k in ("only", "except"):
        return d.lst([d.sym(k), inner] + [d.sym(n) for n in spec[2]])
    if k == "prefix":
        return d.lst([d.sym(k), inner, d.sym(spec[2])])
    return d.lst([d.sym(k), inner] + [d.lst([d.sym(a), d.sym(b)]) for a, b in spec[2]])


def parse_spec(w, spec):
    """the ImportSet the crate's own parser builds for the import set (so that whatever normal form the parser establishes —
    sorted identifier lists, maps — is what the evaluator is run on); None when the parser cannot be followed"""
    from . import parsetables
    f = w.fb.find("parser::parser::Parser::transform_import_set", required=False)
    if f is None:
        return None
    try:
        r = Machine(w.fb, max_visits=14, budget=2500).run(f, [spec_datum(parsetables.Datums(w.fb), spec)])
    except (absint.Stuck, absint.Loop):
        return None
    if isinstance(r, Enum) and getattr(r, "name", None) == "Ok" and r.fields:
        return r.fields[0]
    return None


def specs():
    base = ("lib",)
    ops1 = [("only", base, ["a", "c"]), ("only", base, []), ("only", base, ["c", "a"]), ("except", base, ["a"]), ("except", base, ["c", "a"]),
            ("except", base, ["a", "b", "c"]), ("prefix", base, "p-"), ("rename", base, [("c", "x"), ("a", "y")]),
            ("rename", base, [("a", "x")]), ("rename", base, [("a", "b"), ("b", "a")]), ("rename", base, [("a", "b"), ("b", "c"), ("c", "a")])]
    out = [base] + ops1
    for o1 in ops1:
        for mk in (lambda s: ("only", s, ["a", "b", "x", "p-a"]), lambda s: ("except", s, ["b", "x"]), lambda s: ("prefix", s, "q/"),
                   lambda s: ("rename", s, [("a", "z"), ("p-a", "pa"), ("x", "a")])):
            out.append(mk(o1))
    return out


def library_value(fb, name_tok, exports):
    """a Library as the crate stores it: (name, table of its exports) — so that whatever way the code reads it (iter_definitions, a
    lookup by name, ...) is followed in the crate's own code; None when the type is not the two-field struct it is today"""
    try:
        a = fb.adt("interpreter::library::Library")
    except mir.AnchorMissing:
        return None
    vs = a.get("variants", [])
    if len(vs) != 1 or len(vs[0].get("fields", [])) != 2 or "HashMap<" not in str(vs[0]["fields"][1].get("ty", "")):
        return None
    e = Enum(0, [name_tok, Map((n, v) for n, v in exports)])
    e.adt = "interpreter::library::Library"
    e.name = vs[0].get("name") or "Library"
    return e


def length_thresholds(fb, f, depth=3):
    """the constants that lengths are compared with in `f` and the functions of the crate it calls (a list treated differently from
    a given size on: `if names.len() > 8 { build a set } else { scan }`): the sizes at which a table has to look again"""
    out, seen, todo = set(), set(), [(f, 0)]
    while todo:
        g, d = todo.pop()
        if g is None or g.name in seen:
            continue
        seen.add(g.name)
        lens = set()
        for b, t in g.calls():
            if mir.callee_matches(t, "Vec::len", "Vec<T, A>::len", "<impl [T]>::len", "HashSet::len", "HashMap::len", "SmallVec::len", "Iterator::count",
                                  "ExactSizeIterator::len", "ExactSizeIterator>::len") and not t["dest"]["proj"]:
                lens.add(t["dest"]["local"])
            if d < depth:
                c = mir.callee(t) or ""
                h = fb.by_call(t) or fb.by_path(c)
                if h is not None and h.name.startswith(("interpreter::interpreter::", "interpreter::library::")) and "eval_expression" not in h.name \
                        and "apply_procedure" not in h.name and "get_library" not in h.name:
                    todo.append((h, d + 1))
        for b, i, st in g.stmts():
            if st["k"] == "assign" and st["rv"]["k"] == "use":
                src = mir.op_local(st["rv"]["op"])
                if src in lens and not st["place"]["proj"]:
                    lens.add(st["place"]["local"])
        for b, i, st in g.stmts():
            if st["k"] == "assign" and st["rv"]["k"] == "binop" and st["rv"]["op"] in ("Lt", "Le", "Gt", "Ge", "Eq", "Ne"):
                for side, other in (("l", "r"), ("r", "l")):
                    if mir.op_local(st["rv"][side]) in lens:
                        c = mir.const_int(st["rv"][other])
                        if c is not None and 2 <= c <= 40:
                            out.add(c)
    return sorted(out)


def run_spec(w, spec, order=(0, 1, 2), exports0=None):
    exports0 = exports0 or [("a", Val("A")), ("b", Val("B")), ("c", Val("C"))]
    order = order if len(order) == len(exports0) else tuple(range(len(exports0)))
    exports = [exports0[i] for i in order]       # the order in which the library's (hash) table happens to yield its exports
    lib = Val("library-name")
    libtok = library_value(w.fb, lib, exports) or Val("library")
    selfv = fresh_fields(w.fb)
    selfv[w.fields.index("imported_library")] = Map()
    ev = []

    def icpt(mc, c, a, tt, g):
        if c == ITP + "get_library":
            ev.append(("get_library", a[1] if len(a) > 1 else None))
            return ok(libtok)
        if c.endswith("Library::iter_definitions") and a and a[0] is libtok and isinstance(libtok, Val):
            return Iter([[n, v] for n, v in exports])
        if c.endswith("Library::iter_definitions") and isinstance(libtok, Val):
            return UNKNOWN
        return NOT
    mc = Machine(w.fb, intercept=icpt, max_visits=12, budget=800)
    expr = parse_spec(w, spec)
    via_parser = expr is not None
    if expr is None:
        expr = w.build(spec, lib)
    try:
        res = mc.run(w.f, [selfv, expr])
    except (absint.Stuck, absint.Loop) as e:
        return {"stuck": str(e)}
    if not (isinstance(res, Enum) and getattr(res, "name", None) == "Ok" and isinstance(res.fields[0], list)):
        return {"result": res, "pairs": None}
    pairs = []
    for it in res.fields[0]:
        if isinstance(it, list) and len(it) == 2:
            n = it[0]
            if isinstance(n, machine.Text):
                n = n.flat()
            pairs.append((n if isinstance(n, str) else repr(n), it[1]))
        else:
            return {"result": res, "pairs": None}
    in_progress_left = len(selfv[w.fields.index("imported_library")].d) if isinstance(selfv[w.fields.index("imported_library")], Map) else None
    return {"pairs": pairs, "want": reference(spec, exports), "loads": len(ev), "in_progress_left": in_progress_left, "via_parser": via_parser}


def show(spec):
    k = spec[0]
    if k == "lib":
        return "(lib)"
    arg = spec[2]
    if k == "rename":
        arg = " ".join("(%s %s)" % p for p in arg)
    elif k != "prefix":
        arg = " ".join(arg)
    return "(%s %s %s)" % (k, show(spec[1]), arg)


def rule_algebra(ctx, rules):
    """rules: dict operator -> rule id (only/except -> polarity, prefix, rename, values, nesting)"""
    fb = ctx.fb()
    from .ctx import where_of
    w = World(fb)
    decided = 0
    for spec in specs():
        d = run_spec(w, spec)
        label = show(spec)
        rule = rules.get(spec[0], rules.get("default"))
        if spec[0] != "lib" and spec[1][0] != "lib":
            rule = rules.get("nested", rule)
        if "stuck" in d:
            ctx.undecided(rule, "import-set/%s" % label, "cannot follow eval_import_set (%s)" % d["stuck"], where_of(w.f))
            continue
        decided += 1
        if d["pairs"] is None:
            ctx.inst(rule, "import-set/%s" % label, {"result": repr(d["result"])[:80]})
            ctx.oblige(False)
            ctx.report(rule, "import-set/%s" % label, "%s evaluates to %r, expected a list of bindings" % (label, d["result"]), where_of(w.f))
            continue
        got = sorted((n, id(v)) for n, v in d["pairs"])
        want = sorted((n, id(v)) for n, v in d["want"])
        names_ok = sorted(n for n, _ in d["pairs"]) == sorted(n for n, _ in d["want"])
        ctx.inst(rule, "import-set/%s" % label, {"names": sorted(n for n, _ in d["pairs"]), "parsed_by_the_crate": d.get("via_parser")})
        ctx.oblige(got == want)
        if not names_ok:
            ctx.report(rule, "import-set/%s" % label, "%s binds the names %s, the import-set algebra gives %s" % (
                label, sorted(n for n, _ in d["pairs"]), sorted(n for n, _ in d["want"])), where_of(w.f))
        elif got != want:
            ctx.report(rules.get("values", rule), "import-set/%s/values" % label, "%s binds the right names to the wrong values: %s, expected %s" % (
                label, sorted((n, repr(v)) for n, v in d["pairs"]), sorted((n, repr(v)) for n, v in d["want"])), where_of(w.f))
        if d["loads"] != 1 or d["in_progress_left"] not in (0, None):
            ctx.report(rules.get("default", rule), "import-set/%s/load" % label, "%s loads the library %d time(s) and leaves %s in-progress mark(s)" % (
                label, d["loads"], d["in_progress_left"]), where_of(w.f))
    # names that look like other names with the prefix in front (an export that itself starts with the prefix, the same prefix put
    # on twice, a rename that produces such a name): the algebra works on whole names, whatever they look like
    exports_pp = [("a", Val("A")), ("p-a", Val("PA")), ("b", Val("B"))]
    L = ("lib",)
    for spec in (("only", ("prefix", L, "p-"), ["p-p-a", "p-a"]), ("only", ("prefix", L, "p-"), ["p-p-a"]),
                 ("only", ("prefix", ("prefix", L, "p-"), "p-"), ["p-p-a", "p-p-p-a"]), ("only", ("prefix", ("prefix", L, "p-"), "p-"), ["p-p-b"]),
                 ("except", ("prefix", L, "p-"), ["p-p-a"]), ("only", ("prefix", ("rename", L, [("b", "p-x")]), "p-"), ["p-p-x"]),
                 ("rename", ("prefix", L, "p-"), [("p-p-a", "q")]), ("prefix", ("only", L, ["p-a"]), "p-"),
                 ("only", ("rename", L, [("a", "p-a"), ("p-a", "a")]), ["p-a"]), ("except", ("rename", L, [("a", "p-a"), ("p-a", "a")]), ["a"]),
                 ("only", ("except", ("prefix", L, "p-"), ["p-a"]), ["p-p-a", "p-b"]), ("prefix", ("prefix", L, "p-"), "p-"),
                 ("only", ("prefix", L, "a"), ["aa", "ap-a"]), ("rename", ("only", L, ["a", "p-a"]), [("a", "p-a"), ("p-a", "p-p-a")])):
        d = run_spec(w, spec, exports0=exports_pp)
        label = show(spec) + "/exports=a,p-a,b"
        rule = rules.get("nested", rules.get("default"))
        if "stuck" in d:
            ctx.undecided(rule, "import-set/%s" % label, "cannot follow eval_import_set (%s)" % d["stuck"], where_of(w.f))
            continue
        decided += 1
        got = sorted((n, id(v)) for n, v in d["pairs"]) if d["pairs"] is not None else None
        want = sorted((n, id(v)) for n, v in d["want"])
        ctx.inst(rule, "import-set/%s" % label, {"names": sorted(n for n, _ in d["pairs"]) if d["pairs"] is not None else None,
                                                 "parsed_by_the_crate": d.get("via_parser")})
        ctx.oblige(got == want)
        if got != want:
            ctx.report(rule, "import-set/%s" % label, "%s on a library exporting a, p-a, b binds %s, the import-set algebra gives %s" % (
                show(spec), sorted((n, repr(v)) for n, v in d["pairs"]) if d["pairs"] is not None else d.get("result"),
                sorted((n, repr(v)) for n, v in d["want"])), where_of(w.f))
    # identifier lists of the sizes at which the code itself changes what it does (constants it compares a length with), on a
    # library with enough exports: only / except of exactly c - 1, c, c + 1 names
    try:
        sizes = length_thresholds(fb, w.f)
    except Exception:
        sizes = []
    for c in sizes[:4]:
        for n in (c - 1, c, c + 1):
            exports0 = [("v%d" % i, Val("V%d" % i)) for i in range(1, n + 3)]
            names = [e[0] for e in exports0[:n]]
            for op in ("only", "except"):
                spec = (op, ("lib",), names)
                rule = rules.get(op, rules.get("default"))
                key = "import-set/(%s (lib) %d names of %d)" % (op, n, len(exports0))
                d = run_spec(w, spec, exports0=exports0)
                if "stuck" in d:
                    ctx.undecided(rule, key, "cannot follow eval_import_set (%s)" % d["stuck"], where_of(w.f))
                    continue
                decided += 1
                got = sorted(n_ for n_, _ in d["pairs"]) if d["pairs"] is not None else None
                want = sorted(n_ for n_, _ in reference(spec, exports0))
                ctx.inst(rule, key, {"names": got, "list_length_compared_with": c})
                ctx.oblige(got == want)
                if got != want:
                    ctx.report(rule, key, "(%s (lib) <%d names>) on a library of %d exports binds %s, the import-set algebra gives %s (the code "
                               "compares a length with %d)" % (op, n, len(exports0), got, want, c), where_of(w.f))
    return decided


def union_table(fb):
    """eval_import(imports = [S1, S2], env): the bindings of every import set are defined in `env`; if one set fails nothing of the
    declaration is defined and the error comes back"""
    f = fb.find(ITP + "eval_import")
    eis = ITP + "eval_import_set"
    rows = []
    for scenario in ("both-ok", "second-fails", "first-fails"):
        A, B, C = Val("A"), Val("B"), Val("C")
        E = Val("error")
        answers = {"both-ok": [ok([["a", A], ["b", B]]), ok([["c", C]])], "second-fails": [ok([["a", A], ["b", B]]), err(E)],
                   "first-fails": [err(E), ok([["c", C]])]}[scenario]
        sets = [Val("S1"), Val("S2")]
        env = Val("env")
        ev = []
        k = [0]

        def icpt(mc, c, a, tt, g):
            if c == eis:
                i = k[0]
                k[0] += 1
                ev.append(("eval-set", a[1] if len(a) > 1 else None))
                return answers[i] if i < len(answers) else UNKNOWN
            if c == "environment::LexicalScope::define":
                ev.append(("define", a[0], a[1], a[2]))
                return []
            return NOT
        fields = [x["name"] for x in fb.adt("interpreter::interpreter::Interpreter")["variants"][0]["fields"]]
        selfv = fresh_fields(fb)
        # the declaration may sit in the body of a library that is itself being loaded: its in-progress mark is there before and
        # has to be there after
        outer = Val("outer-library-being-loaded")
        marks = Map()
        marks.d[machine.key_of(outer)] = (outer, True)
        if "imported_library" in fields:
            selfv[fields.index("imported_library")] = marks
        mc = Machine(fb, intercept=icpt, max_visits=8)
        try:
            res = mc.run(f, [selfv, [list(sets)], env])
        except (absint.Stuck, absint.Loop) as e:
            rows.append((scenario, {"stuck": str(e)}))
            continue
        rows.append((scenario, {"result": res, "events": ev, "env": env, "vals": (A, B, C), "sets": sets, "error": E,
                                "outer_mark_kept": machine.key_of(outer) in marks.d and len(marks.d) == 1}))
    return f, rows


def rule_union(ctx, rule):
    fb = ctx.fb()
    from .ctx import where_of
    f, rows = union_table(fb)
    decided = 0
    for scenario, d in rows:
        key = "eval_import/%s" % scenario
        if "stuck" in d:
            ctx.undecided(rule, key, "cannot follow eval_import (%s)" % d["stuck"], where_of(f))
            continue
        decided += 1
        defs = [(e[2], e[3]) for e in d["events"] if e[0] == "define"]
        envs_ok = all(e[1] is d["env"] for e in d["events"] if e[0] == "define")
        evald = [e[1] for e in d["events"] if e[0] == "eval-set"]
        A, B, C = d["vals"]
        res = d["result"]
        if scenario == "both-ok":
            want = sorted([("a", id(A)), ("b", id(B)), ("c", id(C))])
            good = sorted((n, id(v)) for n, v in defs) == want and envs_ok and getattr(res, "name", None) == "Ok" and \
                len(evald) == 2 and evald[0] is d["sets"][0] and evald[1] is d["sets"][1]
            msg = "an import declaration with two import sets {a b} and {c} evaluates %d set(s) and defines %s (in the target environment: %s), " \
                  "expected a, b and c with their values" % (len(evald), sorted((n, repr(v)) for n, v in defs), envs_ok)
        else:
            good = not defs and getattr(res, "name", None) == "Err" and contains_id(res, d["error"])
            msg = "when an import set fails (%s) the declaration still defines %s and yields %r; expected no binding and the error" % (
                scenario, sorted(n for n, _ in defs), res)
        ctx.inst(rule, key, {"defines": sorted(n for n, _ in defs)})
        ctx.oblige(good)
        if not good:
            ctx.report(rule, key, msg, where_of(f))
    return decided


DECLARATIONS = [
    [("only", ("lib",), ["a"]), ("except", ("lib",), ["a"])],
    [("except", ("lib",), ["a"]), ("only", ("lib",), ["a"])],
    [("lib",), ("except", ("lib",), ["a", "b", "c"])],
    [("only", ("lib",), ["b"]), ("except", ("lib",), ["b", "c"]), ("prefix", ("only", ("lib",), ["c"]), "p-")],
    [("rename", ("only", ("lib",), ["c"]), [("c", "a")]), ("except", ("lib",), ["a", "c"])],
    [("prefix", ("lib",), "p-"), ("lib",)],
    [("rename", ("lib",), [("a", "x")]), ("only", ("lib",), ["a"])],
    [("only", ("lib",), ["a"]), ("only", ("lib",), ["a", "b"])],
]


def declaration_table(fb):
    """eval_import on declarations of two or three REAL import sets over one library exporting a, b, c (eval_import_set followed, the
    library answered): what ends up defined in the target environment"""
    w = World(fb)
    f = fb.find(ITP + "eval_import")
    rows = []
    for decl in DECLARATIONS:
        exports = [("a", Val("A")), ("b", Val("B")), ("c", Val("C"))]
        lib, libtok, env = Val("library-name"), Val("library"), Val("env")
        libtok = library_value(w.fb, lib, exports) or libtok
        selfv = fresh_fields(w.fb)
        if "imported_library" in w.fields:
            selfv[w.fields.index("imported_library")] = Map()
        ev = []

        def icpt(mc, c, a, tt, g, ev=ev, exports=exports, libtok=libtok):
            if c == ITP + "get_library":
                return ok(libtok)
            if c.endswith("Library::iter_definitions") and isinstance(libtok, Val):
                return Iter([[n, v] for n, v in exports]) if a and a[0] is libtok else UNKNOWN
            if c == "environment::LexicalScope::define":
                ev.append((a[0], a[1], a[2]))
                return []
            return NOT
        sets = []
        for spec in decl:
            e = parse_spec(w, spec)
            sets.append(e if e is not None else w.build(spec, lib))
        mc = Machine(fb, intercept=icpt, max_visits=14, budget=1500)
        label = " ".join(show(s_) for s_ in decl)
        try:
            res = mc.run(f, [selfv, [list(sets)], env])
        except (absint.Stuck, absint.Loop) as e:
            rows.append((label, {"stuck": str(e)}))
            continue
        want = {}
        for spec in decl:
            for n, v in reference(spec, exports):
                want[n] = v
        got = {}
        for e0, n, v in ev:
            n = n.flat() if isinstance(n, machine.Text) else n
            got[n if isinstance(n, str) else repr(n)] = v
        rows.append((label, {"result": res, "got": got, "want": want, "env_ok": all(e0 is env for e0, _, _ in ev)}))
    return f, rows


def rule_declarations(ctx, rule):
    """several import sets in one declaration contribute the union of what each yields on its own"""
    fb = ctx.fb()
    from .ctx import where_of
    try:
        f, rows = declaration_table(fb)
    except mir.AnchorMissing as e:
        ctx.undecided(rule, "declaration", str(e))
        return 0
    decided = 0
    for label, d in rows:
        key = "declaration/(import %s)" % label
        if "stuck" in d:
            ctx.undecided(rule, key, "cannot follow eval_import (%s)" % d["stuck"], where_of(f))
            continue
        decided += 1
        good = getattr(d["result"], "name", None) == "Ok" and d["env_ok"] and sorted((n, id(v)) for n, v in d["got"].items()) == sorted(
            (n, id(v)) for n, v in d["want"].items())
        ctx.inst(rule, key, {"defines": sorted(d["got"])})
        ctx.oblige(good)
        if not good:
            ctx.report(rule, key, "(import %s) over a library exporting a b c defines %s; the union of the import sets is %s" % (
                label, sorted((n, repr(v)) for n, v in d["got"].items()) if getattr(d["result"], "name", None) == "Ok" else repr(d["result"]),
                sorted((n, repr(v)) for n, v in d["want"].items())), where_of(f))
    return decided


def rule_order_independent(ctx, rule):
    """the bindings an import set yields do not depend on the order in which the library's export table is iterated (a hash table:
    the order differs from run to run): every operator with two or more identifiers, under all six orders of three exports"""
    fb = ctx.fb()
    from .ctx import where_of
    w = World(fb)
    base = ("lib",)
    specs_ = [("except", base, ["a", "b", "c"]), ("except", base, ["a", "b"]), ("except", base, ["c", "a"]), ("only", base, ["a", "c"]),
              ("only", base, ["c", "b", "a"]), ("rename", base, [("a", "x"), ("c", "y")]), ("prefix", base, "p-"),
              ("except", ("prefix", base, "p-"), ["p-a", "p-c"]), ("only", ("except", base, ["b"]), ["a", "c"])]
    decided = 0
    for spec in specs_:
        label = show(spec)
        outcomes, und = {}, None
        for order in itertools.permutations(range(3)):
            d = run_spec(w, spec, order)
            if "stuck" in d:
                und = d["stuck"]
                break
            if d["pairs"] is None:
                outcomes.setdefault(("not-a-binding-list",), []).append(order)
                continue
            outcomes.setdefault(tuple(sorted((n, getattr(v, "tag", repr(v))) for n, v in d["pairs"])), []).append(order)
            want = tuple(sorted((n, getattr(v, "tag", repr(v))) for n, v in d["want"]))
        key = "order/%s" % label
        if und:
            ctx.undecided(rule, key, "cannot follow eval_import_set (%s)" % und, where_of(w.f))
            continue
        decided += 1
        good = len(outcomes) == 1 and want in outcomes
        ctx.inst(rule, key, {"export_orders": 6, "distinct_outcomes": len(outcomes)})
        ctx.oblige(good)
        if not good:
            names = {k_: sorted(n for n, _ in k_) if k_ and k_[0] != "not-a-binding-list" else k_ for k_ in outcomes}
            ctx.report(rule, key, "%s yields %s depending on the order in which the library's export table is iterated (orders %s); the "
                       "import-set algebra gives %s whatever the order — the outcome differs from run to run" % (
                           label, [names[k_] for k_ in outcomes], [outcomes[k_][0] for k_ in outcomes], sorted(n for n, _ in want)), where_of(w.f))
    return decided


def rule_outer_marks(ctx, rule):
    """an import declaration evaluated while an enclosing library is being loaded leaves that library's in-progress mark alone"""
    fb = ctx.fb()
    from .ctx import where_of
    f, rows = union_table(fb)
    decided = 0
    for scenario, d in rows:
        key = "eval_import/%s/outer-mark" % scenario
        if "stuck" in d:
            ctx.undecided(rule, key, "cannot follow eval_import (%s)" % d["stuck"], where_of(f))
            continue
        decided += 1
        ctx.inst(rule, key, {"kept": d["outer_mark_kept"]})
        ctx.oblige(d["outer_mark_kept"])
        if not d["outer_mark_kept"]:
            ctx.report(rule, key, "an import declaration (%s) evaluated inside a library that is being loaded changes the set of in-progress "
                       "marks: the enclosing library's mark is gone, so a cycle through it is no longer detected and loading recurses without "
                       "end" % scenario, where_of(f))
    return decided


def contains_id(v, x, d=8):
    if v is x:
        return True
    if d < 0:
        return False
    if isinstance(v, Enum):
        return any(contains_id(y, x, d - 1) for y in v.fields)
    if isinstance(v, list):
        return any(contains_id(y, x, d - 1) for y in v)
    return False


def rule_keywords(ctx, rule):
    """Parser::transform_import_set on (only S a c) / (except S a) / (prefix S p-) / (rename S (a x) (b y)) / (mylib sub):
    the constructor named by the keyword, the nested set parsed from S, the identifiers in source order"""
    fb = ctx.fb()
    from .ctx import where_of
    from . import parsetables
    f = fb.find("parser::parser::Parser::transform_import_set")
    d = parsetables.Datums(fb)
    S = lambda: d.lst([d.sym("mylib"), d.sym("sub")])
    cases = [
        ("only", d.lst([d.sym("only"), S(), d.sym("c"), d.sym("a")]), "Only", ["c", "a"]),
        ("except", d.lst([d.sym("except"), S(), d.sym("a")]), "Except", ["a"]),
        ("prefix", d.lst([d.sym("prefix"), S(), d.sym("p-")]), "Prefix", "p-"),
        ("rename", d.lst([d.sym("rename"), S(), d.lst([d.sym("a"), d.sym("x")]), d.lst([d.sym("b"), d.sym("y")])]), "Rename", [["a", "x"], ["b", "y"]]),
        ("library", S(), "Direct", None),
    ]
    decided = 0
    for kw, datum, want_variant, want_arg in cases:
        key = "parse/%s" % kw
        try:
            r = Machine(fb, max_visits=14, budget=1200).run(f, [datum])
        except (absint.Stuck, absint.Loop) as e:
            ctx.undecided(rule, key, "cannot follow transform_import_set (%s)" % e, where_of(f))
            continue
        decided += 1
        body = None
        if isinstance(r, Enum) and getattr(r, "name", None) == "Ok" and r.fields and isinstance(r.fields[0], Enum) and r.fields[0].fields:
            body = r.fields[0].fields[0]
        got_variant = getattr(body, "name", None) if isinstance(body, Enum) else None
        good = got_variant == want_variant
        detail = ""
        if good and want_variant != "Direct":
            sub, arg = body.fields[0], body.fields[1]
            subbody = sub.fields[0] if isinstance(sub, Enum) and sub.fields else None
            sub_ok = isinstance(subbody, Enum) and getattr(subbody, "name", None) == "Direct" and "mylib" in repr(subbody) and "sub" in repr(subbody)
            arg_plain = [list(x) if isinstance(x, list) else x for x in arg] if isinstance(arg, list) else arg
            # the order of the identifiers of only / except (and of the pairs of rename) carries no meaning: compare as multisets
            same = arg_plain == want_arg or (isinstance(want_arg, list) and isinstance(arg_plain, list) and
                                             sorted(map(repr, arg_plain)) == sorted(map(repr, want_arg)))
            good = sub_ok and same
            detail = " with nested set %s and argument %r" % ("parsed from the second element" if sub_ok else repr(subbody)[:60], arg_plain)
        elif good:
            good = "mylib" in repr(body) and "sub" in repr(body)
        ctx.inst(rule, key, {"constructs": got_variant})
        ctx.oblige(good)
        if not good:
            ctx.report(rule, key, "(%s ...) is parsed to %s%s; expected %s with %r" % (kw, got_variant or repr(r)[:80], detail, want_variant, want_arg), where_of(f))
    return decided
