"""Decision tables of the library system (machine.py): loading (in-progress mark, cycles, caching), library definition
(fresh root environment, exports only under external names)."""
from . import absint, machine, mir
from .absint import Enum, UNKNOWN
from .machine import NOT, Machine, ok, err, some, none, Iter, Map
from .importtables import Val, World, ITP, contains_id, fresh_fields


def find_enum(v, name, depth=10):
    out = []

    def go(x, d):
        if d < 0:
            return
        if isinstance(x, Enum):
            if getattr(x, "name", None) == name:
                out.append(x)
            for y in x.fields:
                go(y, d - 1)
        elif isinstance(x, list):
            for y in x:
                go(y, d - 1)
    go(v, depth)
    return out


def load_table(fb):
    """eval_import_set on a plain library reference: (a) loads once, removes the in-progress mark and yields the exports;
    (b) loading fails: the error comes back and the mark is removed; (c) the library is already in progress: cyclic-import error,
    nothing is loaded, the mark of the outer load stays"""
    w = World(fb)
    rows = []
    base = ("lib",)
    forms = [("", base), ("/only", ("only", base, ["a"])), ("/except", ("except", base, ["b"])), ("/prefix", ("prefix", base, "p-")),
             ("/rename", ("rename", base, [("a", "x")])), ("/only-of-prefix", ("only", ("prefix", base, "p-"), ["p-a"])),
             ("/rename-of-only", ("rename", ("only", base, ["a"]), [("a", "x")]))]
    for suffix, spec in forms:
        for scenario in ("ok", "load-fails", "in-progress"):
            lib = Val("library-name")
            libtok, E = Val("library"), Val("load-error")
            selfv = fresh_fields(w.fb)
            marks = Map()
            outer = Val("outer-library-being-loaded")        # an enclosing load in progress: its mark must survive everything
            marks.d[machine.key_of(outer)] = (outer, True)
            if scenario == "in-progress":
                marks.d[machine.key_of(lib)] = (lib, True)
            selfv[w.fields.index("imported_library")] = marks
            ev = []

            def icpt(mc, c, a, tt, g, scenario=scenario, marks=marks, ev=ev, libtok=libtok, E=E):
                if c == ITP + "get_library":
                    ev.append(("get_library", len(marks.d)))
                    return err(E) if scenario == "load-fails" else ok(libtok)
                if c.endswith("Library::iter_definitions"):
                    return Iter([["a", Val("A")], ["b", Val("B")]]) if a and a[0] is libtok else UNKNOWN
                return NOT
            mc = Machine(fb, intercept=icpt, max_visits=10, budget=800)
            try:
                res = mc.run(w.f, [selfv, w.build(spec, lib)])
            except (absint.Stuck, absint.Loop) as e:
                rows.append((scenario + suffix, {"stuck": str(e)}))
                continue
            rows.append((scenario + suffix, {"result": res, "loads": [(a, b - 1) for a, b in ev], "error": E,
                                             "marks_left": len(marks.d) - (1 if machine.key_of(outer) in marks.d else 0),
                                             "outer_kept": machine.key_of(outer) in marks.d}))
    return w.f, rows


def rule_load(ctx, rule_pairing, rule_cycle):
    fb = ctx.fb()
    from .ctx import where_of
    f, rows = load_table(fb)
    decided = 0
    for scenario, d in rows:
        key = "import-library/%s" % scenario
        scenario = scenario.split("/")[0]
        rule = rule_cycle if scenario == "in-progress" else rule_pairing
        if "stuck" in d:
            ctx.undecided(rule, key, "cannot follow eval_import_set (%s)" % d["stuck"], where_of(f))
            continue
        decided += 1
        res = d["result"]
        if scenario == "ok":
            good = getattr(res, "name", None) == "Ok" and len(d["loads"]) == 1 and d["loads"][0][1] == 1 and d["marks_left"] == 0
            if len(d["loads"]) == 1 and d["loads"][0][1] == 0:
                rule = rule_cycle
            msg = "importing a library loads it %d time(s) (marked in progress during the load: %s) and leaves %d in-progress mark(s); result %r" % (
                len(d["loads"]), [x[1] for x in d["loads"]], d["marks_left"], res)
        elif scenario == "load-fails":
            good = getattr(res, "name", None) == "Err" and contains_id(res, d["error"]) and d["marks_left"] == 0
            msg = "when loading fails the import yields %r and leaves %d in-progress mark(s): a later import of the same library would be " \
                  "reported as cyclic" % (res, d["marks_left"])
        else:
            good = getattr(res, "name", None) == "Err" and bool(find_enum(res, "LibraryImportCyclic")) and not d["loads"] and d["marks_left"] == 1
            msg = "importing a library that is being loaded yields %r (loads: %d, marks left: %d); expected Err(LibraryImportCyclic), no load, " \
                  "the outer mark untouched" % (res, len(d["loads"]), d["marks_left"])
        if not d.get("outer_kept", True):
            good = False
            msg = "importing a library removes the in-progress mark of an enclosing library that is still being loaded (a cycle through it " \
                  "would no longer be detected); " + msg
        ctx.inst(rule, key, {"ok": bool(good)})
        ctx.oblige(bool(good))
        if not good:
            ctx.report(rule, key, msg, where_of(f))
    return decided


def cache_table(fb):
    """get_library(name) on an interpreter whose factory table knows `name`: (a) first use instantiates once and caches; (b) second
    use returns the cached instance without instantiating; (c) instantiation fails: nothing is cached and the error comes back"""
    f = fb.find(ITP + "get_library")
    fields = [x["name"] for x in fb.adt("interpreter::interpreter::Interpreter")["variants"][0]["fields"]]
    rows = []
    fv = dict((n, i) for i, n in fb.variants("library_factory::GenericLibraryFactory"))
    for scenario, fkind in [(sc, "AST") for sc in ("first", "second", "instantiation-fails", "first-from-file", "file-not-found", "first-while-another-is-cached")] + \
            [("first", "Native"), ("second", "Native")]:
        name = Val("library-name")
        located = Enum(0, [name, some([3, 1])])
        located.name, located.adt = "Located", "error::Located"
        inst, E = Val("instance"), Val("instantiation-error")
        # the factory as the enum it is (the instantiation code may look inside it): an AST factory carries an opaque library
        # definition, a native one an opaque constructor
        if fkind == "AST":
            ldef = Enum(0, [Val("library-definition"), some([9, 1])])
            ldef.name, ldef.adt = "Located", "error::Located"
            factory = Enum(fv["AST"], [ldef])
        else:
            factory = Enum(fv["Native"], [Val("native-library-name"), Val("native-constructor")])
        factory.name, factory.adt = fkind, "library_factory::GenericLibraryFactory"
        cache, factories = Map(), Map()
        if scenario not in ("first-from-file", "file-not-found"):
            factories.d[machine.key_of(name)] = (name, factory)
        NF = Val("library-file-not-found")
        if scenario == "second":
            cache.d[machine.key_of(name)] = (name, inst)
        other, other_inst = Val("another-library"), Val("instance-of-another-library")
        if scenario == "first-while-another-is-cached":
            cache.d[machine.key_of(other)] = (other, other_inst)
        selfv = fresh_fields(fb)
        selfv[fields.index("libraries")] = cache
        selfv[fields.index("lib_loader")] = [factories]
        ev = []
        li = fields.index("libraries")

        def seen_during(a):
            # what the interpreter's instance table holds at the moment a library is being built (its body may import)
            cur = absint.deref(a[0][li]) if a and isinstance(a[0], list) and len(a[0]) > li else None
            return [v for k0, v in cur.d.values()] if isinstance(cur, Map) else None

        def icpt(mc, c, a, tt, g, scenario=scenario, factory=factory, inst=inst, E=E, NF=NF, ev=ev):
            if c == ITP + "new_library":
                ev.append(("instantiate", a[1] if len(a) > 1 else None, seen_during(a)))
                return err(E) if scenario == "instantiation-fails" else ok(inst)
            if c == ITP + "eval_library_definition":
                # instantiating an AST factory, wherever that is written
                ev.append(("instantiate", factory if contains_id(a[1] if len(a) > 1 else None, factory.fields[0].fields[0]) else a[1:], seen_during(a)))
                return err(E) if scenario == "instantiation-fails" else ok(inst)
            if c.endswith("library::Library::new") or c.endswith("Library::<R>::new"):
                # instantiating a native factory: Library::new(name, constructor())
                ev.append(("instantiate", factory if contains_id(a[0], factory.fields[0]) else a))
                return inst
            if a and any(x is factory.fields[-1] for x in a[:1]) and ("Fn" in c or "call" in c):
                return Val("native-definitions")
            if c == ITP + "file_library_factory":
                ev.append(("file-lookup",))
                return ok(factory) if scenario == "first-from-file" else err(NF)
            return NOT
        mc = Machine(fb, intercept=icpt, max_visits=8, budget=500)
        key = scenario if fkind == "AST" else scenario + "/native-factory"
        if scenario == "first" and "imported_library" in fields:
            # the same while loads are in progress, as get_library is reached from an import declaration: the library's own mark is set
            # during the first request; a second request comes while ANOTHER library is being loaded (a later import set of the same
            # declaration, or the body of that other library importing this one).  One instance, built once.
            ipi = fields.index("imported_library")
            selfv2 = fresh_fields(fb)
            selfv2[fields.index("libraries")] = Map()
            selfv2[fields.index("lib_loader")] = [factories]
            marks = Map()
            marks.d[machine.key_of(name)] = (name, [])
            selfv2[ipi] = marks
            ev0 = len(ev)
            try:
                r1 = mc.run(f, [selfv2, located])
                cur = absint.deref(selfv2[ipi])
                if isinstance(cur, Map):
                    cur.d.clear()
                    cur.d[machine.key_of(other)] = (other, [])
                else:
                    raise absint.Stuck("the in-progress set is not a table of names any more")
                n1 = len([e for e in ev[ev0:] if e[0] == "instantiate"])
                r2 = mc.run(f, [selfv2, located])
                n2 = len([e for e in ev[ev0:] if e[0] == "instantiate"]) - n1
                rows.append((key + "/then-again-during-the-same-declaration", {"result": r1, "second_result": r2, "n1": n1, "n2": n2, "inst": inst,
                                                                              "events": ev[ev0:], "cached": [], "factory": factory, "error": E,
                                                                              "registered": 1, "not_found": NF, "other_inst": other_inst}))
            except (absint.Stuck, absint.Loop) as e:
                rows.append((key + "/then-again-during-the-same-declaration", {"stuck": str(e)}))
            del ev[ev0:]
        try:
            res = mc.run(f, [selfv, located])
        except (absint.Stuck, absint.Loop) as e:
            rows.append((key, {"stuck": str(e)}))
            continue
        cur_cache = absint.deref(selfv[li])
        rows.append((key, {"result": res, "events": ev, "cached": [v for k, v in (cur_cache.d.values() if isinstance(cur_cache, Map) else cache.d.values())],
                           "inst": inst, "factory": factory, "error": E, "registered": len(factories.d), "not_found": NF, "other_inst": other_inst}))
    return f, rows


def rule_cache(ctx, rule_single, rule_negative):
    fb = ctx.fb()
    from .ctx import where_of
    f, rows = cache_table(fb)
    decided = 0
    for scenario, d in rows:
        key = "get_library/%s" % scenario
        scenario = scenario.split("/")[0]
        rule = rule_negative if scenario == "instantiation-fails" else rule_single
        if "stuck" in d:
            ctx.undecided(rule, key, "cannot follow get_library (%s)" % d["stuck"], where_of(f))
            continue
        decided += 1
        res, n_inst = d["result"], len([e for e in d["events"] if e[0] == "instantiate"])
        if key.endswith("/then-again-during-the-same-declaration"):
            r2 = d["second_result"]
            good = getattr(res, "name", None) == "Ok" and getattr(r2, "name", None) == "Ok" and contains_id(res, d["inst"]) and \
                contains_id(r2, d["inst"]) and d["n1"] == 1 and d["n2"] == 0
            msg = "a library requested while its own load is marked in progress (as every import declaration does) and requested again while " \
                  "another library is being loaded is instantiated %d + %d time(s) (%r, then %r); expected one instantiation and the same " \
                  "instance both times: two import sets of one declaration, or the importer and a library it imports, would otherwise " \
                  "hold different instances of a stateful library" % (d["n1"], d["n2"], res, r2)
        elif scenario == "first":
            good = getattr(res, "name", None) == "Ok" and contains_id(res, d["inst"]) and n_inst == 1 and any(x is d["inst"] for x in d["cached"]) and \
                all(e[1] is d["factory"] or contains_id(e[1], d["factory"]) for e in d["events"] if e[0] == "instantiate")
            msg = "the first import of a registered library instantiates %d time(s), caches %s and yields %r; expected one instantiation from the " \
                  "registered factory, cached" % (n_inst, d["cached"], res)
        elif scenario == "first-while-another-is-cached":
            during = [e[2] for e in d["events"] if e[0] == "instantiate" and len(e) > 2]
            vis = bool(during) and all(s_ is None or any(x is d["other_inst"] for x in s_) for s_ in during)
            good = getattr(res, "name", None) == "Ok" and n_inst == 1 and any(x is d["inst"] for x in d["cached"]) and \
                any(x is d["other_inst"] for x in d["cached"]) and vis
            msg = "importing a library while another one is already instantiated: during the build the interpreter's instance table %s the " \
                  "other instance, afterwards it holds %s; expected the other instance visible throughout (the body being built may import " \
                  "it: it must get that instance, not build a second one) and both cached afterwards" % (
                      "holds" if vis else "does NOT hold", d["cached"])
        elif scenario == "first-from-file":
            good = getattr(res, "name", None) == "Ok" and contains_id(res, d["inst"]) and n_inst == 1 and any(x is d["inst"] for x in d["cached"])
            msg = "the first import of a library found on disk instantiates %d time(s), caches %s and yields %r; expected one instantiation, " \
                  "cached like a registered library (otherwise a second importer gets a second instance)" % (n_inst, d["cached"], res)
        elif scenario == "file-not-found":
            rule = rule_negative
            good = getattr(res, "name", None) == "Err" and contains_id(res, d["not_found"]) and not d["cached"] and d["registered"] == 0 and n_inst == 0
            msg = "when no library file is found get_library yields %r (cached: %s, factories registered: %d); expected the lookup error and " \
                  "nothing remembered" % (res, d["cached"], d["registered"])
        elif scenario == "second":
            good = getattr(res, "name", None) == "Ok" and contains_id(res, d["inst"]) and n_inst == 0
            msg = "a second import instantiates the library again (%d time(s)) or does not return the cached instance (%r): importers would not " \
                  "share one instance" % (n_inst, res)
        else:
            good = getattr(res, "name", None) == "Err" and contains_id(res, d["error"]) and not d["cached"]
            msg = "when instantiation fails get_library yields %r and the instance cache holds %s; expected the error and nothing cached" % (res, d["cached"])
            if good and d["registered"] != 1 and rule.startswith("C14"):
                good = False
                msg = "when the instantiation of a REGISTERED library fails, its factory is no longer registered afterwards (%d factories " \
                      "left): the next import of the same library on this interpreter reports `library not found` instead of the same " \
                      "error — the outcome of an import depends on an earlier failed attempt" % d["registered"]
        ctx.inst(rule, key, {"instantiations": n_inst, "cached": len(d["cached"])})
        ctx.oblige(bool(good))
        if not good:
            ctx.report(rule, key, msg, where_of(f))
    return decided


def definition_table(fb):
    """eval_library_definition on (define-library NAME (import I) (export a (rename b bb)) (begin S1 S2))"""
    f = fb.find(ITP + "eval_library_definition")
    ld = dict((n, i) for i, n in fb.variants("parser::parser::LibraryDeclaration"))
    es = dict((n, i) for i, n in fb.variants("parser::parser::ExportSpec"))
    fields = [x["name"] for x in fb.adt("interpreter::interpreter::Interpreter")["variants"][0]["fields"]]
    rows = []
    for scenario in ("exports-bound", "export-unbound", "exports-vector"):
        nloc = [0]

        def loc():
            nloc[0] += 1
            return some([300 + nloc[0], 2])

        def located(x):
            e = Enum(0, [x, loc()])
            e.name, e.adt = "Located", "error::Located"
            return e

        def decl(name, *fs):
            e = Enum(ld[name], list(fs))
            e.name, e.adt = name, "parser::parser::LibraryDeclaration"
            return located(e)

        def exp(name, *fs):
            e = Enum(es[name], list(fs))
            e.name, e.adt = name, "parser::parser::ExportSpec"
            return located(e)
        I1, S1, S2 = Val("import-declaration"), Val("statement-1"), Val("statement-2")
        # a is exported twice (under its own name and under an alias): both names are part of the interface
        exports = [exp("Direct", "a"), exp("Rename", "b", "bb"), exp("Rename", "a", "a2")]
        libname = Val("library-name")
        libdef = [libname, [decl("ImportDeclaration", I1), decl("Export", exports), decl("Begin", [S1, S2])]]
        importer_env = Val("importer-env")
        selfv = fresh_fields(fb)
        selfv[fields.index("env")] = importer_env
        VA, VB = Val("value-of-a"), Val("value-of-b")
        store = None
        if scenario == "exports-vector":
            # b is a vector the library keeps state in: what the interface hands out is that vector, not a copy of it
            vv = dict((n, i) for i, n in fb.variants("values::Value"))
            vr = dict((n, i) for i, n in fb.variants("values::ValueReference"))
            store = [Val("element-0"), Val("element-1")]
            ref = Enum(vr["Mutable"], [store])
            ref.name, ref.adt = "Mutable", "values::ValueReference"
            VB = Enum(vv["Vector"], [ref])
            VB.name, VB.adt = "Vector", "values::Value"
            VA = Enum(vv["Symbol"], ["value-of-a"])
            VA.name, VA.adt = "Symbol", "values::Value"
        # what the library's environment binds changes as its declarations are processed: the import binds `a` (to what the imported
        # library exports), the first body statement defines `a` anew and `hidden`, the second defines `b` — the interface is what
        # the names denote when the body is done
        bound = {}
        ev = []
        frames = []

        def icpt(mc, c, a, tt, g, scenario=scenario):
            if c == ITP + "eval_import":
                ev.append(("import", a[1], a[2]))
                bound["a"] = Val("imported-binding-of-a")
                return ok([])
            if c == ITP + "eval_expression_or_definition":
                ev.append(("eval", a[1], a[2]))
                if a[1] is S1:
                    bound["a"], bound["hidden"] = VA, Val("value-of-hidden")
                elif a[1] is S2 and scenario != "export-unbound":
                    bound["b"] = VB
                return ok(none())
            if c == "environment::LexicalScope::new":
                fr = Val("fresh-root-env-%d" % len(frames))
                frames.append(fr)
                return fr
            if c == "environment::LexicalScope::new_child":
                fr = Val("child-env")
                fr.parent = a[0]
                frames.append(fr)
                return fr
            if c in ("environment::LexicalScope::get", "environment::LexicalScope::get_mut"):
                ev.append(("lookup", a[0], a[1]))
                return some(bound[a[1]]) if a[1] in bound else none()
            return NOT
        mc = Machine(fb, intercept=icpt, max_visits=10, budget=800)
        try:
            res = mc.run(f, [selfv, libdef])
        except (absint.Stuck, absint.Loop) as e:
            rows.append((scenario, {"stuck": str(e)}))
            continue
        rows.append((scenario, {"result": res, "events": ev, "frames": frames, "importer_env": importer_env, "I1": I1, "S": (S1, S2), "VA": VA, "VB": VB, "store": store,
                                "export_locs": [machine.key_of(x.fields[1]) for x in exports]}))
    return f, rows


def body_failure_table(fb):
    """eval_library_definition on a library whose import / first body statement (an expression, a definition) fails: the error comes
    back, nothing after the failing declaration is processed"""
    f = fb.find(ITP + "eval_library_definition")
    ld = dict((n, i) for i, n in fb.variants("parser::parser::LibraryDeclaration"))
    st = dict((n, i) for i, n in fb.variants("parser::parser::Statement"))
    fields = [x["name"] for x in fb.adt("interpreter::interpreter::Interpreter")["variants"][0]["fields"]]
    rows = []
    for scenario in ("import-fails", "body-expression-fails", "body-definition-fails"):
        def located(x, n=[0]):
            n[0] += 1
            e = Enum(0, [x, some([400 + n[0], 2])])
            e.name, e.adt = "Located", "error::Located"
            return e

        def decl(name, *fs):
            e = Enum(ld[name], list(fs))
            e.name, e.adt = name, "parser::parser::LibraryDeclaration"
            return located(e)
        X1, X2 = Val("expression-1"), Val("expression-2")
        D1 = Val("definition-1")
        s_expr = Enum(st["Expression"], [X1])
        s_expr.name, s_expr.adt = "Expression", "parser::parser::Statement"
        s_def = Enum(st["Definition"], [D1])
        s_def.name, s_def.adt = "Definition", "parser::parser::Statement"
        s_last = Enum(st["Expression"], [X2])
        s_last.name, s_last.adt = "Expression", "parser::parser::Statement"
        first = s_def if scenario == "body-definition-fails" else s_expr
        I1 = Val("import-declaration")
        libdef = [Val("library-name"), [decl("ImportDeclaration", I1), decl("Begin", [first, s_last])]]
        selfv = fresh_fields(fb)
        selfv[fields.index("env")] = Val("importer-env")
        if "import_end" in fields:
            selfv[fields.index("import_end")] = False
        # the error as the Located value it is (its payload is what has to come back; code on the way may take it apart and
        # re-locate it)
        EP = Val("the-error")
        E = Enum(0, [EP, some([77, 7])])
        E.name, E.adt = "Located", "error::Located"
        ev = []

        def icpt(mc, c, a, tt, g, scenario=scenario, first=first, E=E, ev=ev, X1=X1, D1=D1):
            if c == ITP + "eval_import":
                ev.append("import")
                return err(E) if scenario == "import-fails" else ok([])
            if c == ITP + "eval_expression_or_definition":
                which = a[1] if len(a) > 1 else None
                is_first = which is first or contains_id(which, X1) or contains_id(which, D1)
                ev.append("first-statement" if is_first else "later-statement")
                return err(E) if (is_first and scenario != "import-fails") else ok(none())
            if c == ITP + "eval_expression":
                which = a[0] if a else None
                is_first = which is X1 or contains_id(which, X1)
                ev.append("first-statement" if is_first else "later-statement")
                return err(E) if (is_first and scenario == "body-expression-fails") else ok(Val("value"))
            if c == "environment::LexicalScope::new":
                return Val("fresh-root-env")
            if c == "environment::LexicalScope::new_child":
                return Val("child-env")
            if c in ("environment::LexicalScope::get", "environment::LexicalScope::get_mut"):
                return none()
            if c == "environment::LexicalScope::define":
                return []
            return NOT
        mc = Machine(fb, intercept=icpt, max_visits=10, budget=800)
        try:
            res = mc.run(f, [selfv, libdef])
        except (absint.Stuck, absint.Loop) as e:
            rows.append((scenario, {"stuck": str(e)}))
            continue
        rows.append((scenario, {"result": res, "events": list(ev), "error": EP,
                                "import_end_after": selfv[fields.index("import_end")] if "import_end" in fields else None}))
    return f, rows


def rule_state_after_body_failure(ctx, rule):
    """a library whose import / body fails while the importer is still in its import declarations: the importer is as it was — in
    particular it still accepts import declarations (the flag that ends the import part is not left set by the failed load)"""
    fb = ctx.fb()
    from .ctx import where_of
    try:
        f, rows = body_failure_table(fb)
    except mir.AnchorMissing as e:
        ctx.undecided(rule, "library-failure/state", str(e))
        return 0
    n = 0
    for scenario, d in rows:
        key = "library-failure/%s/import-part-still-open" % scenario
        if "stuck" in d:
            ctx.undecided(rule, key, "cannot follow eval_library_definition (%s)" % d["stuck"], where_of(f))
            continue
        after = d["import_end_after"]
        if after is None:
            continue
        n += 1
        good = after is False
        ctx.inst(rule, key, {"import_end_after": repr(after)})
        ctx.oblige(good)
        if after is True:
            ctx.report(rule, key, "after a library whose %s fails was loaded during the import part of a program, the interpreter is left "
                       "with its import part closed: every later (import ...) on the same interpreter is rejected although the program "
                       "never left its import declarations" % {"import-fails": "import declaration", "body-expression-fails": "body expression",
                                                               "body-definition-fails": "body definition"}[scenario], where_of(f))
        elif not good:
            ctx.undecided(rule, key, "the flag that ends the import part is %r after the failed load" % (after,), where_of(f))
    return n


def rule_body_failures(ctx, rule):
    fb = ctx.fb()
    from .ctx import where_of
    try:
        f, rows = body_failure_table(fb)
    except mir.AnchorMissing as e:
        ctx.undecided(rule, "define-library/failures", str(e))
        return 0
    decided = 0
    for scenario, d in rows:
        key = "define-library/%s" % scenario
        if "stuck" in d:
            ctx.undecided(rule, key, "cannot follow eval_library_definition (%s)" % d["stuck"], where_of(f))
            continue
        decided += 1
        res, ev = d["result"], d["events"]
        want_ev = ["import"] if scenario == "import-fails" else ["import", "first-statement"]
        good = getattr(res, "name", None) == "Err" and contains_id(res, d["error"]) and ev == want_ev
        ctx.inst(rule, key, {"fails_with_the_error": getattr(res, "name", None) == "Err", "processed": ev})
        ctx.oblige(good)
        if not good:
            ctx.report(rule, key, "a library whose %s fails is loaded as %s after processing %s; expected the underlying error and nothing "
                       "processed after the failing declaration (a library that faults while being evaluated must not be imported as if it had "
                       "succeeded)" % ({"import-fails": "import declaration", "body-expression-fails": "first body statement, an expression,",
                                        "body-definition-fails": "first body statement, a definition,"}[scenario],
                                       "Err(the error)" if getattr(res, "name", None) == "Err" and contains_id(res, d["error"]) else repr(getattr(res, "name", res)), ev), where_of(f))
    return decided


def rule_definition(ctx, rule_env, rule_exports):
    fb = ctx.fb()
    from .ctx import where_of
    f, rows = definition_table(fb)
    decided = 0
    for scenario, d in rows:
        key = "define-library/%s" % scenario
        if "stuck" in d:
            ctx.undecided(rule_env, key, "cannot follow eval_library_definition (%s)" % d["stuck"], where_of(f))
            continue
        decided += 1
        res, ev = d["result"], d["events"]
        envs = [e[2] for e in ev if e[0] in ("import", "eval")] + [e[1] for e in ev if e[0] == "lookup"]
        one_env = len({id(x) for x in envs}) == 1 and envs and any(envs[0] is fr for fr in d["frames"]) and not hasattr(envs[0], "parent") \
            and envs[0] is not d["importer_env"]
        order = [(e[0], e[1]) for e in ev if e[0] in ("import", "eval")]
        want_order = [("import", d["I1"]), ("eval", d["S"][0]), ("eval", d["S"][1])]
        ctx.inst(rule_env, key, {"one_fresh_root_environment": bool(one_env), "declarations_in_order": order == want_order})
        ctx.oblige(bool(one_env) and order == want_order)
        if not one_env:
            ctx.report(rule_env, key, "the library's imports, body and export lookups do not all use one fresh root environment created for this "
                       "library (environments used: %s)" % sorted({repr(x) for x in envs}), where_of(f))
        elif order != want_order:
            ctx.report(rule_env, key + "/order", "the library's declarations are processed as %s, expected the import then the body forms in "
                       "order" % [(k, repr(x)) for k, x in order], where_of(f))
        if rule_exports is None:
            continue
        if scenario == "exports-vector":
            maps = [x for x in _maps(res)]
            bb = [v for m in maps[:1] for k, v in m.d.values() if k == "bb"]
            if getattr(res, "name", None) != "Ok" or len(bb) != 1 or not isinstance(bb[0], Enum) or getattr(bb[0], "name", None) != "Vector":
                ctx.undecided(rule_exports, key, "cannot read what a library exporting a vector hands out (%r)" % (bb[:1] or res,), where_of(f))
                continue
            inner = bb[0].fields[0] if bb[0].fields else None
            got_store = inner.fields[0] if isinstance(inner, Enum) and inner.fields else None
            vrn = dict((i, n) for i, n in fb.variants("values::ValueReference"))
            if isinstance(inner, Enum) and vrn.get(inner.variant) not in (None, "Mutable"):
                # a reference of another kind cannot be the allocation the library's procedures change
                ctx.inst(rule_exports, key, {"exported_vector_is_the_library_vector": False})
                ctx.oblige(False)
                ctx.report(rule_exports, key, "a library exporting a vector it keeps state in hands out a vector of the kind %s where the library's own is Mutable: "
                           "not the library's vector (state kept inside the library is shared by everything that imports it)" % vrn.get(inner.variant), where_of(f))
                continue
            if not isinstance(got_store, list):
                ctx.undecided(rule_exports, key, "cannot read the storage of the exported vector (%r)" % (inner,), where_of(f))
                continue
            good = got_store is d["store"] and getattr(inner, "name", None) == "Mutable"
            ctx.inst(rule_exports, key, {"exported_vector_is_the_library_vector": good})
            ctx.oblige(good)
            if not good:
                ctx.report(rule_exports, key, "a library exporting a vector it keeps state in hands out %s; expected the library's own vector "
                           "(state kept inside the library is shared by everything that imports it)" % (
                               "a different vector with the same elements" if got_store is not d["store"] else "the vector as %s" % getattr(inner, "name", inner)), where_of(f))
            continue
        if scenario == "exports-bound":
            maps = [x for x in _maps(res)]
            got = sorted((k, id(v)) for m in maps[:1] for k, v in m.d.values()) if maps else None
            want = sorted([("a", id(d["VA"])), ("a2", id(d["VA"])), ("bb", id(d["VB"]))])
            good = getattr(res, "name", None) == "Ok" and got == want
            ctx.inst(rule_exports, key, {"exported": sorted(k for m in maps[:1] for k, v in m.d.values()) if maps else None})
            ctx.oblige(good)
            if not good:
                ctx.report(rule_exports, key, "a library exporting a, (rename b bb) and (rename a a2) while also defining `hidden` yields %r with the table %s; "
                           "expected exactly a, a2 and bb bound to the values of a, a and b" % (
                               getattr(res, "name", res), [(k, repr(v)) for m in maps[:1] for k, v in m.d.values()] if maps else None), where_of(f))
        else:
            ub = find_enum(res, "UnboundedSymbol")
            good = getattr(res, "name", None) == "Err" and bool(ub) and ub[0].fields[:1] == ["b"]
            ctx.inst(rule_exports, key, {"error": bool(good)})
            ctx.oblige(good)
            if not good:
                ctx.report(rule_exports, key, "exporting a name the library does not define yields %r, expected Err(UnboundedSymbol(b))" % (res,), where_of(f))
    return decided


def _maps(v, d=8):
    if isinstance(v, Map):
        yield v
    elif d >= 0 and isinstance(v, Enum):
        for x in v.fields:
            yield from _maps(x, d - 1)
    elif d >= 0 and isinstance(v, list):
        for x in v:
            yield from _maps(x, d - 1)


class PathTok:
    def __init__(self, desc):
        self.desc = desc

    def __repr__(self):
        return "path:%s" % (self.desc,)

    def root(self):
        d = self.desc
        while isinstance(d, tuple):
            d = d[1].desc if isinstance(d[1], PathTok) else d[1]
        return d


def location_table(fb):
    """file_library_factory with / without a program directory, file present / absent: where the path is rooted, whether the
    working directory is consulted, what comes back"""
    f = fb.find(ITP + "file_library_factory")
    fields = [x["name"] for x in fb.adt("interpreter::interpreter::Interpreter")["variants"][0]["fields"]]
    rows = []
    for has_dir in ("relative", "absolute", "empty", False):
        for exists in (True, False):
            name = Val("library-name")
            located = Enum(0, [name, some([3, 1])])
            located.name, located.adt = "Located", "error::Located"
            pd, cwd = PathTok("program-directory"), PathTok("working-directory")
            pd.flavour, cwd.flavour = has_dir, "absolute"
            selfv = fresh_fields(fb)
            selfv[fields.index("program_directory")] = some(pd) if has_dir else none()
            ev = []

            def icpt(mc, c, a, tt, g):
                end = c.rsplit("::", 1)[-1]
                if c.endswith("env::current_dir"):
                    ev.append(("current_dir",))
                    return ok(cwd)
                if c.endswith("env::set_current_dir"):
                    ev.append(("set_current_dir",))
                    return ok([])
                if c.endswith("LibraryName::path"):
                    return PathTok("relative-path-of-name")
                if end in ("as_os_str", "as_os_string", "as_mut_os_str", "into_os_string", "as_encoded_bytes") and a and isinstance(a[0], PathTok):
                    return a[0]
                if end == "is_empty" and a and isinstance(a[0], PathTok):
                    fl = getattr(a[0], "flavour", None)
                    return (fl == "empty") if fl in ("relative", "absolute", "empty") else UNKNOWN
                if ("path::Path" in c or "PathBuf" in c) and end in ("is_absolute", "is_relative", "has_root") and a and isinstance(a[0], PathTok):
                    # what kind of path the program was named by: `prog/main.scm` (relative), `/abs/prog/main.scm`, `main.scm` (empty parent)
                    fl = getattr(a[0], "flavour", None)
                    if fl not in ("relative", "absolute", "empty"):
                        return UNKNOWN
                    return (fl == "absolute") if end in ("is_absolute", "has_root") else (fl != "absolute")
                if ("path::Path" in c or "PathBuf" in c) and end in ("join", "with_extension", "push", "with_file_name", "to_path_buf", "to_owned",
                                                                    "as_path", "clone", "deref", "as_ref", "parent", "canonicalize"):
                    if end in ("join", "with_extension", "with_file_name") and isinstance(a[0], PathTok):
                        return PathTok((end, a[0], a[1] if len(a) > 1 else None))
                    if end == "push" and isinstance(a[0], PathTok):
                        a[0].desc = ("join", PathTok(a[0].desc), a[1])
                        return []
                    if end == "parent":
                        return some(PathTok(("parent", a[0], None))) if isinstance(a[0], PathTok) else UNKNOWN
                    if end == "canonicalize":
                        return ok(a[0])
                    return a[0]
                if ("path::Path" in c or "PathBuf" in c) and end in ("exists", "is_file", "try_exists"):
                    ev.append(("exists", a[0]))
                    return (ok(exists) if end == "try_exists" else exists)
                if c.endswith("io::file_char_stream"):
                    ev.append(("open", a[0]))
                    return ok(Val("char-stream")) if exists else err(Val("io-error"))
                if c.endswith("Lexer::from_char_stream"):
                    return Val("lexer")               # (the file is read by the function itself instead of the factory's reader)
                if c.endswith("Parser::from_lexer"):
                    ev.append(("parse", a[0] if a else None))
                    return parser_
                if a and a[0] is parser_ and end in ("into_iter", "by_ref"):
                    return parser_
                if a and a[0] is parser_ and c.endswith("::next"):
                    k_[0] += 1
                    return some(ok(libdef_)) if k_[0] == 1 else none()
                if a and a[0] is parser_ and end in ("find_map", "find", "try_fold", "filter_map", "map", "filter", "try_for_each"):
                    items = machine.Iter([ok(libdef_)] if k_[0] == 0 else [])
                    k_[0] = 1
                    return mc._iter_model(c, end, [items] + list(a[1:]), tt, g)
                if c.endswith("from_char_stream"):
                    ev.append(("parse", a[0]))
                    return ok(Val("factory"))
                return NOT
            parser_, k_ = Val("parser"), [0]
            st_ = dict((n, i) for i, n in fb.variants("parser::parser::Statement"))
            ld_ = Enum(0, [[name, []], some([9, 1])])
            ld_.name, ld_.adt = "Located", "error::Located"
            libdef_ = Enum(st_["LibraryDefinition"], [ld_])
            libdef_.name, libdef_.adt = "LibraryDefinition", "parser::parser::Statement"
            mc = Machine(fb, intercept=icpt, max_visits=6, budget=400)
            try:
                res = mc.run(f, [selfv, located])
            except (absint.Stuck, absint.Loop) as e:
                rows.append(((has_dir, exists), {"stuck": str(e)}))
                continue
            rows.append(((has_dir, exists), {"result": res, "events": ev, "name": name}))
    return f, rows


def rule_location(ctx, rule_loc, rule_err):
    fb = ctx.fb()
    from .ctx import where_of
    f, rows = location_table(fb)
    decided = 0
    for (has_dir, exists), d in rows:
        key = "library-file/%s,%s" % (("program-directory" if has_dir == "relative" else "%s-program-directory" % has_dir) if has_dir else "no-program-directory",
                                      "file-exists" if exists else "file-missing")
        if "stuck" in d:
            ctx.undecided(rule_loc, key, "cannot follow file_library_factory (%s)" % d["stuck"], where_of(f))
            continue
        decided += 1
        ev, res = d["events"], d["result"]
        paths = [e[1] for e in ev if e[0] in ("exists", "open") and isinstance(e[1], PathTok)]
        roots = {p.root() for p in paths}
        want_root = "program-directory" if has_dir else "working-directory"
        used_cwd = any(e[0] in ("current_dir", "set_current_dir") for e in ev)
        good = bool(paths) and roots == {want_root} and (used_cwd == (not has_dir)) and all("relative-path-of-name" in repr(p) for p in paths)
        if has_dir == "empty" and bool(paths) and roots <= {"program-directory", "working-directory"} and all("relative-path-of-name" in repr(p) for p in paths):
            good = True          # an empty program directory IS the working directory
        ctx.inst(rule_loc, key, {"path_roots": sorted(roots), "working_directory_consulted": used_cwd})
        ctx.oblige(good)
        if not good:
            ctx.report(rule_loc, key, "with %s the library file is looked for under %s (working directory consulted: %s); expected the library's "
                       "relative path under the %s" % (
                           {"relative": "a program named by a relative path with a directory part (prog/main.scm)", "absolute": "a program named by an absolute path",
                            "empty": "a program named by a bare file name", False: "no program directory (library interface)"}[has_dir],
                           sorted(roots) or "nothing", used_cwd, want_root.replace("-", " ")), where_of(f))
        if exists:
            good2 = getattr(res, "name", None) == "Ok" and any(e[0] == "parse" for e in ev)
            msg = "an existing library file yields %r" % (res,)
        else:
            good2 = getattr(res, "name", None) == "Err" and (bool(find_enum(res, "LibraryNotFound")) or any(e[0] == "open" for e in ev))
            msg = "a missing library file yields %r, expected an error (LibraryNotFound or the I/O error)" % (res,)
        ctx.inst(rule_err, key, {"ok": bool(good2)})
        ctx.oblige(good2)
        if not good2:
            ctx.report(rule_err, key, msg, where_of(f))
    return decided


def reader_table(fb):
    """GenericLibraryFactory::from_char_stream(requested name, text): which of the forms the reader yields is accepted"""
    f = fb.find("library_factory::GenericLibraryFactory::from_char_stream")
    st = dict((n, i) for i, n in fb.variants("parser::parser::Statement"))
    rows = []
    for scenario in ("wanted-after-others", "only-others", "read-error-first", "empty"):
        want, other = Val("requested-name"), Val("other-name")
        E = Val("read-error")

        def libdef(name):
            ld = Enum(0, [[name, []], some([9, 1])])
            ld.name, ld.adt = "Located", "error::Located"
            s = Enum(st["LibraryDefinition"], [ld])
            s.name, s.adt = "LibraryDefinition", "parser::parser::Statement"
            return s
        expr = Enum(st["Expression"], [Val("expression")])
        expr.name, expr.adt = "Expression", "parser::parser::Statement"
        wanted_def = libdef(want)
        seq = {"wanted-after-others": [ok(expr), ok(libdef(other)), ok(wanted_def), ok(libdef(other))], "only-others": [ok(expr), ok(libdef(other))],
               "read-error-first": [err(E), ok(wanted_def)], "empty": []}[scenario]
        k = [0]
        parser = Val("parser")

        def icpt(mc, c, a, tt, g):
            if c.endswith("Lexer::from_char_stream"):
                return Val("lexer")
            if c.endswith("Parser::from_lexer"):
                return parser
            if a and a[0] is parser and c.rsplit("::", 1)[-1] in ("into_iter", "by_ref"):
                return parser
            if a and a[0] is parser and c.endswith("::next"):
                i = k[0]
                k[0] += 1
                return some(seq[i]) if i < len(seq) else none()
            if a and a[0] is parser and c.rsplit("::", 1)[-1] in ("find_map", "find", "try_fold", "filter_map", "map", "filter", "try_for_each"):
                items = machine.Iter(seq[k[0]:])
                k[0] = len(seq)
                return mc._iter_model(c, c.rsplit("::", 1)[-1], [items] + list(a[1:]), tt, g)
            return NOT
        mc = Machine(fb, intercept=icpt, max_visits=8, budget=400)
        try:
            res = mc.run(f, [want, Val("char-stream")])
        except (absint.Stuck, absint.Loop) as e:
            rows.append((scenario, {"stuck": str(e)}))
            continue
        rows.append((scenario, {"result": res, "consumed": k[0], "wanted_def": wanted_def, "want": want, "error": E}))
    return f, rows


def rule_reader(ctx, rule):
    fb = ctx.fb()
    from .ctx import where_of
    f, rows = reader_table(fb)
    decided = 0
    for scenario, d in rows:
        key = "library-file-contents/%s" % scenario
        if "stuck" in d:
            ctx.undecided(rule, key, "cannot follow from_char_stream (%s)" % d["stuck"], where_of(f))
            continue
        decided += 1
        res = d["result"]
        if scenario == "wanted-after-others":
            good = getattr(res, "name", None) == "Ok" and contains_id(res, d["want"]) and bool(find_enum(res, "AST"))
            msg = "a file holding an expression, a library with another name, then the requested library yields %r; expected the requested " \
                  "library's definition" % (res,)
        elif scenario in ("only-others", "empty"):
            good = getattr(res, "name", None) == "Err" and bool(find_enum(res, "LibraryNotFound"))
            msg = "a file that does not define the requested library yields %r, expected Err(LibraryNotFound)" % (res,)
        else:
            good = getattr(res, "name", None) == "Err" and contains_id(res, d["error"])
            msg = "a read error before the requested library yields %r, expected that error" % (res,)
        ctx.inst(rule, key, {"ok": bool(good)})
        ctx.oblige(bool(good))
        if not good:
            ctx.report(rule, key, msg, where_of(f))
    return decided


# ------------------------------------------------------------------------------------------------ one body statement


def statement_table(fb):
    """eval_expression_or_definition(statement, ENV) on a definition and on a syntax definition: what is written where.  Used for a
    library body: ENV is the library's own environment, and nothing of the interpreter (its `env`, its `syntax_env`) may change."""
    f = fb.find(ITP + "eval_expression_or_definition")
    st = dict((n, i) for i, n in fb.variants("parser::parser::Statement"))
    fields = [x["name"] for x in fb.adt("interpreter::interpreter::Interpreter")["variants"][0]["fields"]]
    rows = []
    for kind in ("definition", "syntax-definition", "expression"):
        own_env, own_syntax, lib_env = Val("interpreter-env"), Val("interpreter-syntax-env"), Val("library-env")
        selfv = fresh_fields(fb)
        selfv[fields.index("env")] = own_env
        if "syntax_env" in fields:
            selfv[fields.index("syntax_env")] = own_syntax
        if kind == "definition":
            body = [("x"), Val("expression")]
            located = Enum(0, [body, some([4, 2])])
            located.name, located.adt = "Located", "error::Located"
            stmt = Enum(st["Definition"], [located])
        elif kind == "expression":
            # an expression statement (initialisation code of a library such as (set! step 5)): Expression = Located<ExpressionBody>
            stmt = Enum(st["Expression"], [[Val("expression"), some([4, 2])]])
        else:
            body = ["my-macro", Val("transformer")]
            located = Enum(0, [body, some([4, 2])])
            located.name, located.adt = "Located", "error::Located"
            stmt = Enum(st["SyntaxDefinition"], [located])
        stmt.adt = "parser::parser::Statement"
        ev = []

        def icpt(mc, c, a, tt, g, ev=ev):
            if c.endswith("Interpreter::eval_expression"):
                ev.append(("eval", a[0], a[1] if len(a) > 1 else None))
                return ok(Val("value"))
            if c in ("environment::LexicalScope::define", "environment::LexicalScope::set"):
                ev.append(("write", a[0], a[1]))
                return [] if c.endswith("define") else ok([])
            if c.endswith("::clone") and a and isinstance(a[0], Val):
                return a[0]
            return NOT
        mc = Machine(fb, intercept=icpt, max_visits=8, budget=600)
        try:
            res = mc.run(f, [selfv, stmt, lib_env])
        except (absint.Stuck, absint.Loop) as e:
            rows.append((kind, {"stuck": str(e)}))
            continue
        rows.append((kind, {"result": res, "events": ev, "own_env": own_env, "own_syntax": own_syntax, "lib_env": lib_env}))
    return f, rows


def rule_statement(ctx, rule):
    fb = ctx.fb()
    from .ctx import where_of
    try:
        f, rows = statement_table(fb)
    except mir.AnchorMissing as e:
        ctx.undecided(rule, "body-statement", str(e))
        return 0
    decided = 0
    for kind, d in rows:
        key = "body-statement/%s" % kind
        if "stuck" in d:
            ctx.undecided(rule, key, "cannot follow eval_expression_or_definition (%s)" % d["stuck"], where_of(f))
            continue
        decided += 1
        writes = [e for e in d["events"] if e[0] == "write"]
        foreign = [e for e in writes if e[1] is not d["lib_env"]]
        evals = [e for e in d["events"] if e[0] == "eval"]
        # whatever is evaluated (the expression statement itself, the initialiser of a definition) is evaluated in the library's
        # environment: it sees the library's imports and definitions and nothing of the importer
        wrong_env = [e for e in evals if absint.deref(e[2]) is not d["lib_env"]]
        if wrong_env:
            ctx.inst(rule, key + "/environment", {"evaluated_in": [repr(absint.deref(e[2])) for e in evals]})
            ctx.oblige(False)
            ctx.report(rule, key + "/environment", "a %s in the body of a library is evaluated in %r, not in the library's own environment: "
                       "the library's code sees (and assigns) the importing program's variables instead of its own" % (
                           "statement that is an expression" if kind == "expression" else kind.replace("-", " "), absint.deref(wrong_env[0][2])), where_of(f))
            continue
        if kind == "expression":
            good = not writes and len(evals) == 1
            ctx.inst(rule, key, {"evaluated_in_library_env": True})
            ctx.oblige(good)
            if not good:
                ctx.report(rule, key, "an expression statement in the body of a library is evaluated %d time(s) and writes %s" % (
                    len(evals), [(repr(e[1]), e[2]) for e in writes]), where_of(f))
            continue
        name = "x" if kind == "definition" else "my-macro"
        good = not foreign and [e[2] for e in writes] == [name]
        ctx.inst(rule, key, {"writes": [(repr(e[1]), e[2]) for e in writes]})
        ctx.oblige(good)
        if not good:
            ctx.report(rule, key, "evaluating a %s in the body of a library writes %s; expected exactly one binding, `%s`, in the library's own "
                       "environment — a write to the interpreter's environment or syntax environment makes an unexported definition visible to "
                       "the importer" % (kind.replace("-", " "), [(repr(e[1]), e[2]) for e in writes], name), where_of(f))
    return decided


# ------------------------------------------------------------------------------------------------ registering a factory


def register_table(fb):
    """Interpreter::register_library_factory(F) on an interpreter that has already instantiated the libraries X and Y: (a) F names X
    (a replacement): X's instance must go, Y's must stay; (b) F names a new library Z: both instances stay.  The factory table ends
    up holding F under its name in both cases."""
    f = fb.find(ITP + "register_library_factory")
    fields = [x["name"] for x in fb.adt("interpreter::interpreter::Interpreter")["variants"][0]["fields"]]
    fv = dict((n, i) for i, n in fb.variants("library_factory::GenericLibraryFactory"))
    rows = []
    for scenario in ("replaces-an-instantiated-library", "names-a-new-library"):
        X, Y, Z = Val("library-X"), Val("library-Y"), Val("library-Z")
        iX, iY = Val("instance-of-X"), Val("instance-of-Y")
        target = X if scenario.startswith("replaces") else Z
        factory = Enum(fv["Native"], [target, Val("native-constructor")])
        factory.name, factory.adt = "Native", "library_factory::GenericLibraryFactory"
        cache, factories = Map(), Map()
        cache.d[machine.key_of(X)] = (X, iX)
        cache.d[machine.key_of(Y)] = (Y, iY)
        oldF = Val("old-factory-of-X")
        factories.d[machine.key_of(X)] = (X, oldF)
        factories.d[machine.key_of(Y)] = (Y, Val("factory-of-Y"))
        selfv = fresh_fields(fb)
        selfv[fields.index("libraries")] = cache
        selfv[fields.index("lib_loader")] = [factories]
        mc = Machine(fb, max_visits=8, budget=500)
        try:
            mc.run(f, [selfv, factory])
        except (absint.Stuck, absint.Loop) as e:
            rows.append((scenario, {"stuck": str(e)}))
            continue
        reg = factories.d.get(machine.key_of(target))
        rows.append((scenario, {"cached": {k: v for k, (k0, v) in ((machine.key_of(k0), (k0, v)) for k0, v in cache.d.values())},
                                "kX": machine.key_of(X), "kY": machine.key_of(Y), "iX": iX, "iY": iY,
                                "registered": reg is not None and (reg[1] is factory or contains_id(reg[1], factory)),
                                "n_factories": len(factories.d)}))
    return f, rows


def rule_register(ctx, rule):
    fb = ctx.fb()
    from .ctx import where_of
    try:
        f, rows = register_table(fb)
    except mir.AnchorMissing as e:
        ctx.undecided(rule, "register_library_factory", str(e))
        return 0
    decided = 0
    for scenario, d in rows:
        key = "register_library_factory/%s" % scenario
        if "stuck" in d:
            ctx.undecided(rule, key, "cannot follow register_library_factory (%s)" % d["stuck"], where_of(f))
            continue
        decided += 1
        hasX, hasY = d["cached"].get(d["kX"]) is d["iX"], d["cached"].get(d["kY"]) is d["iY"]
        if scenario.startswith("replaces"):
            # (whether the instances of OTHER libraries survive a replacement is a design choice — they may have imported the old X —
            # and is recorded as evidence only; that a NEW library leaves every instance alone is the row below)
            good = (not hasX) and d["registered"]
            msg = "registering a replacement for an instantiated library X: X's old instance %s, the new factory %s registered; expected X's " \
                  "instance dropped (the replaced factory must not be shadowed by the instance of the old one) and the factory registered" % (
                      "kept" if hasX else "dropped", "is" if d["registered"] else "is NOT")
        else:
            good = hasX and hasY and d["registered"]
            msg = "registering a factory for a new library Z: the instances of X / Y are %s / %s, the factory %s registered; expected both " \
                  "instances kept (a later import of X or Y must not build a second instance)" % (
                      "kept" if hasX else "DROPPED", "kept" if hasY else "DROPPED", "is" if d["registered"] else "is NOT")
        ctx.inst(rule, key, {"X_instance_kept": hasX, "Y_instance_kept": hasY, "registered": d["registered"]})
        ctx.oblige(good)
        if not good:
            ctx.report(rule, key, msg, where_of(f))
    return decided


# ------------------------------------------------------------------------------------------------ what a library file leaves behind


def file_load_table(fb):
    """get_library(requested) on an interpreter that knows no factory for it, the library file exists and holds (a) another library
    before the requested one, (b) only another library (a wrongly named file): what is registered / cached afterwards.  The file
    lookup, the reader and the choice of the form are followed; the file system, the token reader and the instantiation are answered."""
    f = fb.find(ITP + "get_library")
    fields = [x["name"] for x in fb.adt("interpreter::interpreter::Interpreter")["variants"][0]["fields"]]
    st = dict((n, i) for i, n in fb.variants("parser::parser::Statement"))
    rows = []
    for scenario in ("other-library-before-the-requested-one", "only-another-library"):
        want, other = Val("requested-name"), Val("other-name")
        located = Enum(0, [want, some([3, 1])])
        located.name, located.adt = "Located", "error::Located"

        def libdef(name):
            ld = Enum(0, [[name, []], some([9, 1])])
            ld.name, ld.adt = "Located", "error::Located"
            s_ = Enum(st["LibraryDefinition"], [ld])
            s_.name, s_.adt = "LibraryDefinition", "parser::parser::Statement"
            return s_
        seq = [ok(libdef(other)), ok(libdef(want))] if scenario.startswith("other") else [ok(libdef(other))]
        k = [0]
        parser, inst = Val("parser"), Val("instance")
        cache, factories = Map(), Map()
        selfv = fresh_fields(fb)
        selfv[fields.index("libraries")] = cache
        selfv[fields.index("lib_loader")] = [factories]
        selfv[fields.index("program_directory")] = some(PathTok("program-directory"))

        def icpt(mc, c, a, tt, g, seq=seq, k=k, parser=parser, inst=inst):
            end = c.rsplit("::", 1)[-1]
            if c.endswith("env::current_dir"):
                return ok(PathTok("working-directory"))
            if c.endswith("LibraryName::path"):
                return PathTok("relative-path-of-name")
            if ("path::Path" in c or "PathBuf" in c) and end in ("join", "with_extension", "push", "with_file_name", "to_path_buf", "to_owned",
                                                                "as_path", "clone", "deref", "as_ref", "canonicalize"):
                return ok(a[0]) if end == "canonicalize" else (PathTok((end, a[0], a[1] if len(a) > 1 else None)) if end in ("join", "with_extension") else a[0])
            if ("path::Path" in c or "PathBuf" in c) and end in ("exists", "is_file", "try_exists"):
                return ok(True) if end == "try_exists" else True
            if c.endswith("io::file_char_stream"):
                return ok(Val("char-stream"))
            if c.endswith("Lexer::from_char_stream"):
                return Val("lexer")
            if c.endswith("Parser::from_lexer"):
                return parser
            if a and a[0] is parser and end in ("into_iter", "by_ref"):
                return parser
            if a and a[0] is parser and c.endswith("::next"):
                i = k[0]
                k[0] += 1
                return some(seq[i]) if i < len(seq) else none()
            if a and a[0] is parser and end in ("find_map", "find", "try_fold", "filter_map", "map", "filter", "try_for_each"):
                items = machine.Iter(seq[k[0]:])
                k[0] = len(seq)
                return mc._iter_model(c, end, [items] + list(a[1:]), tt, g)
            if c == ITP + "new_library" or c == ITP + "eval_library_definition":
                return ok(inst)
            return NOT
        mc = Machine(fb, intercept=icpt, max_visits=10, budget=900)
        try:
            res = mc.run(f, [selfv, located])
        except (absint.Stuck, absint.Loop) as e:
            rows.append((scenario, {"stuck": str(e)}))
            continue
        rows.append((scenario, {"result": res, "registered": [k0 for k0, v in factories.d.values()], "cached": [k0 for k0, v in cache.d.values()],
                                "want": want, "other": other}))
    return f, rows


def rule_file_load(ctx, rule):
    """reading a library file for one name registers and caches nothing under any other name: a failed or successful import of (foo)
    must not make a later import of (bar) succeed or fail differently"""
    fb = ctx.fb()
    from .ctx import where_of
    try:
        f, rows = file_load_table(fb)
    except mir.AnchorMissing as e:
        ctx.undecided(rule, "file-load", str(e))
        return 0
    decided = 0
    for scenario, d in rows:
        key = "file-load/%s" % scenario
        if "stuck" in d:
            ctx.undecided(rule, key, "cannot follow get_library on a library file (%s)" % d["stuck"], where_of(f))
            continue
        decided += 1
        foreign = [x for x in d["registered"] + d["cached"] if x is not d["want"]]
        found = scenario.startswith("other")
        res_ok = (getattr(d["result"], "name", None) == "Ok") == found
        good = not foreign and res_ok
        ctx.inst(rule, key, {"registered_or_cached_under_another_name": len(foreign), "result": getattr(d["result"], "name", None)})
        ctx.oblige(good)
        if foreign:
            ctx.report(rule, key, "reading the file of the requested library (%s) leaves the OTHER library the file holds registered / cached: a "
                       "later import of that name succeeds although no file of its own exists — the outcome of an import depends on which "
                       "imports were attempted before" % ("which the file holds after another one" if found else "which the file does not hold"), where_of(f))
        elif not res_ok:
            ctx.report(rule, key, "importing a library whose file %s yields %r" % ("holds it after another library" if found else "holds only another library",
                                                                                  d["result"]), where_of(f))
    return decided
