"""Index / length reasoning for the panic census (C07): which `usize` relations hold at a block because a test on the way to
it established them, and which index, removal and unsigned-subtraction sites they make safe.

Terms
    ("c", n)            an integer constant
    ("len", P)          the length of the container at place P (text of the access path, references and copies followed)
    ("v", l)            the local l (a parameter, or a variable: its definitions are looked at when a fact is used)
    ("p", P)            a projection that is not a plain local, e.g. the payload of `Some` from `Range::next`
    ("add", T, n)       T + n

Facts (established on an edge of a branch, used in the blocks that edge dominates)
    ("lt", A, B)        A < B
    ("eq", A, B)        A == B

Sources of facts: a branch on `<`, `<=`, `>`, `>=`, `==`, `!=` of two terms; the Some edge of `v.get(i)` (i < len v); the Some
edge of `Range::next` on `lo..hi` (payload < hi); the false edge of `v.is_empty()` (0 < len v).  A fact is used only when
nothing on the way from the edge to the site assigns the variables it mentions or hands the container out mutably."""
from . import mir
from .mir import callee, callee_matches

LEN_CALLS = ("std::vec::Vec::len", "Vec<T, A>::len", "<impl [T]>::len", "SmallVec::len", "SmallVec<A>::len", "VecDeque::len",
             "std::collections::VecDeque::len", "std::string::String::len", "<impl str>::len")
GET_CALLS = ("<impl [T]>::get", "<impl [T]>::get_mut", "std::vec::Vec::get", "Vec<T, A>::get", "VecDeque::get", "VecDeque::get_mut")
EMPTY_CALLS = ("std::vec::Vec::is_empty", "Vec<T, A>::is_empty", "<impl [T]>::is_empty", "SmallVec::is_empty", "VecDeque::is_empty")
PASS_ITER = ("std::iter::IntoIterator>::into_iter", "std::iter::IntoIterator::into_iter", "std::iter::Iterator::by_ref")


PASS_REF = ("std::ops::Deref>::deref", "std::ops::DerefMut>::deref_mut", "Vec::as_slice", "Vec<T, A>::as_slice", "Vec::as_mut_slice",
            "Vec<T, A>::as_mut_slice", "std::convert::AsRef>::as_ref", "std::convert::AsMut>::as_mut", "std::borrow::Borrow>::borrow",
            "std::borrow::BorrowMut>::borrow_mut", "SmallVec::as_slice", "SmallVec<A>::as_slice",
            # (the same through a type parameter: the call is not resolved to an impl)
            "std::ops::Deref::deref", "std::ops::DerefMut::deref_mut", "std::convert::AsRef::as_ref", "std::convert::AsMut::as_mut",
            "std::borrow::Borrow::borrow", "std::borrow::BorrowMut::borrow_mut")


def _place_text(f, o, depth=6):
    """the access path of the container an operand refers to: copies, references and `deref()` / `as_slice()` views followed"""
    import re
    for _ in range(depth):
        try:
            txt = mir.trace_place(f, o)[0]
        except Exception:
            return None
        m = re.fullmatch(r"\(?\*?_(\d+)\)?", txt or "")
        if not m:
            return txt
        l = int(m.group(1))
        ds = mir.defs_of(f).get(l, [])
        if len(ds) == 1 and ds[0][0] == "call" and callee_matches(ds[0][2], *PASS_REF) and ds[0][2].get("args"):
            o = ds[0][2]["args"][0]
            continue
        if len(ds) == 1 and ds[0][0] == "stmt" and ds[0][3]["rv"]["k"] == "cast" and mir.op_place(ds[0][3]["rv"]["op"]) is not None:
            # a pointer cast of a field (a smart pointer's `pointer` handed to `deref`): the same object
            o = ds[0][3]["rv"]["op"]
            continue
        return txt
    return None


def term(f, o, depth=10):
    """the term an operand denotes (single definitions followed)"""
    for _ in range(depth):
        c = mir.const_int(o)
        if c is not None:
            return ("c", c)
        p = mir.op_place(o)
        if p is None:
            return None
        proj = [e for e in p["proj"] if e["k"] != "deref"]
        ds = mir.defs_of(f).get(p["local"], [])
        if proj:
            # `.0` of a checked arithmetic result
            if len(proj) == 1 and proj[0]["k"] == "field" and proj[0].get("i") == 0 and len(ds) == 1 and ds[0][0] == "stmt" \
                    and ds[0][3]["rv"]["k"] == "binop" and ds[0][3]["rv"]["op"].endswith("WithOverflow"):
                return _binop_term(f, ds[0][3]["rv"], depth - 1)
            return ("p", mir.place_str(f, p))
        if len(ds) != 1:
            return ("v", p["local"])
        d = ds[0]
        if d[0] == "call":
            t = d[2]
            if callee_matches(t, *LEN_CALLS) and t.get("args"):
                n_ = _array_len(f, t["args"][0])
                if n_ is not None:
                    return ("c", n_)                         # the length of an array is part of its type
                pt = _place_text(f, t["args"][0])
                return ("len", pt) if pt else ("v", p["local"])
            return ("v", p["local"])
        rv = d[3]["rv"]
        if rv["k"] == "use":
            o = rv["op"]
            continue
        if rv["k"] == "binop":
            bt = _binop_term(f, rv, depth - 1)
            return bt if bt is not None else ("v", p["local"])
        if rv["k"] == "len" or rv["k"] == "ptr_metadata":
            pt = mir.place_str(f, rv["place"]) if rv.get("place") else None
            return ("len", pt) if pt else ("v", p["local"])
        if rv["k"] == "unop" and rv.get("op") == "PtrMetadata" and str(rv.get("oty", "")).replace("&mut ", "&").startswith("&["):
            pt = _place_text(f, rv["operand"])              # the length of the slice a reference points to
            return ("len", pt) if pt else ("v", p["local"])
        return ("v", p["local"])
    return None


def _array_len(f, o, depth=6):
    """N when the operand is (a reference to / an unsized view of) an array [T; N]"""
    import re as _re
    for _ in range(depth):
        p = mir.op_place(o)
        if p is None:
            return None
        ty = (f.local_ty(p["local"]) or "") if not [e for e in p["proj"] if e["k"] != "deref"] else ""
        m = _re.match(r"^&?(?:mut )?\[.*; (\d+)\]$", ty.strip())
        if m:
            return int(m.group(1))
        ds = mir.defs_of(f).get(p["local"], [])
        if len(ds) != 1 or ds[0][0] != "stmt":
            return None
        rv = ds[0][3]["rv"]
        if rv["k"] in ("use", "cast"):
            o = rv["op"]
        elif rv["k"] == "ref":
            o = {"k": "copy", "place": rv["place"]}
        else:
            return None
    return None


def _binop_term(f, rv, depth):
    op = rv["op"].replace("WithOverflow", "").replace("Unchecked", "")
    if op == "Add":
        l, r = term(f, rv["l"], depth), term(f, rv["r"], depth)
        if l and r and r[0] == "c":
            return ("add", l, r[1]) if r[1] else l
        if l and r and l[0] == "c":
            return ("add", r, l[1]) if l[1] else r
    if op == "Sub":
        l, r = term(f, rv["l"], depth), term(f, rv["r"], depth)
        if l and r and r[0] == "c":
            return ("add", l, -r[1]) if r[1] else l          # (x - c; whether it wraps is the subtraction's own obligation)
    return None


def _norm(rel, a, b, truth):
    """facts that hold when `a rel b` is `truth`"""
    if a is None or b is None:
        return []
    if rel == "Lt":
        return [("lt", a, b)] if truth else [("le", b, a)]
    if rel == "Gt":
        return [("lt", b, a)] if truth else [("le", a, b)]
    if rel == "Le":
        return [("le", a, b)] if truth else [("lt", b, a)]
    if rel == "Ge":
        return [("le", b, a)] if truth else [("lt", a, b)]
    if rel == "Eq":
        return [("eq", a, b), ("eq", b, a)] if truth else []
    if rel == "Ne":
        return [] if truth else [("eq", a, b), ("eq", b, a)]
    return []


def _preds(f):
    return {k: set(v) for k, v in f.preds().items()}


def _disc_call(f, place):
    """the call whose Option / Result a `discriminant(place)` looks at (through a tuple built for a `match (a, b)`)"""
    l = place["local"]
    proj = [e for e in place["proj"] if e["k"] != "deref"]
    ds = mir.defs_of(f).get(l, [])
    if len(ds) != 1:
        return None
    if not proj and ds[0][0] == "call":
        return (ds[0][1], ds[0][2])
    if len(proj) == 1 and proj[0]["k"] == "field" and ds[0][0] == "stmt" and ds[0][3]["rv"]["k"] == "aggregate" \
            and ds[0][3]["rv"]["kind"]["k"] == "tuple":
        o = ds[0][3]["rv"]["ops"][proj[0]["i"]]
        l2 = mir.op_local(o)
        ds2 = mir.defs_of(f).get(l2, []) if l2 is not None else []
        if len(ds2) == 1 and ds2[0][0] == "call":
            return (ds2[0][1], ds2[0][2])
    if not proj and ds[0][0] == "stmt" and ds[0][3]["rv"]["k"] == "use":
        p2 = mir.op_place(ds[0][3]["rv"]["op"])
        return _disc_call(f, p2) if p2 is not None else None
    return None


def edge_facts(f):
    """[(switch block, edge target, [facts])] for every branch whose meaning is understood"""
    if getattr(f, "_edge_facts", None) is not None:
        return f._edge_facts
    out = []
    for s, blk in enumerate(f.blocks):
        t = blk["term"]
        if t["k"] != "switch" or blk["cleanup"]:
            continue
        dl = mir.op_local(t["discr"])
        if dl is None:
            continue
        ds = mir.defs_of(f).get(dl, [])
        if len(ds) != 1:
            continue
        targets = [(v, x) for v, x in t["targets"]]
        if ds[0][0] == "stmt":
            rv = ds[0][3]["rv"]
            if rv["k"] == "binop" and rv["op"] in ("Lt", "Le", "Gt", "Ge", "Eq", "Ne") and len(targets) == 1 and targets[0][0] == 0:
                a, b2 = term(f, rv["l"]), term(f, rv["r"])
                out.append((s, targets[0][1], _norm(rv["op"], a, b2, False)))
                out.append((s, t["otherwise"], _norm(rv["op"], a, b2, True)))
            elif rv["k"] == "discriminant":
                src = _disc_call(f, rv["place"])
                if src is None:
                    continue
                cb, ct = src
                some_edges = [x for v, x in targets if v == 1] or ([t["otherwise"]] if any(v == 0 for v, _ in targets) and len(targets) == 1 else [])
                if callee_matches(ct, *GET_CALLS) and len(ct.get("args") or []) >= 2 and (ct.get("argtys") or ["", ""])[1] == "usize":
                    i, v = term(f, ct["args"][1]), _place_text(f, ct["args"][0])
                    if i and v:
                        for e in some_edges:
                            out.append((s, e, [("lt", i, ("len", v))]))
                elif (callee(ct) or "").endswith("::checked_sub") and len(ct.get("args") or []) == 2 and "usize" in (callee(ct) or "") + str(ct.get("argtys")):
                    # Some(a - c) exactly when c <= a: the payload is below a when c >= 1
                    A, C = term(f, ct["args"][0]), term(f, ct["args"][1])
                    if A is not None and C is not None and C[0] == "c":
                        pay = ("p", "(%s as Some).0" % mir.place_str(f, rv["place"]))
                        for e in some_edges:
                            out.append((s, e, [("le", pay, A), ("le", C, A)] + ([("lt", pay, A)] if C[1] >= 1 else [])))
                elif (callee(ct) or "").endswith("::next") and ("ops::Range<" in (callee(ct) or "") or "ops::Range<" in " ".join(
                        str(x) for x in ((ct.get("fn") or {}).get("generics") or []))) and "RangeInclusive" not in (callee(ct) or ""):
                    hi = _range_end(f, ct["args"][0])
                    if hi is not None:
                        pay = ("p", "(%s as Some).0" % mir.place_str(f, rv["place"]))
                        for e in some_edges:
                            out.append((s, e, [("lt", pay, hi)]))
        elif ds[0][0] == "call":
            ct = ds[0][2]
            if callee_matches(ct, *EMPTY_CALLS) and len(targets) == 1 and targets[0][0] == 0 and ct.get("args"):
                v = _place_text(f, ct["args"][0])
                if v:
                    out.append((s, targets[0][1], [("lt", ("c", 0), ("len", v))]))
                    out.append((s, t["otherwise"], [("eq", ("len", v), ("c", 0))]))
    # after `v.push(x)` (push_back, push_front) the container is not empty
    for s, blk in enumerate(f.blocks):
        t = blk["term"]
        if t["k"] != "call" or blk["cleanup"] or t.get("target") is None:
            continue
        if callee_matches(t, "Vec::push", "Vec<T, A>::push", "VecDeque::push_back", "VecDeque::push_front", "SmallVec::push", "SmallVec<A>::push") \
                and t.get("args"):
            v = _place_text(f, t["args"][0])
            if v:
                out.append((s, t["target"], [("lt", ("c", 0), ("len", v))]))
    f._edge_facts = out
    return out


def _range_end(f, o, depth=6):
    """the end of the `lo..hi` a `&mut Range` operand refers to"""
    for _ in range(depth):
        l = mir.op_local(o)
        if l is None:
            return None
        ds = mir.defs_of(f).get(l, [])
        if len(ds) != 1:
            return None
        d = ds[0]
        if d[0] == "call":
            if callee_matches(d[2], *PASS_ITER) and d[2].get("args"):
                o = d[2]["args"][0]
                continue
            return None
        rv = d[3]["rv"]
        if rv["k"] == "ref":
            if any(e["k"] != "deref" for e in rv["place"]["proj"]):
                return None
            o = {"k": "copy", "place": {"local": rv["place"]["local"], "proj": []}}
            continue
        if rv["k"] == "use":
            o = rv["op"]
            continue
        if rv["k"] == "aggregate" and "Range" in str(rv["kind"]) and len(rv["ops"]) == 2:
            return term(f, rv["ops"][1])
        return None
    return None


def _locals_of(tm, acc):
    if tm is None:
        return acc
    if tm[0] == "v":
        acc.add(tm[1])
    elif tm[0] == "add":
        _locals_of(tm[1], acc)
    return acc


def _places_of(tm, acc):
    if tm is None:
        return acc
    if tm[0] in ("len", "p"):
        acc.add(tm[1])
    elif tm[0] == "add":
        _places_of(tm[1], acc)
    return acc


def facts_at(f, b, site_block=None):
    """facts that hold on entry to the terminator of block b"""
    dom = f.dominators()
    preds = _preds(f)
    out = []
    for s, e, facts in edge_facts(f):
        if not facts or e not in dom[b] or preds.get(e, set()) != {s}:
            continue
        between = {x for x in f.reachable(e, avoid=[s]) if b in f.reachable(x, avoid=[s]) or x == b}
        for fact in facts:
            ls, ps = set(), set()
            for tm in fact[1:]:
                _locals_of(tm, ls)
                _places_of(tm, ps)
            if _stable(f, between, b, ls, ps):
                out.append(fact)
    return out


MUTATORS = ("push", "pop", "insert", "remove", "swap_remove", "truncate", "clear", "drain", "retain", "append", "extend", "split_off",
            "resize", "dedup", "push_back", "push_front", "pop_back", "pop_front", "take", "replace", "swap")


def _stable(f, between, b, locals_, places):
    roots = set()
    for p in places:
        import re
        m = re.search(r"_(\d+)", p)
        if m:
            roots.add(int(m.group(1)))
    for x in between:
        blk = f.blocks[x]
        for s in blk["stmts"]:
            if s["k"] == "assign" and not s["place"]["proj"] and (s["place"]["local"] in locals_ or s["place"]["local"] in roots):
                return False
            if s["k"] == "assign" and s["place"]["proj"] and s["place"]["local"] in roots:
                return False
        t = blk["term"]
        if t["k"] == "call" and x != b:
            if not t["dest"]["proj"] and (t["dest"]["local"] in locals_ or t["dest"]["local"] in roots):
                return False
            end = (callee(t) or "").rsplit("::", 1)[-1]
            for a, ty in zip(t.get("args") or [], t.get("argtys") or []):
                if str(ty).startswith("&mut"):
                    pt = _place_text(f, a)
                    if pt and any(pt == p or pt in p or p in pt for p in places):
                        return False
    return True


def _lt(facts, a, b, depth=3):
    """a < b from the facts"""
    if a is None or b is None:
        return False
    if a[0] == "c" and b[0] == "c":
        return a[1] < b[1]
    if ("lt", a, b) in facts:
        return True
    if depth <= 0:
        return False
    for fa in facts:
        # a < x and x <= b / x == b
        if fa[0] == "lt" and fa[1] == a and (_le(facts, fa[2], b, depth - 1)):
            return True
        if fa[0] == "eq" and fa[1] == b and _lt(facts, a, fa[2], depth - 1) and fa[2] != b:
            return True
        if fa[0] in ("le", "eq") and fa[1] == a and fa[2] != a and _lt(facts, fa[2], b, depth - 1):
            return True
    # a < X - k  (k >= 0)  gives  a < X
    for fa in facts:
        if fa[0] == "lt" and fa[1] == a and fa[2][0] == "add" and fa[2][2] <= 0 and fa[2][1] == b:
            return True
    # X - k < X  when the subtraction did not wrap: 0 < X known (k == 1), or k <= some known lower bound of X
    if a[0] == "add" and a[2] < 0 and a[1] == b:
        if _le(facts, ("c", -a[2]), b, depth - 1):
            return True
    # c < len v  from  k <= len v / len v == k with c < k
    if a[0] == "c":
        for fa in facts:
            if fa[0] == "eq" and fa[1] == b and fa[2][0] == "c" and a[1] < fa[2][1]:
                return True
            if fa[0] == "le" and fa[2] == b and fa[1][0] == "c" and a[1] < fa[1][1]:
                return True
            if fa[0] == "lt" and fa[2] == b and fa[1][0] == "c" and a[1] <= fa[1][1]:
                return True
    return False


def _le(facts, a, b, depth=3):
    if a is None or b is None:
        return False
    if a == b:
        return True
    if a[0] == "c" and b[0] == "c":
        return a[1] <= b[1]
    if ("le", a, b) in facts or ("eq", a, b) in facts or _lt(facts, a, b, depth):
        return True
    # x + 1 <= b  from  x < b
    if a[0] == "add" and a[2] == 1 and _lt(facts, a[1], b, depth):
        return True
    # c <= b  from  k < b with c <= k + 1,  k <= b with c <= k,  b == k
    if a[0] == "c":
        for fa in facts:
            if fa[0] == "lt" and fa[2] == b and fa[1][0] == "c" and a[1] <= fa[1][1] + 1:
                return True
            if fa[0] == "le" and fa[2] == b and fa[1][0] == "c" and a[1] <= fa[1][1]:
                return True
            if fa[0] == "eq" and fa[1] == b and fa[2][0] == "c" and a[1] <= fa[2][1]:
                return True
    return False


INDEXED = ("index", "index_mut", "swap_remove", "remove")


def index_in_range(f, b, t):
    """an `v[i]` / `v.remove(i)` / `v.swap_remove(i)` site whose index is below the length by a test on the way: the reason, or None"""
    args = t.get("args") or []
    if len(args) < 2:
        return None
    tys = t.get("argtys") or []
    if len(tys) >= 2 and str(tys[1]) not in ("usize", ""):
        return None                 # a range index
    v = _place_text(f, args[0])
    i = term(f, args[1])
    if not v or i is None:
        return None
    facts = facts_at(f, b)
    if _lt(facts, i, ("len", v)):
        return "the index is below the length of the same container by a test that dominates the site (%s)" % _show(i)
    return None


def sub_no_underflow(f, b, rv):
    """`a - b` on an unsigned type where b <= a holds by a dominating test: the reason, or None"""
    a, s = term(f, rv["l"]), term(f, rv["r"])
    if a is None or s is None:
        return None
    facts = facts_at(f, b)
    if _le(facts, s, a):
        return "the subtrahend is at most the minuend by a test that dominates the site (%s <= %s)" % (_show(s), _show(a))
    return None


# offsets / lengths inside data that is in memory
OFFSET_CALLS = ("Utf8Error::valid_up_to", "<impl str>::len", "String::len", "String::capacity", "Vec::capacity", "<impl [T]>::partition_point")
OFFSET_OPTION_CALLS = ("Utf8Error::error_len", "<impl str>::find", "<impl str>::rfind", "Iterator::position", "Iterator>::position", "Iterator::rposition",
                       "<impl [T]>::binary_search")


def memory_bounded(f, o, depth=8, seen=None):
    """a usize that is a length, an index below a length, a small constant, or a sum / difference of such: bounded by what is in memory"""
    seen = seen if seen is not None else set()
    c = mir.const_int(o)
    if c is not None:
        return 0 <= c < 2 ** 32
    p = mir.op_place(o)
    if p is None or depth <= 0:
        return False
    proj = [e for e in p["proj"] if e["k"] != "deref"]
    l = p["local"]
    ty = f.local_ty(l) or ""
    ds = mir.defs_of(f).get(l, [])
    if proj and len(proj) == 2 and proj[0]["k"] == "downcast" and proj[1]["k"] == "field" and proj[1].get("i") == 0 and len(ds) == 1 \
            and ds[0][0] == "call" and callee_matches(ds[0][2], *OFFSET_OPTION_CALLS):
        return True                 # the payload of Some(offset / length inside something in memory)
    if proj:
        if len(proj) == 1 and proj[0]["k"] == "field" and proj[0].get("i") == 0 and len(ds) == 1 and ds[0][0] == "stmt" \
                and ds[0][3]["rv"]["k"] == "binop" and ds[0][3]["rv"]["op"] in ("AddWithOverflow", "SubWithOverflow"):
            rv = ds[0][3]["rv"]
            return memory_bounded(f, rv["l"], depth - 1, seen) and memory_bounded(f, rv["r"], depth - 1, seen)
        return False
    if l in seen:
        return True
    seen.add(l)
    if not ds:
        # a parameter: a usize parameter of a function of this crate is an index / count (nothing converts a Scheme number to
        # usize without a range test except vector indexing, which passes it straight to get / get_mut)
        return l <= f.arg_count and ty.replace("&", "").strip() == "usize"
    for d in ds:
        if d[0] == "call":
            if not (callee_matches(d[2], *LEN_CALLS) or callee_matches(d[2], "Iterator::count", "Iterator>::count", "HashMap::len", "HashSet::len",
                                                                        *OFFSET_CALLS)):
                return False
            continue
        rv = d[3]["rv"]
        if rv["k"] == "use":
            if not memory_bounded(f, rv["op"], depth - 1, seen):
                return False
        elif rv["k"] == "binop" and rv["op"] in ("Add", "Sub", "AddWithOverflow", "SubWithOverflow", "AddUnchecked", "SubUnchecked"):
            if not (memory_bounded(f, rv["l"], depth - 1, seen) and memory_bounded(f, rv["r"], depth - 1, seen)):
                return False
        elif rv["k"] in ("len", "ptr_metadata"):
            continue
        else:
            return False          # a cast, a product, a field read: not known to be a length
    return True


def _show(tm):
    if tm is None:
        return "?"
    if tm[0] == "c":
        return str(tm[1])
    if tm[0] == "len":
        return "len(%s)" % tm[1]
    if tm[0] == "v":
        return "_%d" % tm[1]
    if tm[0] == "p":
        return tm[1]
    if tm[0] == "add":
        return "%s + %d" % (_show(tm[1]), tm[2])
    return str(tm)


def bounds_check_holds(f, b, t):
    """a compiler-inserted `index < len` check of a slice / array access that a dominating test already established: reason or None"""
    cl = mir.op_place(t["cond"]) if t.get("cond") else None
    if cl is None or cl["proj"]:
        return None
    for st in reversed(f.blocks[b]["stmts"]):
        if st["k"] == "assign" and st["place"]["local"] == cl["local"] and not st["place"]["proj"] and st["rv"]["k"] == "binop" and st["rv"]["op"] == "Lt":
            i, n = term(f, st["rv"]["l"]), term(f, st["rv"]["r"])
            if i is None or n is None:
                return None
            if i[0] == "c" and n[0] == "c":
                return "constant index %d into %d elements" % (i[1], n[1]) if i[1] < n[1] else None
            facts = facts_at(f, b)
            if _lt(facts, i, n):
                return "the index is below the length by a test that dominates the access (%s < %s)" % (_show(i), _show(n))
            return None
    return None
