"""C11 decision tables: every list procedure of scheme/base.sld named in the property, evaluated by abstract interpretation of its
Scheme source (engine/scm/listeval.py) on symbolic lists — opaque atoms, an opaque procedure argument whose calls are the events —
and compared with the R7RS (folds: minischeme) definition written out in Python below.  Rows: proper lists of length 0..3, improper
lists, nested lists, every index from 0 to one past the end; the claim is the table."""
import itertools
from scm import listeval as L
from scm.listeval import Atom, Pair, NIL, mklist, show, OpaqueProc, SchemeError, Diverges, Unsupported


class RefError(Exception):
    pass


def items(v):
    out = []
    while isinstance(v, Pair):
        out.append(v.car)
        v = v.cdr
    return out, v


def r_car(v):
    if not isinstance(v, Pair):
        raise RefError("car of a non-pair")
    return v.car


def r_cdr(v):
    if not isinstance(v, Pair):
        raise RefError("cdr of a non-pair")
    return v.cdr


def r_cxr(path):
    def f(v):
        for ch in reversed(path):
            v = r_car(v) if ch == "a" else r_cdr(v)
        return v
    return f


def r_list_tail(x, k):
    for _ in range(k):
        x = r_cdr(x)
    return x


def r_equal(x, y):
    if isinstance(x, Pair) or isinstance(y, Pair):
        return isinstance(x, Pair) and isinstance(y, Pair) and r_equal(x.car, y.car) and r_equal(x.cdr, y.cdr)
    return L.eqv(x, y)


def r_mem(obj, lst):
    while isinstance(lst, Pair):
        if L.eqv(obj, lst.car):
            return lst
        lst = lst.cdr
    return False


def r_append(*lsts):
    if not lsts:
        return NIL
    out = lsts[-1]
    for l in reversed(lsts[:-1]):
        its, tail = items(l)
        if tail is not NIL:
            raise RefError("append: a non-final argument is not a proper list")
        out = mklist(its, out)
    return out


def r_last_pair(x):
    if not isinstance(x, Pair):
        raise RefError("last-pair of a non-pair")
    while isinstance(x.cdr, Pair):
        x = x.cdr
    return x


def r_list_p(x):
    its, tail = items(x)
    return tail is NIL


def outcome(fn):
    try:
        return ("value", fn())
    except (SchemeError, RefError):
        return ("error", None)


def describe(o, trace=None):
    s = "an error" if o[0] == "error" else show(o[1])
    if trace is not None:
        s += " after the calls %s" % [tuple(show(a) for a in args) for args in trace]
    return s


def rows():
    """(procedure, label, args builder -> (args, reference thunk, uses_proc))"""
    def atoms(n, pfx="e"):
        return [Atom("%s%d" % (pfx, i + 1)) for i in range(n)]
    out = []
    # ---- c[ad]{2,3}r on a complete tree of depth 3, on a tree that is too shallow, on an atom
    def tree(d, pfx="t"):
        if d == 0:
            return Atom(pfx)
        return Pair(tree(d - 1, pfx + "a"), tree(d - 1, pfx + "d"))
    for n in (2, 3):
        for p in itertools.product("ad", repeat=n):
            path = "".join(p)
            name = "c%sr" % path
            for label, arg in (("full-tree", tree(3)), ("shallow-tree", tree(n - 1)), ("atom", Atom("x"))):
                out.append((name, label, [arg], (lambda f=r_cxr(path), a=arg: f(a)), False))
    # ---- list, make-list, null?, list?
    for n in range(0, 4):
        xs = atoms(n)
        out.append(("list", "%d-args" % n, list(xs), (lambda xs=xs: mklist(xs)), False))
        fill = Atom("fill")
        out.append(("make-list", "k=%d" % n, [n, fill], (lambda n=n, fill=fill: mklist([fill] * n)), False))
    for label, v in (("empty", NIL), ("atom", Atom("x")), ("pair", mklist(atoms(1))), ("false", False)):
        out.append(("null?", label, [v], (lambda v=v: v is NIL), False))
    for label, v in [("proper-%d" % n, mklist(atoms(n))) for n in range(0, 4)] + [("improper-%d" % n, mklist(atoms(n), Atom("tail"))) for n in (1, 2)] + \
            [("atom", Atom("x"))]:
        out.append(("list?", label, [v], (lambda v=v: r_list_p(v)), False))
    # ---- append: 0..3 arguments of length 0..2; the last argument may be any object
    shapes = [0, 1, 2]
    for k in range(0, 4):
        for lens in itertools.product(shapes, repeat=k):
            args = [mklist(atoms(n, "l%d_" % i)) for i, n in enumerate(lens)]
            out.append(("append", "lengths=%s" % (list(lens),), args, (lambda args=args: r_append(*args)), False))
    for label, args in (("last-is-atom", [mklist(atoms(1, "a")), Atom("tail")]), ("only-an-atom", [Atom("tail")]),
                        ("last-is-improper", [mklist(atoms(1, "a")), mklist(atoms(1, "b"), Atom("tail"))]),
                        ("empty-then-atom", [NIL, Atom("tail")])):
        out.append(("append", label, args, (lambda args=args: r_append(*args)), False))
    # ---- map / for-each / folds: an opaque procedure
    for n in range(0, 4):
        xs = atoms(n)

        def ref_map(P, xs=xs):
            return mklist([P(x) for x in xs])

        def ref_each(P, xs=xs):
            for x in xs:
                P(x)
            return None

        def ref_fl(P, xs=xs):
            acc = INIT
            for x in xs:
                acc = P(x, acc)
            return acc

        def ref_fr(P, xs=xs):
            acc = INIT
            for x in reversed(xs):
                acc = P(x, acc)
            return acc
        out.append(("map", "length-%d" % n, ["PROC", mklist(xs)], ref_map, True))
        out.append(("for-each", "length-%d" % n, ["PROC", mklist(xs)], ref_each, True))
        out.append(("fold-left", "length-%d" % n, ["PROC", INIT, mklist(xs)], ref_fl, True))
        out.append(("fold-right", "length-%d" % n, ["PROC", INIT, mklist(xs)], ref_fr, True))
        # what the procedure returns is its own business: the same rows with a procedure that returns #f at its first / second call
        for k in range(1, n):
            fz = frozenset([k])
            out.append(("map", "length-%d/call-%d-returns-#f" % (n, k), ["PROC", mklist(xs)], ref_map, fz))
            out.append(("for-each", "length-%d/call-%d-returns-#f" % (n, k), ["PROC", mklist(xs)], ref_each, fz))
            out.append(("fold-left", "length-%d/call-%d-returns-#f" % (n, k), ["PROC", INIT, mklist(xs)], ref_fl, fz))
            out.append(("fold-right", "length-%d/call-%d-returns-#f" % (n, k), ["PROC", INIT, mklist(xs)], ref_fr, fz))
    # ---- list-tail / list-ref / last-pair
    for n in range(0, 4):
        for tail_label, tail in (("proper", NIL), ("improper", Atom("tail"))):
            if n == 0 and tail is not NIL:
                continue
            xs = atoms(n)
            lst = mklist(xs, tail)
            for k in range(0, n + 2):
                out.append(("list-tail", "%s-%d/k=%d" % (tail_label, n, k), [lst, k], (lambda lst=lst, k=k: r_list_tail(lst, k)), False))
                out.append(("list-ref", "%s-%d/k=%d" % (tail_label, n, k), [lst, k], (lambda lst=lst, k=k: r_car(r_list_tail(lst, k))), False))
            out.append(("last-pair", "%s-%d" % (tail_label, n), [lst], (lambda lst=lst: r_last_pair(lst)), False))
    # ---- memq / memv: position first / middle / last / absent; memv on numbers of equal value and different exactness
    for n in range(0, 4):
        xs = atoms(n)
        lst = mklist(xs)
        for label, obj in [("at-%d" % i, x) for i, x in enumerate(xs)] + [("absent", Atom("other"))]:
            for name in ("memq", "memv"):
                out.append((name, "length-%d/%s" % (n, label), [obj, lst], (lambda obj=obj, lst=lst: r_mem(obj, lst)), False))
    # an element that is a list with the same atoms as the object, but another object (equal?, not eqv?): memq / memv pass it by,
    # wherever in the list it stands
    for pos in range(3):
        pa, pb = Atom("pa"), Atom("pb")
        obj = mklist([pa, pb])
        others = atoms(2, "o")
        elems = others[:pos] + [mklist([pa, pb])] + others[pos:]
        lst = mklist(elems)
        for name in ("memq", "memv"):
            out.append((name, "equal-but-not-identical-list/at-%d" % pos, [obj, lst], (lambda obj=obj, lst=lst: r_mem(obj, lst)), False))
    two, two_inexact, three = Atom("2", 2, True), Atom("2.0", 2, False), Atom("3", 3, True)
    out.append(("memv", "exact-2-among-inexact-2", [Atom("2'", 2, True), mklist([three, two_inexact, two])],
                (lambda a=Atom("2'", 2, True), l=mklist([three, two_inexact, two]): r_mem(a, l)), False))
    # ---- equal?: nested structure, leaves by eqv?
    def nest():
        a, b, c = Atom("a"), Atom("b"), Atom("c")
        return a, b, c
    a, b, c = nest()
    cases = [
        ("same-atom", a, a), ("different-atoms", a, b), ("empty-lists", NIL, NIL), ("list-vs-empty", mklist([a]), NIL), ("atom-vs-list", a, mklist([a])),
        ("equal-lists", mklist([a, b]), mklist([a, b])), ("different-last", mklist([a, b]), mklist([a, c])), ("prefix", mklist([a]), mklist([a, b])),
        ("nested-equal", mklist([a, mklist([b, c])]), mklist([a, mklist([b, c])])), ("nested-different", mklist([a, mklist([b, c])]), mklist([a, mklist([b, a])])),
        ("improper-equal", mklist([a], b), mklist([a], b)), ("improper-vs-proper", mklist([a], b), mklist([a, b])),
        ("number-same-exactness", mklist([Atom("2", 2, True)]), mklist([Atom("2'", 2, True)])),
        ("number-different-exactness", mklist([a, Atom("2", 2, True)]), mklist([a, Atom("2.0", 2, False)])),
        ("numbers-different", Atom("2", 2, True), Atom("3", 3, True)),
    ]
    for label, x, y in cases:
        out.append(("equal?", label, [x, y], (lambda x=x, y=y: r_equal(x, y)), False))
    return out


INIT = Atom("init")
SPECIFIED = ("caar cadr cdar cddr caaar caadr cadar caddr cdaar cdadr cddar cdddr list make-list null? list? append map for-each fold-left "
             "fold-right list-tail list-ref last-pair memq memv equal?").split()


def native_rows(ctx, rule, name):
    """`name` is supplied by the native library instead of scheme/base.sld: the same rows, run through the Rust procedure registered
    under that name (abstract machine on real list values with opaque atoms).  -> rows decided, or None when there is no such native"""
    from . import registry, evaltables, machine, absint, mir
    from .absint import Enum
    fb = ctx.fb()
    try:
        regs = {r["name"]: r for r in registry.read(fb)}
    except Exception:
        return None
    r = regs.get(name)
    f = fb.by_path(r["target"]) if r and r.get("target") else None
    if f is None:
        return None
    from .ctx import where_of
    w = evaltables.tables(fb)["w"]
    num = dict((n, i) for i, n in fb.variants("values::Number"))

    def val(v, toks):
        if isinstance(v, Pair) or v is NIL:
            node = w.named(w.gp, "Empty", []) if v is NIL else w.named(w.gp, "Some", [val(v.car, toks), val(v.cdr, toks)])
            node.adt = "parser::pair::GenericPair"
            e = w.named(w.val, "Pair", [node])
        elif isinstance(v, bool):
            e = w.named(w.val, "Boolean", [v])
        elif isinstance(v, int):
            e = w.named(w.val, "Number", [w.named(num, "Integer", [v])])
        elif isinstance(v, Atom) and getattr(v, "num", None) is not None and getattr(v, "exact", True):
            e = w.named(w.val, "Number", [w.named(num, "Integer", [int(v.num)])])
        else:
            # (an atom of the table: a symbol of its own — a real value, so that code asking "is this a pair?" gets an answer)
            nm_ = "atom-%d" % len(toks)
            toks[nm_] = v
            e = w.named(w.val, "Symbol", [nm_])
        e.adt = "values::Value"
        return e

    def back(x, toks):
        x = absint.deref(x)
        if isinstance(x, Enum):
            n = getattr(x, "name", None)
            if n == "Symbol" and x.fields and x.fields[0] in toks:
                return toks[x.fields[0]]
            if n == "Pair":
                node = absint.deref(x.fields[0])
                if getattr(node, "name", None) == "Empty":
                    return NIL
                return Pair(back(node.fields[0], toks), back(node.fields[1], toks))
            if n == "Boolean":
                return bool(x.fields[0])
            if n == "Number" and isinstance(x.fields[0], Enum) and x.fields[0].variant == num.get("Integer"):
                return x.fields[0].fields[0]
        raise ValueError("a result this table cannot read (%r)" % (x,))
    n_rows, bad, und = 0, None, None
    for nm, label, args, ref, uses_proc in rows():
        if nm != name:
            continue
        if uses_proc or any(a == "PROC" for a in args):
            und = und or "rows with a procedure argument are not run through the native"
            continue
        toks = {}
        try:
            margs = [val(a, toks) for a in args]
            mc = machine.Machine(fb, max_visits=12, budget=2000)
            res = mc.run(f, [margs] + [absint.UNKNOWN] * max(0, f.arg_count - 1))
        except (absint.Stuck, absint.Loop) as e:
            und = und or "(%s %s): %s" % (name, " ".join(show(a) for a in args), e)
            continue
        want = outcome(ref)
        panics = [e for e in mc.events if e[0] == "panic"]
        try:
            if panics:
                got = ("panic", panics[0][1])
            elif isinstance(res, Enum) and getattr(res, "name", None) == "Ok":
                got = ("value", back(res.fields[0], toks))
            elif isinstance(res, Enum) and getattr(res, "name", None) == "Err":
                got = ("error", None)
            else:
                raise ValueError("result %r" % (res,))
        except ValueError as e:
            und = und or "(%s %s): %s" % (name, " ".join(show(a) for a in args), e)
            continue
        n_rows += 1
        same = got[0] == want[0] and (got[0] != "value" or show(got[1]) == show(want[1]))
        if not same and bad is None:
            bad = "(%s %s) [%s] gives %s; its definition gives %s" % (name, " ".join(show(a) for a in args), label,
                                                                      "a panic (%s)" % got[1] if got[0] == "panic" else describe(got), describe(want))
    if und:
        ctx.undecided(rule, name, "native %s: %s" % (name, und), where_of(f))
    ctx.inst(rule, name, {"rows": n_rows, "agrees_with_definition": bad is None, "native": f.name})
    ctx.oblige(bad is None)
    if bad:
        ctx.report(rule, name, bad + " (the native procedure registered as %s)" % name, where_of(f))
    return n_rows


def rule_list_library(ctx, rule, only=None):
    from .ctx import where_of
    import os
    where = L.library.BASE
    try:
        w = L.World(os.environ.get("VERIF_REPO", "/repo"))
    except Exception as e:
        ctx.undecided(rule, "library", "cannot load scheme/base.sld for abstract evaluation (%s)" % e, where)
        return 0
    for name, why in w.problems:
        ctx.undecided(rule, name + "/expand", "%s: %s" % (name, why), where)
    decided = 0
    per = {}
    for name, label, args, ref, uses_proc in rows():
        if only is not None and name not in only:
            continue
        if name not in w.genv:
            per.setdefault(name, {"rows": 0, "bad": None, "native_or_missing": True})
            continue
        if name in w.native_names:
            continue                      # supplied natively: decided on the Rust side
        st = per.setdefault(name, {"rows": 0, "bad": None, "undecided": None})
        tr_got, tr_ref = [], []
        falsy = uses_proc if isinstance(uses_proc, frozenset) else frozenset()
        P_got, P_ref = OpaqueProc("P", tr_got, falsy), OpaqueProc("P", tr_ref, falsy)
        a_got = [P_got if a == "PROC" else a for a in args]

        def call_ref(*xs):
            P_ref.k += 1
            r = False if P_ref.k in falsy else Atom("P#%d" % P_ref.k)
            tr_ref.append(tuple(xs))
            return r
        try:
            got = outcome(lambda: w.run(name, a_got, tr_got))
        except (Diverges, Unsupported) as e:
            st["undecided"] = st["undecided"] or "(%s %s): %s" % (name, " ".join(show(a) if a != "PROC" else "P" for a in args), e)
            continue
        want = outcome((lambda: ref(call_ref)) if uses_proc else ref)
        st["rows"] += 1
        got_tr = [t[2] for t in tr_got]
        same_value = got[0] == want[0] and (got[0] == "error" or name == "for-each" or show(got[1]) == show(want[1]))
        same_trace = [tuple(show(x) for x in t) for t in got_tr] == [tuple(show(x) for x in t) for t in tr_ref]
        if not (same_value and same_trace) and st["bad"] is None:
            call = "(%s %s)" % (name, " ".join("P" if a == "PROC" else show(a) for a in args))
            st["bad"] = "%s [%s] gives %s; its definition gives %s" % (
                call, label, describe(got, got_tr if uses_proc else None), describe(want, tr_ref if uses_proc else None))
    for name in SPECIFIED:
        if only is not None and name not in only:
            continue
        st = per.get(name)
        if st is None:
            continue
        if st.get("native_or_missing"):
            nat = native_rows(ctx, rule, name)
            if nat is None:
                ctx.undecided(rule, name, "%s is not defined in scheme/base.sld (native or missing): no table" % name, where)
            else:
                decided += 1 if nat else 0
            continue
        if st.get("undecided"):
            ctx.undecided(rule, name, st["undecided"], where)
        if st["rows"]:
            decided += 1
        ctx.inst(rule, name, {"rows": st["rows"], "agrees_with_definition": st["bad"] is None})
        ctx.oblige(st["bad"] is None)
        if st["bad"]:
            ctx.report(rule, name, st["bad"], where)
    return decided
