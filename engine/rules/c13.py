"""C13 — Libraries are encapsulated and loaded once per program (structural part)."""
from . import mir
from .mir import callee, callee_matches, Prov
from .ctx import where_of

EXPLANATION = (
    'Decision tables of the library machinery: (fresh-env, exports-only) eval_library_definition on (define- '
    'library NAME (import I) (export a (rename b bb)) (begin S1 S2)): one fresh root environment receives the '
    "imports, the body and the export lookups, never the interpreter's own environment; the library exposes "
    'exactly the exported names under their external names; an unbound export is an error; (export-parse) (rename '
    "a b) is internal a, external b; (import-copies) importing defines new bindings in the importer's "
    'environment; (single-instance) get_library: first use instantiates once (AST and native factories, '
    'registered or found on disk) and caches, a second use returns the cached instance without instantiating, a '
    'failed instantiation caches nothing. (body statements) a definition / syntax definition in a library body '
    "writes exactly one binding, into the library's own environment, never into the interpreter's environment or "
    'syntax environment.')
NOT_DECIDED = ("observational equivalence with a reference module system; what library bodies compute.")


def run(ctx):
    fb = ctx.fb()
    ctx.trust("rustc nightly MIR; provenance is flow-insensitive (used only for 'derives only from' / 'never from')")
    eld = fb.find("interpreter::interpreter::Interpreter::eval_library_definition")
    p = Prov(eld)

    # ------------------------------------------------------------------ C13-fresh-env
    ctx.rule("C13-fresh-env", "a library body runs in a fresh root environment (never the importer's)")
    from . import libtables as _lt
    ctx.rule("C13-exports-only", "only exported names leave the library, under their external names")
    d_def = _lt.rule_definition(ctx, "C13-fresh-env", "C13-exports-only")
    _lt.rule_statement(ctx, "C13-exports-only")       # what one body statement (definition, syntax definition) writes, and where
    def _old_env():
        news = [(b, t) for b, t in eld.calls() if callee_matches(t, "environment::LexicalScope::new")]
        loops = eld.loop_blocks()
        if len(news) != 1 or news[0][0] in loops:
            ctx.report("C13-fresh-env", "new", "expected exactly one LexicalScope::new() outside the loops, found %d" % len(news),
                       where_of(eld))
        n_env_uses = 0
        for b, t in eld.calls():
            c = callee(t) or ""
            if c.endswith("Interpreter::eval_import") or c.endswith("Interpreter::eval_expression_or_definition") \
                    or c.endswith("Interpreter::eval_expression") or c.endswith("Interpreter::eval_ast"):
                envop = t["args"][-1]
                cr = {n for _, n in p.call_roots(envop)}
                ar = p.arg_roots(envop)
                ok = cr == {"environment::LexicalScope::new"} and not ar
                n_env_uses += 1
                ctx.inst("C13-fresh-env", "%s@env" % c.rsplit("::", 1)[-1], {"call_roots": sorted(cr), "arg_roots": sorted(ar)})
                if not ok:
                    ctx.report("C13-fresh-env", c.rsplit("::", 1)[-1], "the environment handed to %s derives from %s / "
                               "parameters %s, expected only the fresh LexicalScope::new()" % (c, sorted(cr), sorted(ar)),
                               where_of(eld, t))
            if c.endswith("LexicalScope::new_child"):
                ctx.report("C13-fresh-env", "child", "the library environment is created as a child of another scope",
                           where_of(eld, t))
        if n_env_uses < 2:
            ctx.undecided("C13-fresh-env", "floor", "expected the import and the begin declarations to be evaluated here", where_of(eld))
    ctx.guarded('C13-fresh-env', d_def >= 2, _old_env)

    # ------------------------------------------------------------------ C13-exports-only
    ctx.rule("C13-exports-only", "only exported names leave the library, under their external names")
    def _old_exports():
        from . import privacy
        privacy.require_restricted(ctx, "C13-exports-only", fb, "interpreter::library::Library", ["0", "1"],
                                   "an importer could read a library's private definitions directly instead of its export list")
        libnew = [(b, t) for b, t in eld.calls() if callee_matches(t, "interpreter::library::Library::new")]
        if len(libnew) != 1:
            ctx.report("C13-exports-only", "Library::new", "expected one Library::new, found %d" % len(libnew), where_of(eld))
        else:
            b, t = libnew[0]
            maplocal = mir.op_local(t["args"][1])
            # all writers of the map
            src = p.reach_locals(maplocal)
            writers = []
            for bb, tt in eld.calls():
                for a in tt["args"][:1]:
                    l = mir.op_local(a)
                    if l is not None and eld.local_ty(l).startswith("&mut"):
                        root, path = mir.trace_access(eld, a)
                        if root in src and root != 1:
                            writers.append((bb, tt))
            names = sorted({callee(tt) for _, tt in writers})
            ctx.inst("C13-exports-only", "map-writers", names)
            for bb, tt in writers:
                if not callee_matches(tt, "std::collections::HashMap::insert"):
                    ctx.report("C13-exports-only", "writer/%s" % (callee(tt) or "?").rsplit("::", 1)[-1],
                               "the export map is written by %s (only per-export insert is expected)" % callee(tt), where_of(eld, tt))
            ins = [(bb, tt) for bb, tt in writers if callee_matches(tt, "std::collections::HashMap::insert")]
            gets = [(bb, tt) for bb, tt in eld.calls() if callee_matches(tt, "environment::LexicalScope::get")]
            if len(ins) != 1 or len(gets) != 1:
                ctx.report("C13-exports-only", "shape", "expected one insert and one environment lookup per export "
                           "(found %d, %d)" % (len(ins), len(gets)), where_of(eld))
            else:
                (ib, it), (gb, gt) = ins[0], gets[0]
                loops = eld.loop_blocks()
                if ib not in loops or gb not in loops:
                    ctx.report("C13-exports-only", "loop", "exports are not copied out in a loop over the export specs", where_of(eld))
                # environment of the lookup is the fresh one
                cr = {n for _, n in p.call_roots(gt["args"][0])}
                if cr != {"environment::LexicalScope::new"}:
                    ctx.report("C13-exports-only", "lookup-env", "exported values are looked up in %s" % sorted(cr), where_of(eld, gt))
                # value inserted derives from the lookup
                vroots = {n for _, n in p.call_roots(it["args"][2])}
                if "environment::LexicalScope::get" not in vroots:
                    ctx.report("C13-exports-only", "value", "the exported value does not come from the library environment",
                               where_of(eld, it))
                # key = external name, lookup = internal name
                kroot, kpath = mir.trace_access(eld, it["args"][1])
                groot, gpath = mir.trace_access(eld, gt["args"][1])
                ctx.inst("C13-exports-only", "names", {"insert_key": (kroot, kpath), "lookup_key": (groot, gpath)})
                # both come from the (from, to) tuple; find the tuple aggregates and their variant sources
                def spec_field(o):
                    """which field of which ExportSpec variant the operand reads, per defining aggregate"""
                    res = set()
                    l = mir.op_local(o)
                    reach = p.reach_locals(l)
                    return reach
                tuples = []
                for bb, i, s in eld.stmts():
                    if s["k"] == "assign" and s["rv"]["k"] == "aggregate" and s["rv"]["kind"]["k"] == "tuple" \
                            and len(s["rv"]["ops"]) == 2:
                        a0 = mir.trace_access(eld, s["rv"]["ops"][0])
                        a1 = mir.trace_access(eld, s["rv"]["ops"][1])
                        if any(x in ("Rename", "Direct") for x in a0[1] + a1[1]):
                            tuples.append((s["place"]["local"], a0[1], a1[1]))
                ctx.inst("C13-exports-only", "spec-tuples", tuples)
                ok_t = False
                for tl, p0, p1 in tuples:
                    if "Rename" in p0 or "Rename" in p1:
                        ok_t = True
                        if not (p0[-2:] == ["Rename", 0] and p1[-2:] == ["Rename", 1]):
                            ctx.report("C13-exports-only", "rename-order", "(rename a b): the (internal, external) pair is built "
                                       "from fields %s / %s" % (p0, p1), where_of(eld))
                if not ok_t:
                    ctx.report("C13-exports-only", "shape", "export spec destructuring not recognised (fail closed)", where_of(eld))
                # the insert key must be tuple field 1 (external), the lookup key tuple field 0 (internal)
                def tuple_field(o):
                    # walk defs: local = copy _t.k
                    l = mir.op_local(o)
                    for _ in range(8):
                        ds = mir.defs_of(eld).get(l, [])
                        if len(ds) != 1:
                            return None
                        d = ds[0]
                        if d[0] == "call":
                            if p.is_pass(d[2]):
                                l = mir.op_local(d[2]["args"][0])
                                continue
                            return None
                        rv = d[3]["rv"]
                        pl = rv["op"]["place"] if rv["k"] == "use" and mir.op_place(rv["op"]) else (rv["place"] if rv["k"] == "ref" else None)
                        if pl is None:
                            return None
                        flds = [e for e in pl["proj"] if e["k"] == "field"]
                        if flds and pl["local"] in [tt[0] for tt in tuples]:
                            return flds[0]["i"]
                        l = pl["local"]
                    return None
                kf, gf = tuple_field(it["args"][1]), tuple_field(gt["args"][1])
                ctx.inst("C13-exports-only", "tuple-fields", {"insert_key_field": kf, "lookup_key_field": gf})
                if kf != 1 or gf != 0:
                    ctx.report("C13-exports-only", "key-fields", "the export map is keyed by tuple field %s and the value is "
                               "looked up by field %s (expected external=1, internal=0)" % (kf, gf), where_of(eld, it))
                # unbound export is an error
                sw = mir.result_switch_after(eld, gb)
                if sw:
                    none_t = sw[1].get(0, sw[2])
                    reg = mir.dominated_region(eld, none_t)
                    has_err = any(v == "UnboundedSymbol" for _, _, _, _, v in mir.aggregates(eld, reg))
                    ctx.inst("C13-exports-only", "unbound-export", {"err": has_err})
                    if not has_err:
                        ctx.report("C13-exports-only", "unbound-export", "an export that is not defined does not raise an error",
                                   where_of(eld, gt))
    ctx.guarded('C13-exports-only', d_def >= 2, _old_exports)

    # ------------------------------------------------------------------ C13-export-parse
    ctx.rule("C13-export-parse", "(rename a b) is parsed as ExportSpec::Rename(internal a, external b)")
    # a library definition with (export d1 (rename d2 d3)) through the crate's own lexer and parser: the export specification is
    # Rename(internal d2, external d3); the dataflow shape of transform_export_spec only when the parser cannot be followed
    from . import readtables as _rt13
    kx = _rt13.rule_keywords(ctx, "C13-export-parse", only={"define-library"})

    def _export_shape():
        tes = fb.find("parser::parser::Parser::transform_export_spec")
        pe = Prov(tes)
        order = {b: i for i, b in enumerate(tes.rpo())}
        for b, i, s, adt, v in mir.aggregates(tes, None, "ExportSpec"):
            if v == "Rename":
                r0 = pe_next_blocks(tes, pe, s["rv"]["ops"][0], order)
                r1 = pe_next_blocks(tes, pe, s["rv"]["ops"][1], order)
                ctx.inst("C13-export-parse", "Rename", {"first_from_next@": r0, "second_from_next@": r1})
                if not r0 or not r1 or not (max(r0) < min(r1)):
                    ctx.report("C13-export-parse", "Rename/order", "ExportSpec::Rename fields are not filled from the 2nd and "
                               "3rd list elements in order", where_of(tes))
    ctx.guarded("C13-export-parse", kx.get("define-library") is not None, _export_shape)
    ctx.floor("C13-export-parse", 1)

    # ------------------------------------------------------------------ C13-import-copies
    ctx.rule("C13-import-copies", "the importer gets its own bindings (define in the importer's frame)")
    from . import importtables as _imt
    d_cp = _imt.rule_union(ctx, "C13-import-copies")

    def _old_copies():
        ei = fb.find("interpreter::interpreter::Interpreter::eval_import")
        pi = Prov(ei)
        defs = [(b, t) for b, t in ei.calls() if callee_matches(t, "LexicalScope::define")]
        sets = [(b, t) for b, t in ei.calls() if callee_matches(t, "LexicalScope::set", "LexicalScope::get_mut")]
        ctx.inst("C13-import-copies", "eval_import", {"define": len(defs), "set": len(sets)})
        if not defs or sets:
            ctx.report("C13-import-copies", "eval_import", "imports must create bindings with define (found %d define, %d "
                       "set/get_mut)" % (len(defs), len(sets)), where_of(ei))
        for b, t in defs:
            if 3 not in pi.arg_roots(t["args"][0]):
                ctx.report("C13-import-copies", "target", "imports are defined in a frame other than the `env` argument", where_of(ei, t))
    ctx.guarded("C13-import-copies", d_cp >= 3, _old_copies)

    # ------------------------------------------------------------------ C13-single-instance
    ctx.rule("C13-single-instance", "all imports of a library refer to one instance (memoised instantiation)")
    from . import libtables
    ctx.rule("C14-no-negative-cache(shared)", "(see C14) a failed instantiation is not cached")
    d_cache = libtables.rule_cache(ctx, "C13-single-instance", "C13-single-instance")
    def _old_single():
        _single_instance(ctx, fb)
    ctx.guarded('C13-single-instance', d_cache >= 5, _old_single)
    # registering a factory touches the instance cache for that library only (table: libtables.register_table)
    from . import libtables as _lt_reg
    _lt_reg.rule_register(ctx, "C13-single-instance")

    return EXPLANATION, NOT_DECIDED


def pe_next_blocks(f, prov, o, order):
    """rpo ranks of the `next()` calls an operand may derive from."""
    l = mir.op_local(o)
    if l is None:
        return []
    reach = prov.taint_reach(l)
    out = []
    for b, t in f.calls():
        if callee_matches(t, "Iterator>::next", "Iterator::next") and t["dest"]["local"] in reach:
            out.append(order.get(b, -1))
    return sorted(out)


def _single_instance(ctx, fb):
    itp = fb.adt("interpreter::interpreter::Interpreter")
    loader = fb.adt("interpreter::interpreter::LibraryLoader")
    # state fields that can hold instantiated libraries
    cache_fields = []
    for a in (itp, loader):
        for fld in a["variants"][0]["fields"]:
            ty = fld["ty"]
            if "library::Library<" in ty or "Library<R>" in ty:
                cache_fields.append((mir.norm(a["path"]), fld["name"], ty))
    ctx.inst("C13-single-instance", "instance-cache-fields", cache_fields)
    gl = fb.find("interpreter::interpreter::Interpreter::get_library")
    nl = fb.find("interpreter::interpreter::Interpreter::new_library", required=False)
    # instantiation sites reachable from get_library: calls of eval_library_definition / indirect factory call
    inst_fns = {"interpreter::interpreter::Interpreter::eval_library_definition"}
    g = fb.call_graph("lib")
    reach = fb.reachable_from([gl.name], graph=g)
    if not (inst_fns & reach):
        ctx.report("C13-single-instance", "anchor", "get_library no longer reaches eval_library_definition (anchor moved)",
                   where_of(gl))
        return
    if not cache_fields:
        ctx.report("C13-single-instance", "no-instance-cache",
                   "every import re-instantiates the library: get_library reaches eval_library_definition / the native "
                   "factory on every call and no interpreter state holds instantiated libraries (two imports of one "
                   "library get two instances, so internal state is not shared)", where_of(gl))
        return
    names = {n for _, n, _ in cache_fields}

    def touches(f, op):
        s, _ = mir.trace_place(f, op)
        return any(("." + n) in s for n in names)

    # in get_library (or wherever instantiation is called from): the instantiating call must be dominated by the
    # miss edge of a lookup on the cache field, and followed by an insert on it.
    ok_any = False
    for f in [x for x in fb.all("lib") if x.name in reach or x.name == gl.name]:
        inst_calls = [(b, t) for b, t in f.calls()
                      if (callee(t) or "") in inst_fns or (nl is not None and callee(t) == nl.name)]
        if not inst_calls or f.name == (nl.name if nl else None):
            continue
        lookups = [(b, t) for b, t in f.calls()
                   if callee_matches(t, "HashMap::get", "HashMap::contains_key", "HashMap::get_mut", "HashMap::entry")
                   and touches(f, t["args"][0])]
        inserts = [(b, t) for b, t in f.calls()
                   if callee_matches(t, "HashMap::insert", "Entry::or_insert", "Entry::or_insert_with", "HashMap::entry")
                   and (touches(f, t["args"][0]) or callee_matches(t, "Entry::or_insert", "Entry::or_insert_with"))]
        dom = f.dominators()
        for ib, it in inst_calls:
            guarded = False
            for lb, lt in lookups:
                sw = mir.result_switch_after(f, lb)
                miss = None
                if sw:
                    miss = sw[1].get(0, sw[2])  # None variant / false
                else:
                    nb = lt.get("target")
                    tt = f.blocks[nb]["term"] if nb is not None else None
                    if tt and tt["k"] == "switch" and mir.op_local(tt["discr"]) == lt["dest"]["local"]:
                        miss = dict((v, bb) for v, bb in tt["targets"]).get(0)
                if miss is not None and miss in dom[ib]:
                    guarded = True
            stored = any(b2 in f.reachable(ib) for b2, _ in inserts)
            ctx.inst("C13-single-instance", "%s/instantiate" % f.name, {"guarded_by_cache_miss": guarded, "stored": stored})
            if guarded and stored:
                ok_any = True
            else:
                ctx.report("C13-single-instance", "%s/unguarded-instantiation" % f.name,
                           "a library is instantiated without consulting / filling the instance cache "
                           "(guarded=%s, stored=%s)" % (guarded, stored), where_of(f, it))
    if not ok_any and cache_fields:
        ctx.report("C13-single-instance", "shape", "instance cache field exists but no guarded instantiation was "
                   "recognised (fail closed)", where_of(gl))
    # re-registration invalidates the cached instance (otherwise a replaced factory is never used)
    for rn in ("interpreter::interpreter::Interpreter::register_library_factory",):
        rf = fb.find(rn, required=False)
        if rf is None:
            continue
        inv = [(b, t) for b, t in rf.calls()
               if callee_matches(t, "HashMap::remove", "HashMap::clear", "HashMap::retain") and touches(rf, t["args"][0])]
        ctx.inst("C13-single-instance", "register/invalidates", len(inv))
        if not inv:
            ctx.report("C13-single-instance", "register/no-invalidation", "registering a factory does not invalidate the "
                       "cached instance of that library", where_of(rf))
