"""Decision table of the command-line front end (machine.py): `ruschm FILE` for the three outcomes of evaluating the file."""
import re
from . import absint, machine, mir
from .absint import Enum, UNKNOWN
from .machine import NOT, Machine, ok, err, some, none, Sink, Text, Hole


class T:
    def __init__(self, tag):
        self.tag = tag

    def __repr__(self):
        return "<%s>" % self.tag


def main_table(fb):
    main = fb.find("main", crate="bin")
    rows = []
    for scenario in ("ok", "error-with-location", "error-without-location"):
        E = T("error-message")
        errv = Enum(0, [E, some([12, 34]) if scenario == "error-with-location" else none()])
        errv.name, errv.adt = "Located", "error::Located"
        sinks = {}
        ev = []

        def icpt(mc, c, a, tt, g):
            end = c.rsplit("::", 1)[-1]
            if c.endswith("env::args"):
                return T("args")
            if end in ("nth", "skip", "next") and a and isinstance(a[0], T) and a[0].tag == "args":
                return some("prog.scm")
            if c.endswith("Interpreter::default") or c.endswith("Interpreter::new") or c.endswith("Interpreter::new_with_stdlib") or \
                    (end == "default" and "Interpreter" in c):
                return T("interpreter")
            if c.endswith("Interpreter::eval_file"):
                ev.append(("eval_file", a[1] if len(a) > 1 else None))
                return ok(none()) if scenario == "ok" else err(errv)
            if c.endswith("repl::run") or c.endswith("repl::run_with_interpreter"):
                ev.append(("repl",))
                return []
            if c.endswith("StandardStream::stderr") or c.endswith("io::stderr") or c.endswith("BufferWriter::stderr"):
                s = sinks.setdefault("stderr", Sink())
                return s
            if c.endswith("StandardStream::stdout") or c.endswith("io::stdout") or c.endswith("BufferWriter::stdout"):
                s = sinks.setdefault("stdout", Sink())
                return s
            if c.endswith("io::_print") or c.endswith("io::_eprint"):
                s = sinks.setdefault("stdout" if c.endswith("_print") else "stderr", Sink())
                if a and isinstance(a[0], machine.FmtArguments):
                    s.parts.append(mc.render(a[0]))
                return []
            if "ColorSpec" in c or c.endswith("WriteColor>::set_color") or c.endswith("WriteColor>::reset") or c.endswith("Write>::flush"):
                return ok([]) if end in ("set_color", "reset", "flush") else T("colorspec")
            if c.endswith("process::exit"):
                ev.append(("exit", a[0] if a else None))
                return UNKNOWN
            if ("PathBuf" in c or "path::Path" in c) and end in ("from", "new", "as_ref", "to_path_buf"):
                return a[0]
            return NOT
        mc = Machine(fb, intercept=icpt, max_visits=4, budget=400, crate="bin")
        try:
            res = mc.run(main, [])
        except (absint.Stuck, absint.Loop) as e:
            rows.append((scenario, {"stuck": str(e)}))
            continue
        rows.append((scenario, {"result": res, "events": ev, "stderr": sinks["stderr"].text() if "stderr" in sinks else None,
                                "stdout": sinks["stdout"].text() if "stdout" in sinks else None, "E": E,
                                "panics": [e for e in mc.events if e[0] == "panic"]}))
    return main, rows


def _has(v, x, d=6):
    if v is x:
        return True
    if isinstance(v, Enum):
        return d > 0 and any(_has(y, x, d - 1) for y in v.fields)
    return isinstance(v, list) and d > 0 and any(_has(y, x, d - 1) for y in v)


def _flat(t, E=None):
    """text with holes written as {..}; the hole that prints the error (or its message) is {error-message}"""
    if t is None:
        return None
    if isinstance(t, str):
        return t
    return "".join(p if isinstance(p, str) else ("{error-message}" if E is not None and _has(p.value, E) else "{%s}" % getattr(p.value, "tag", "?"))
                   for p in t.parts)


def rule_main(ctx, rule_exit, rule_stderr):
    fb = ctx.fb()
    from .ctx import where_of
    main, rows = main_table(fb)
    decided = 0
    for scenario, d in rows:
        key = "main/%s" % scenario
        if "stuck" in d:
            ctx.undecided(rule_exit, key, "cannot follow main (%s)" % d["stuck"], where_of(main))
            continue
        decided += 1
        exits = [e[1] for e in d["events"] if e[0] == "exit"]
        files = [e[1] for e in d["events"] if e[0] == "eval_file"]
        err_txt, out_txt = _flat(d["stderr"], d["E"]), _flat(d["stdout"], d["E"])
        ctx.inst(rule_exit, key, {"exit_calls": exits, "stderr": err_txt, "stdout": out_txt})
        if files != ["prog.scm"]:
            ctx.report(rule_exit, key + "/file", "`ruschm prog.scm` evaluates %s, expected the file named on the command line once" % files, where_of(main))
        if scenario == "ok":
            good = not exits and not err_txt and not out_txt and getattr(d["result"], "name", None) in ("Ok", None)
            ctx.oblige(good)
            if exits:
                ctx.report(rule_exit, key + "/exit", "a program that evaluates without error ends with process::exit(%s)" % exits, where_of(main))
            if err_txt or out_txt:
                ctx.report(rule_stderr, key + "/output", "a program that evaluates without error makes the front end itself print %r / %r" % (err_txt, out_txt), where_of(main))
        else:
            nz = bool(exits) and all(isinstance(c, int) and not isinstance(c, bool) and c != 0 for c in exits)
            returns_err = getattr(d["result"], "name", None) == "Err"
            ctx.oblige(nz or returns_err)
            if not (nz or returns_err):
                ctx.report(rule_exit, key + "/exit", "when evaluation fails the process ends with %s (result %r); expected a non-zero exit status" % (
                    exits or "no exit call", d["result"]), where_of(main))
            pat = r"prog\.scm:12:34 +\{error-message\}\n" if scenario == "error-with-location" else r"prog\.scm.*\{error-message\}\n"
            good = err_txt is not None and re.fullmatch(pat, err_txt, re.S) is not None and not out_txt
            ctx.oblige(good)
            if out_txt:
                ctx.report(rule_stderr, key + "/stdout", "the diagnostic (or part of it) goes to standard output: %r" % out_txt, where_of(main))
            elif not good:
                ctx.report(rule_stderr, key + "/format", "the diagnostic written to standard error is %r; expected `prog.scm%s MESSAGE` and a newline" % (
                    err_txt, ":12:34" if scenario == "error-with-location" else ""), where_of(main))
    return decided
